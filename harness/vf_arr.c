#include "vf_arr.h"

const char *const vf_shape_name[VF_SH_COUNT] = {
    "explicit",     "const",         "rampUp",      "rampDown",  "sortedRandom",
    "periodic",     "clusterOutliers", "fewUnique", "runs",      "oneExtreme",
    "strict16",     "randomWidth",   "samplerFool", "descRandom"};

static const uint32_t g_lens[] = {1,     2,     7,     8,     16,    63,   64,
                                  65,    127,   128,   129,   240,   241,  255,
                                  256,   257,   2287,  2288,  4095,  4096, 4097,
                                  10000, 10001, 20000, 65535, 65536, 67823, 67824};
#define NLENS (sizeof(g_lens) / sizeof(g_lens[0]))

int vf_len_is_table(size_t n) {
    for (size_t i = 0; i < NLENS; i++) {
        if (n + 1 >= g_lens[i] && n <= (size_t)g_lens[i] + 1) {
            return 1;
        }
    }
    return 0;
}

unsigned vf_take_bits(vf_rd *r) {
    static const uint8_t fav[16] = {1, 2,  7,  8,  9,  15, 16, 17,
                                    24, 31, 32, 33, 48, 56, 63, 64};
    uint8_t b = vf_u8(r);
    if (b & 1) {
        return fav[(b >> 1) & 15];
    }
    return 1 + ((b >> 1) & 63);
}

static uint64_t mask_bits(unsigned bits) {
    return bits >= 64 ? UINT64_MAX : ((1ULL << bits) - 1);
}

static int cmp_u64(const void *a, const void *b) {
    uint64_t x = *(const uint64_t *)a, y = *(const uint64_t *)b;
    return x < y ? -1 : x > y;
}

void vf_take_array(vf_rd *r, vf_arr *a, size_t maxlen, unsigned flags) {
    memset(a, 0, sizeof(*a));
    if (maxlen < 1) {
        maxlen = 1;
    }
    uint8_t lc = vf_u8(r);
    uint16_t la = vf_u16(r);
    size_t n;
    switch (lc & 3) {
    case 0:
    case 1:
        n = 1 + (la % 40);
        a->lenclass = 0;
        break;
    case 2: {
        size_t idx = la % NLENS;
        /* largest table entry that fits */
        while (idx > 0 && g_lens[idx] > maxlen) {
            idx--;
        }
        n = g_lens[idx];
        unsigned adj = (la >> 8) % 3; /* 0, +1, -1 */
        if (adj == 1 && n + 1 <= maxlen) {
            n++;
        } else if (adj == 2 && n > 1) {
            n--;
        }
        a->lenclass = 1;
        break;
    }
    default:
        n = 128 * (size_t)((la >> 8) % 40) + (la & 0xff);
        a->lenclass = 2;
        break;
    }
    if (n < 1) {
        n = 1;
    }
    if (n > maxlen) {
        n = maxlen;
    }
    a->n = n;
    a->v = (uint64_t *)malloc(n * sizeof(uint64_t));
    if (!a->v) {
        abort();
    }
    uint64_t *v = a->v;
    unsigned shape = vf_u8(r) % VF_SH_COUNT;
    if (flags & VF_ARR_STRICT16) {
        shape = VF_SH_STRICT16;
        if (n > 65536) {
            n = a->n = 65536;
        }
    }
    if (shape == VF_SH_EXPLICIT && n > 48) {
        shape = VF_SH_RANDOM_WIDTH;
    }
    a->shape = shape;
    uint64_t seed = 0x9e3779b97f4a7c15ULL;
    char extra[120] = "";
    switch (shape) {
    case VF_SH_EXPLICIT:
        for (size_t i = 0; i < n; i++) {
            v[i] = vf_u64(r);
        }
        break;
    case VF_SH_CONST: {
        uint64_t c = vf_u64(r);
        for (size_t i = 0; i < n; i++) {
            v[i] = c;
        }
        snprintf(extra, sizeof(extra), "c=%llu", (unsigned long long)c);
        break;
    }
    case VF_SH_RAMP_UP:
    case VF_SH_RAMP_DOWN: {
        uint64_t base = vf_u64(r);
        uint64_t step = vf_u8(r) & 1 ? vf_u8(r) : vf_u64(r);
        for (size_t i = 0; i < n; i++) {
            size_t k = shape == VF_SH_RAMP_UP ? i : n - 1 - i;
            v[i] = base + k * step;
        }
        snprintf(extra, sizeof(extra), "base=%llu step=%llu",
                 (unsigned long long)base, (unsigned long long)step);
        break;
    }
    case VF_SH_SORTED_RANDOM:
    case VF_SH_DESC_RANDOM:
    case VF_SH_RANDOM_WIDTH: {
        unsigned bits = vf_take_bits(r);
        uint64_t base = (vf_u8(r) & 3) == 0 ? vf_u64(r) : 0;
        seed ^= vf_raw64(r) | 1;
        for (size_t i = 0; i < n; i++) {
            v[i] = base + (vf_xs(&seed) & mask_bits(bits));
        }
        if (shape != VF_SH_RANDOM_WIDTH) {
            qsort(v, n, sizeof(*v), cmp_u64);
            if (shape == VF_SH_DESC_RANDOM) {
                for (size_t i = 0; i < n / 2; i++) {
                    uint64_t t = v[i];
                    v[i] = v[n - 1 - i];
                    v[n - 1 - i] = t;
                }
            }
        }
        snprintf(extra, sizeof(extra), "bits=%u base=%llu", bits,
                 (unsigned long long)base);
        break;
    }
    case VF_SH_PERIODIC: {
        unsigned p = 1 + (vf_u8(r) & 15);
        uint64_t pal[16];
        for (unsigned i = 0; i < p; i++) {
            pal[i] = vf_u64(r);
        }
        for (size_t i = 0; i < n; i++) {
            v[i] = pal[i % p];
        }
        snprintf(extra, sizeof(extra), "period=%u", p);
        break;
    }
    case VF_SH_CLUSTER_OUTLIERS: {
        uint64_t base = vf_u64(r);
        unsigned nb = vf_u8(r) % 17; /* noise bits */
        unsigned k = vf_u8(r) % 9;   /* outliers */
        seed ^= vf_u32(r) | 1;
        for (size_t i = 0; i < n; i++) {
            v[i] = base + (vf_xs(&seed) & mask_bits(nb ? nb : 1)) * (nb != 0);
        }
        for (unsigned j = 0; j < k; j++) {
            size_t idx = vf_u32(r) % n;
            /* bias toward the tail and toward indices > 240 / > 2287 */
            if ((j & 1) && n > 241) {
                idx = 241 + idx % (n - 241);
            }
            v[idx] = vf_u64(r);
        }
        snprintf(extra, sizeof(extra), "base=%llu noisebits=%u outliers=%u",
                 (unsigned long long)base, nb, k);
        break;
    }
    case VF_SH_FEW_UNIQUE: {
        unsigned p = 1 + (vf_u8(r) & 15);
        uint64_t pal[16];
        for (unsigned i = 0; i < p; i++) {
            pal[i] = vf_u64(r);
        }
        seed ^= vf_u32(r) | 1;
        for (size_t i = 0; i < n; i++) {
            v[i] = pal[vf_xs(&seed) % p];
        }
        snprintf(extra, sizeof(extra), "palette=%u", p);
        break;
    }
    case VF_SH_RUNS: {
        size_t i = 0;
        unsigned runs = 0;
        while (i < n) {
            uint64_t val = vf_u64(r);
            size_t len = 1 + vf_u16(r) % 300;
            if (vf_left(r) == 0) {
                len = n - i; /* exhausted: one final run */
            }
            for (size_t j = 0; j < len && i < n; j++) {
                v[i++] = val;
            }
            runs++;
        }
        snprintf(extra, sizeof(extra), "runs=%u", runs);
        break;
    }
    case VF_SH_ONE_EXTREME: {
        unsigned bits = 1 + (vf_u8(r) % 16);
        seed ^= vf_u32(r) | 1;
        for (size_t i = 0; i < n; i++) {
            v[i] = vf_xs(&seed) & mask_bits(bits);
        }
        size_t idx = vf_u32(r) % n;
        v[idx] = vf_u64(r);
        snprintf(extra, sizeof(extra), "bits=%u at=%zu extreme=%llu", bits, idx,
                 (unsigned long long)v[idx]);
        break;
    }
    case VF_SH_STRICT16: {
        /* strictly increasing below 65536: choose gaps */
        if (n > 65536) {
            n = a->n = 65536;
        }
        uint32_t start = vf_u16(r);
        unsigned gapbits = vf_u8(r) % 9;
        seed ^= vf_u32(r) | 1;
        uint32_t room = 65536 - (uint32_t)n; /* total slack */
        if (start > room) {
            start = room;
        }
        uint32_t cur = start;
        uint32_t slack = room - start;
        for (size_t i = 0; i < n; i++) {
            v[i] = cur;
            uint32_t gap = (uint32_t)(vf_xs(&seed) & mask_bits(gapbits ? gapbits : 1));
            if (!gapbits) {
                gap = 0;
            }
            if (gap > slack) {
                gap = slack;
            }
            slack -= gap;
            cur += 1 + gap;
        }
        snprintf(extra, sizeof(extra), "start=%u gapbits=%u", start, gapbits);
        break;
    }
    default: { /* VF_SH_SAMPLER_FOOL */
        /* every k-th element from a tiny palette, the rest distinct */
        unsigned k = 1 + (vf_u8(r) % 20);
        unsigned bits = vf_take_bits(r);
        uint64_t common = vf_u64(r);
        seed ^= vf_u32(r) | 1;
        unsigned phase = vf_u8(r) % k;
        for (size_t i = 0; i < n; i++) {
            v[i] = (i % k == phase) ? common : (vf_xs(&seed) & mask_bits(bits));
        }
        snprintf(extra, sizeof(extra), "k=%u phase=%u bits=%u common=%llu", k,
                 phase, bits, (unsigned long long)common);
        break;
    }
    }
    /* domain modifiers */
    if (flags & VF_ARR_SDELTA) {
        /* keep every value within [-2^62, 2^62] as int64 */
        for (size_t i = 0; i < n; i++) {
            int64_t s = (int64_t)v[i];
            if (s > (int64_t)(1ULL << 62) || s < -(int64_t)(1ULL << 62)) {
                v[i] = (uint64_t)(s >> 2);
            }
        }
    }
    if (flags & VF_ARR_U32) {
        for (size_t i = 0; i < n; i++) {
            if (v[i] > 0xffffffffULL) {
                /* fold, keeping the top of the range likely */
                v[i] = (v[i] & 3) == 0 ? 0xffffffffULL - ((v[i] >> 2) & 3)
                                       : (v[i] & 0xffffffffULL);
            }
        }
    }
    if (flags & VF_ARR_GE1) {
        for (size_t i = 0; i < n; i++) {
            if (v[i] == 0) {
                v[i] = 1;
            }
        }
    }
    if ((flags & VF_ARR_SORTED) && shape != VF_SH_STRICT16) {
        qsort(v, n, sizeof(*v), cmp_u64);
    }
    snprintf(a->desc, sizeof(a->desc), "n=%zu shape=%s %s [%llu,%llu%s", a->n,
             vf_shape_name[shape], extra, (unsigned long long)v[0],
             (unsigned long long)(n > 1 ? v[1] : 0), n > 2 ? ",...]" : "]");
}

void vf_arr_free(vf_arr *a) {
    free(a->v);
    a->v = NULL;
}

uint64_t vf_arr_hash(const vf_arr *a) {
    return vf_hash_bytes(0xcbf29ce484222325ULL, a->v, a->n * sizeof(uint64_t));
}

uint64_t vf_arr_max(const vf_arr *a) {
    uint64_t m = 0;
    for (size_t i = 0; i < a->n; i++) {
        if (a->v[i] > m) {
            m = a->v[i];
        }
    }
    return m;
}

void vf_arr_classes(const vf_arr *a, const char *prefix) {
    char b[96];
    snprintf(b, sizeof(b), "%s.shape.%s", prefix, vf_shape_name[a->shape]);
    vf_class(b);
    const char *lc = a->n <= 40     ? "len<=40"
                     : a->n <= 257  ? "len41-257"
                     : a->n <= 4097 ? "len258-4097"
                     : a->n <= 10001 ? "len4098-10001"
                     : a->n <= 65534 ? "len10002-65534"
                                     : "len>=65535";
    snprintf(b, sizeof(b), "%s.%s", prefix, lc);
    vf_class(b);
    if (vf_len_is_table(a->n)) {
        snprintf(b, sizeof(b), "%s.tableLength", prefix);
        vf_class(b);
    }
}
