/* c18_codec.h - PFOR, float and adaptive scenarios of the C18 harness */
#ifndef C18_CODEC_H
#define C18_CODEC_H
#include "c18_common.h"

static const char *const c18_tname[6] = {"DELTA", "FOR", "PFOR",
                                         "DICT",  "BITMAP", "TAGGED"};

static size_t codec_cap(size_t n) {
    return 96 + 28 * n;
}

/* ===================================================================== PFOR */
static uint32_t pfor_threshold(const ctx *c) {
    static const uint32_t t[3] = {VARINT_PFOR_THRESHOLD_95,
                                  VARINT_PFOR_THRESHOLD_90,
                                  VARINT_PFOR_THRESHOLD_99};
    return t[c->st % 3];
}

/* The analysis is a deterministic function of (values, threshold): a run
 * with a failed allocation either reports the failure (zeroed meta) or gives
 * exactly what the fault-free run gave.  Which percentile element, width and
 * marker the analysis picks is the codec's own business (checked, as far as a
 * property speaks about it, by C16); only what the documentation promises
 * about every successful analysis is asked of the fault-free run. */
static void f_pfor_threshold(ctx *c) {
    const uint64_t *x = c->a.v;
    uint32_t n = (uint32_t)c->a.n, t = pfor_threshold(c);
    varintPFORMeta m;
    memset(&m, 0xA5, sizeof(m));
    call_begin(c);
    varintWidth w = varintPFORComputeThreshold(x, n, t, &m);
    call_end(c);
    if (m.count == 0 && m.width == 0) {
        /* zeroed meta: the analysis could not be done; callers recognise it
         * by count != n (the returned "conservative" width is then not a
         * property of the data) */
        reported_failure(c, "a zeroed meta");
        return;
    }
    if (c->k == 0) {
        uint64_t mn = x[0];
        for (uint32_t i = 1; i < n; i++) {
            mn = x[i] < mn ? x[i] : mn;
        }
        if (m.count != n || m.min != mn || m.threshold != t ||
            (unsigned)m.width != (unsigned)w || (unsigned)w < 1 ||
            (unsigned)w > 8 || m.exceptionCount > n) {
            bad(c, "value",
                "meta count=%u min=%llu width=%u ret=%u exc=%u threshold=%u for "
                "%u values with minimum %llu, threshold %u",
                m.count, (unsigned long long)m.min, (unsigned)m.width,
                (unsigned)w, m.exceptionCount, m.threshold, n,
                (unsigned long long)mn, t);
            return;
        }
        c->pm0 = m;
        c->pw0 = (unsigned)w;
        return;
    }
    if (m.count != c->pm0.count || m.min != c->pm0.min ||
        m.thresholdValue != c->pm0.thresholdValue ||
        (unsigned)m.width != (unsigned)c->pm0.width || (unsigned)w != c->pw0 ||
        m.threshold != c->pm0.threshold ||
        m.exceptionMarker != c->pm0.exceptionMarker ||
        m.exceptionCount != c->pm0.exceptionCount) {
        bad(c, "value",
            "meta count=%u min=%llu thr=%llu width=%u ret=%u exc=%u marker=%llx; "
            "the fault-free analysis of the same input gave count=%u min=%llu "
            "thr=%llu width=%u ret=%u exc=%u marker=%llx",
            m.count, (unsigned long long)m.min,
            (unsigned long long)m.thresholdValue, (unsigned)m.width, (unsigned)w,
            m.exceptionCount, (unsigned long long)m.exceptionMarker,
            c->pm0.count, (unsigned long long)c->pm0.min,
            (unsigned long long)c->pm0.thresholdValue, (unsigned)c->pm0.width,
            c->pw0, c->pm0.exceptionCount,
            (unsigned long long)c->pm0.exceptionMarker);
    }
}

/* One decode of src (which holds the len bytes the encoder reported, in a
 * block described by `where`) with the library's own reader and decoder.  No
 * layout of the stream is assumed: the header is read back with
 * varintPFORReadMeta (so that a count the output array cannot hold is
 * reported instead of being decoded), the values with varintPFORDecode. */
static int pfor_decode_check(ctx *c, const uint8_t *src, size_t len,
                             const char *what, const char *where) {
    const uint64_t *x = c->a.v;
    size_t n = c->a.n, at;
    varintPFORMeta m2;
    memset(&m2, 0, sizeof(m2));
    varintPFORReadMeta(src, &m2);
    if (m2.count != n) {
        return bad(c, "value",
                   "%s returned %zu (success) but varintPFORReadMeta finds %u "
                   "values announced in the output (%s), input has %zu", what,
                   len, m2.count, where, n);
    }
    uint64_t *dec = (uint64_t *)xmalloc(n * sizeof(uint64_t));
    memset(dec, 0xA5, n * sizeof(uint64_t));
    memset(&m2, 0, sizeof(m2));
    int r = 0;
    size_t cnt = varintPFORDecode(src, dec, &m2);
    if (cnt != n) {
        r = bad(c, "value", "%s output (%s) decodes to %zu values, input %zu",
                what, where, cnt, n);
    } else if (first_diff_u64(dec, x, n, &at)) {
        r = bad(c, "value",
                "%s returned %zu (success) but the output (%s) decodes "
                "[%zu]=%llu, input %llu", what, len, where, at,
                (unsigned long long)dec[at], (unsigned long long)x[at]);
    }
    free(dec);
    return r;
}

/* out[0..len) is what a call reported as a successful encoding.  It is judged
 * only by decoding it with the library: first in a zero padded block (a
 * decoder led astray by a wrong stream meets zeros and the verdict is a clean
 * value mismatch), then in an exact-size block, as a caller that stores
 * exactly the reported length would hold it (ASan redzone: a decoder that
 * needs bytes behind the reported length dies there, and that death is the
 * finding: "success" with an output that cannot be decoded). */
static int pfor_roundtrip(ctx *c, const uint8_t *out, size_t len, size_t cap,
                          const char *what) {
    size_t n = c->a.n;
    if (len > cap) {
        return bad(c, "length", "%s returned %zu > buffer %zu", what, len, cap);
    }
    uint8_t *cp = padded_copy(out, len, 64 + 18 * n);
    int r = pfor_decode_check(c, cp, len, what, "zero padded copy");
    free(cp);
    if (!r) {
        uint8_t *ex = exact_copy(out, len);
        r = pfor_decode_check(c, ex, len, what, "exact-size copy");
        vf_exact_free(ex);
    }
    return r;
}

static void f_pfor_encode(ctx *c) {
    size_t n = c->a.n, cap = codec_cap(n);
    uint8_t *buf = (uint8_t *)xmalloc(cap);
    memset(buf, 0xA5, cap);
    varintPFORMeta m;
    memset(&m, 0, sizeof(m));
    call_begin(c);
    size_t len = varintPFOREncode(buf, c->a.v, (uint32_t)n, pfor_threshold(c), &m);
    call_end(c);
    if (len == 0) {
        reported_failure(c, "0");
    } else {
        pfor_roundtrip(c, buf, len, cap, "varintPFOREncode");
    }
    free(buf);
}

/* ==================================================================== float */
static uint64_t d2u(double d) {
    uint64_t u;
    memcpy(&u, &d, 8);
    return u;
}
static double u2d(uint64_t u) {
    double d;
    memcpy(&d, &u, 8);
    return d;
}

static void float_inputs(ctx *c) {
    if (c->fin) {
        return;
    }
    size_t n = c->a.n;
    c->fin = (double *)xmalloc(n * sizeof(double));
    for (size_t i = 0; i < n; i++) {
        uint64_t v = c->a.v[i];
        switch (c->p2 & 3) {
        case 0: /* one binade band: what COMMON_EXPONENT is meant for */
            c->fin[i] = u2d((v & 0x800FFFFFFFFFFFFFULL) |
                            ((uint64_t)(1023 + ((v >> 52) & 15)) << 52));
            break;
        case 1:
            c->fin[i] = (double)(int64_t)v / 8.0;
            break;
        case 2:
            c->fin[i] = ldexp((double)(v & 0xFFFFF), -10) * ((v >> 20) & 1 ? -1 : 1);
            break;
        default: /* raw bit patterns: NaN, Inf, subnormals, any exponent */
            c->fin[i] = u2d(v);
            break;
        }
    }
}

static varintFloatPrecision float_prec(const ctx *c) {
    return (varintFloatPrecision)(c->st & 3);
}
static varintFloatEncodingMode float_mode(const ctx *c) {
    return (varintFloatEncodingMode)((c->st >> 2) % 3);
}

/* decoded values must be the input (FULL) or inside the published relative
 * error of the precision; specials and zero come back bit-exact */
static int float_values_ok(ctx *c, const double *dec, char *why, size_t whyn) {
    size_t n = c->a.n;
    varintFloatPrecision pr = float_prec(c);
    double bound = varintFloatPrecisionMaxRelativeError(pr);
    for (size_t i = 0; i < n; i++) {
        double in = c->fin[i];
        uint64_t ui = d2u(in), uo = d2u(dec[i]);
        unsigned ex = (unsigned)((ui >> 52) & 0x7FF);
        int ok;
        if (pr == VARINT_FLOAT_PRECISION_FULL || ex == 0 || ex == 0x7FF) {
            ok = ui == uo;
        } else {
            ok = fabs(dec[i] - in) <= fabs(in) * bound;
        }
        if (!ok) {
            snprintf(why, whyn, "[%zu] input %.17g (0x%016llx) decodes to %.17g "
                                "(0x%016llx)", i, in, (unsigned long long)ui, dec[i],
                     (unsigned long long)uo);
            return 0;
        }
    }
    return 1;
}

static int float_decode_check(ctx *c, const uint8_t *src, size_t len,
                              const char *where, int keep) {
    size_t n = c->a.n;
    double *dec = (double *)xmalloc(n * sizeof(double));
    memset(dec, 0xA5, n * sizeof(double));
    size_t used = varintFloatDecode(src, n, dec);
    char why[200];
    int r = 0;
    if (used != len) {
        r = bad(c, "value", "encoder returned %zu bytes, decoder (%s) consumed "
                            "%zu", len, where, used);
    } else if (!float_values_ok(c, dec, why, sizeof(why))) {
        r = bad(c, "value", "encoder returned %zu (success) but (%s) %s", len,
                where, why);
    } else if (keep && c->k == 0) {
        free(c->fbase);
        c->fbase = dec;
        dec = NULL;
    }
    free(dec);
    return r;
}

/* the reported output is judged by decoding it with the library (zero padded
 * block first, then exact-size block; see pfor_roundtrip); nothing about the
 * float stream's sections is assumed */
static int float_roundtrip(ctx *c, const uint8_t *out, size_t len, size_t cap) {
    size_t n = c->a.n;
    if (len > cap) {
        return bad(c, "length", "varintFloatEncode returned %zu > buffer %zu", len,
                   cap);
    }
    uint8_t *cp = padded_copy(out, len, 64 + 10 * n);
    int r = float_decode_check(c, cp, len, "zero padded copy", 0);
    free(cp);
    if (!r) {
        uint8_t *ex = exact_copy(out, len);
        r = float_decode_check(c, ex, len, "exact-size copy", 1);
        vf_exact_free(ex);
    }
    return r;
}

static void f_float_encode(ctx *c) {
    float_inputs(c);
    size_t n = c->a.n, cap = codec_cap(n);
    uint8_t *buf = (uint8_t *)xmalloc(cap);
    memset(buf, 0xA5, cap);
    call_begin(c);
    size_t len = varintFloatEncode(buf, c->fin, n, float_prec(c), float_mode(c));
    call_end(c);
    if (len == 0) {
        reported_failure(c, "0");
    } else {
        float_roundtrip(c, buf, len, cap);
    }
    free(buf);
}

static void f_float_decode(ctx *c) {
    float_inputs(c);
    size_t n = c->a.n;
    if (!c->enc) {
        size_t cap = codec_cap(n);
        uint8_t *buf = (uint8_t *)xmalloc(cap);
        memset(buf, 0xA5, cap);
        size_t len =
            varintFloatEncode(buf, c->fin, n, float_prec(c), float_mode(c));
        if (len == 0) {
            bad(c, "failure", "fault-free varintFloatEncode returned 0");
            free(buf);
            return;
        }
        if (float_roundtrip(c, buf, len, cap)) {
            free(buf);
            return;
        }
        c->enc = padded_copy(buf, len, 64);
        c->enclen = len;
        free(buf);
    }
    double *dec = (double *)xmalloc(n * sizeof(double));
    memset(dec, 0xA5, n * sizeof(double));
    call_begin(c);
    size_t used = varintFloatDecode(c->enc, n, dec);
    call_end(c);
    if (used == 0) {
        reported_failure(c, "0");
    } else if (used != c->enclen) {
        bad(c, "value", "varintFloatDecode consumed %zu of %zu bytes", used,
            c->enclen);
    } else {
        for (size_t i = 0; i < n; i++) {
            if (d2u(dec[i]) != d2u(c->fbase[i])) {
                bad(c, "value",
                    "varintFloatDecode [%zu]=%.17g, the fault-free decode gives "
                    "%.17g (input %.17g)", i, dec[i], c->fbase[i], c->fin[i]);
                break;
            }
        }
    }
    free(dec);
}

/* ================================================================= adaptive */
/* what varintAdaptiveCountUnique promises: exact up to 10000 values, the
 * documented every-(count/sample)th sample estimate above */
static size_t count_unique_model(const uint64_t *x, size_t n) {
    uint64_t *u = NULL;
    size_t r;
    if (n <= 10000) {
        r = uniq_sorted(x, n, &u);
        free(u);
        return r;
    }
    size_t ss = n / 10;
    if (ss < 100) {
        ss = 100;
    }
    size_t step = n / ss;
    uint64_t *s = (uint64_t *)xmalloc(ss * sizeof(uint64_t));
    for (size_t i = 0; i < ss; i++) {
        s[i] = x[i * step];
    }
    size_t us = uniq_sorted(s, ss, &u);
    free(u);
    free(s);
    r = (us * n) / ss;
    return r > n ? n : r;
}

static void f_count_unique(ctx *c) {
    size_t n = c->a.n;
    size_t model = count_unique_model(c->a.v, n);
    call_begin(c);
    size_t r = varintAdaptiveCountUnique(c->a.v, n);
    call_end(c);
    if (r == model) {
        return;
    }
    uint64_t *ux = NULL;
    size_t exact = uniq_sorted(c->a.v, n, &ux);
    free(ux);
    if (r == exact) {
        return;
    }
    if (r == n) {
        /* documented as approximate; `count` is the conservative answer the
         * function gives when it cannot allocate */
        reported_failure(c, "count (conservative estimate)");
        return;
    }
    bad(c, "value", "varintAdaptiveCountUnique=%zu, expected %zu (or %zu)", r,
        model, n);
}

static void f_analyze(ctx *c) {
    size_t n = c->a.n;
    const uint64_t *x = c->a.v;
    varintAdaptiveDataStats s;
    memset(&s, 0xA5, sizeof(s));
    call_begin(c);
    varintAdaptiveAnalyze(x, n, &s);
    call_end(c);
    size_t model = count_unique_model(x, n);
    uint64_t mn = x[0], mx = x[0];
    for (size_t i = 1; i < n; i++) {
        mn = x[i] < mn ? x[i] : mn;
        mx = x[i] > mx ? x[i] : mx;
    }
    if (s.count != n || s.minValue != mn || s.maxValue != mx ||
        s.range != mx - mn || s.fitsInBitmapRange != (mx < 65536)) {
        bad(c, "value", "stats count=%zu min=%llu max=%llu range=%llu", s.count,
            (unsigned long long)s.minValue, (unsigned long long)s.maxValue,
            (unsigned long long)s.range);
        return;
    }
    int conservative = 0;
    uint64_t *ux = NULL;
    size_t exact = uniq_sorted(x, n, &ux);
    free(ux);
    if (s.uniqueCount != model && s.uniqueCount != exact) {
        if (s.uniqueCount == n && c->k) {
            conservative = 1;
        } else {
            bad(c, "value", "stats.uniqueCount=%zu, expected %zu", s.uniqueCount,
                model);
            return;
        }
    }
    if (s.uniqueRatio != (float)s.uniqueCount / (float)n) {
        bad(c, "value", "stats.uniqueRatio=%g with uniqueCount=%zu count=%zu",
            (double)s.uniqueRatio, s.uniqueCount, n);
        return;
    }
    if (c->k == 0) {
        c->stats0 = s;
        return;
    }
    /* every other field must be what the fault-free analysis computed */
    varintAdaptiveDataStats t = s;
    t.uniqueCount = c->stats0.uniqueCount;
    t.uniqueRatio = c->stats0.uniqueRatio;
    if (t.avgDelta != c->stats0.avgDelta || t.maxDelta != c->stats0.maxDelta ||
        t.outlierCount != c->stats0.outlierCount ||
        t.outlierRatio != c->stats0.outlierRatio ||
        t.isSorted != c->stats0.isSorted ||
        t.isReverseSorted != c->stats0.isReverseSorted) {
        bad(c, "value", "analysis fields differ from the fault-free analysis "
                        "(avgDelta %llu vs %llu, outliers %zu vs %zu)",
            (unsigned long long)t.avgDelta,
            (unsigned long long)c->stats0.avgDelta, t.outlierCount,
            c->stats0.outlierCount);
        return;
    }
    if (conservative) {
        c->reported = 1;
    }
}

static int adaptive_decode_check(ctx *c, const uint8_t *src, size_t len,
                                 unsigned type, const char *what,
                                 const char *where) {
    const uint64_t *x = c->a.v;
    size_t n = c->a.n, at;
    uint64_t *dec = (uint64_t *)xmalloc(n * sizeof(uint64_t));
    memset(dec, 0xA5, n * sizeof(uint64_t));
    int r = 0;
    size_t cnt = varintAdaptiveDecode(src, dec, n, NULL);
    if (cnt != n) {
        r = bad(c, "value",
                "%s returned %zu (success, %s) but the output (%s) decodes to "
                "%zu values, input has %zu", what, len, c18_tname[type], where,
                cnt, n);
    } else if (first_diff_u64(dec, x, n, &at)) {
        r = bad(c, "value",
                "%s returned %zu (success, %s) but the output (%s) decodes "
                "[%zu]=%llu, input %llu", what, len, c18_tname[type], where, at,
                (unsigned long long)dec[at], (unsigned long long)x[at]);
    }
    free(dec);
    return r;
}

/* out[0..len) claims to be an adaptive encoding of the input.  The first byte
 * names the encoding (that much C06 fixes); the payload behind it is opaque to
 * the harness - whatever PFOR / dictionary / bitmap / ... layout it uses, it is
 * judged by varintAdaptiveDecode giving the input back, from a zero padded
 * block and from an exact-size block (see pfor_roundtrip). */
static int adaptive_roundtrip(ctx *c, const uint8_t *out, size_t len, size_t cap,
                              int want_type, const char *what) {
    size_t n = c->a.n;
    if (len > cap) {
        return bad(c, "length", "%s returned %zu > buffer %zu", what, len, cap);
    }
    unsigned type = out[0];
    if (type > 5 || (want_type >= 0 && type != (unsigned)want_type)) {
        return bad(c, "value", "%s wrote encoding type %u", what, type);
    }
    uint8_t *cp = padded_copy(out, len, 64 + 18 * n);
    int r = adaptive_decode_check(c, cp, len, type, what, "zero padded copy");
    free(cp);
    if (!r) {
        uint8_t *ex = exact_copy(out, len);
        r = adaptive_decode_check(c, ex, len, type, what, "exact-size copy");
        vf_exact_free(ex);
    }
    return r;
}

static void f_adaptive_encode(ctx *c) {
    size_t n = c->a.n, cap = codec_cap(n);
    uint8_t *buf = (uint8_t *)xmalloc(cap);
    memset(buf, 0xA5, cap);
    varintAdaptiveMeta m;
    memset(&m, 0xA5, sizeof(m));
    call_begin(c);
    size_t len = varintAdaptiveEncode(buf, c->a.v, n, (c->st & 1) ? &m : NULL);
    call_end(c);
    if (len == 0) {
        reported_failure(c, "0");
    } else {
        if (c->k == 0 && buf[0] <= 5) {
            char b[64];
            snprintf(b, sizeof(b), "adaptive.encode.selects.%s", c18_tname[buf[0]]);
            vf_class(b);
        }
        if (len > varintAdaptiveMaxSize(n)) {
            /* success with more bytes than the advertised bound: a caller who
             * allocated varintAdaptiveMaxSize(n) has been overflowed */
            bad(c, "bound",
                "varintAdaptiveEncode returned %zu bytes for %zu values, "
                "varintAdaptiveMaxSize promises at most %zu",
                len, n, varintAdaptiveMaxSize(n));
        } else {
            adaptive_roundtrip(c, buf, len, cap, -1, "varintAdaptiveEncode");
        }
    }
    free(buf);
}

static void f_adaptive_encode_with(ctx *c) {
    size_t n = c->a.n, cap = codec_cap(n);
    uint8_t *buf = (uint8_t *)xmalloc(cap);
    memset(buf, 0xA5, cap);
    varintAdaptiveMeta m;
    memset(&m, 0xA5, sizeof(m));
    call_begin(c);
    size_t len = varintAdaptiveEncodeWith(buf, c->a.v, n,
                                          (varintAdaptiveEncodingType)c->ftype,
                                          (c->p2 & 1) ? &m : NULL);
    call_end(c);
    if (len == 0) {
        reported_failure(c, "0");
    } else {
        adaptive_roundtrip(c, buf, len, cap, c->ftype, "varintAdaptiveEncodeWith");
    }
    free(buf);
}

static void f_adaptive_decode(ctx *c) {
    size_t n = c->a.n, at;
    if (!c->enc) {
        size_t cap = codec_cap(n);
        uint8_t *buf = (uint8_t *)xmalloc(cap);
        memset(buf, 0xA5, cap);
        paint_stack();
        size_t len = varintAdaptiveEncodeWith(
            buf, c->a.v, n, (varintAdaptiveEncodingType)c->ftype, NULL);
        if (len == 0) {
            bad(c, "failure", "fault-free varintAdaptiveEncodeWith returned 0");
            free(buf);
            return;
        }
        if (adaptive_roundtrip(c, buf, len, cap, c->ftype,
                               "varintAdaptiveEncodeWith")) {
            free(buf);
            return;
        }
        c->enc = padded_copy(buf, len, 64 + 18 * n);
        c->enclen = len;
        free(buf);
    }
    uint64_t *dec = (uint64_t *)xmalloc(n * sizeof(uint64_t));
    memset(dec, 0xA5, n * sizeof(uint64_t));
    varintAdaptiveMeta m;
    memset(&m, 0xA5, sizeof(m));
    call_begin(c);
    size_t cnt = varintAdaptiveDecode(c->enc, dec, n, (c->p2 & 1) ? &m : NULL);
    call_end(c);
    if (cnt == 0) {
        reported_failure(c, "0");
    } else if (cnt != n) {
        bad(c, "value", "varintAdaptiveDecode returned %zu values, expected %zu",
            cnt, n);
    } else if (first_diff_u64(dec, c->a.v, n, &at)) {
        bad(c, "value", "varintAdaptiveDecode [%zu]=%llu, expected %llu", at,
            (unsigned long long)dec[at], (unsigned long long)c->a.v[at]);
    }
    free(dec);
}

#endif
