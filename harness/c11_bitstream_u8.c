/* C11 instantiation: 8-bit words and values, configured as in
 * docs/modules/varintBitstream.md ("Type Configuration") */
#include <stdint.h>
#define VBITS uint8_t
#define VBITSVAL uint8_t
#define C11_TAG u8
#define C11_BITS 8
#define C11_SIGNED int8_t
#include "c11_bitstream_inst.h"
