/* c18_common.h - context, call bracket, verdict helpers for the C18 harness
 * (included only by c18_oom.c). */
#ifndef C18_COMMON_H
#define C18_COMMON_H

#define VF_ALLOC_NO_RENAME 1
#include "vf_alloc.h"

#include "vf.h"
#include "vf_arr.h"
#include "vf_ref.h"

#include <math.h>
#include <stdarg.h>

#include "varintAdaptive.h"
#include "varintFloat.h"

#define C18_MAXK 64 /* enumerate at most this many allocations per call */
#define C18_KNOWN_VOID "C18-bitmap-void-mutators"

typedef struct ctx {
    vf_report *rep;
    /* decoded case */
    unsigned api;
    uint8_t st, p2, p3, szb;
    uint16_t p1;
    vf_arr a;
    /* naming */
    const char *name;  /* api name, e.g. "bitmap.or" */
    const char *topfn; /* library entry point, e.g. "varintBitmapOr" */
    char site[64];     /* report site: api name (+ encoding type) */
    /* enumeration state */
    int k;            /* 0 = fault-free counting run */
    uint64_t n;       /* allocations of the fault-free call */
    uint64_t cnt;     /* allocations of this run */
    char failed[48];  /* site of the injected failure in this run, or "" */
    char sites[C18_MAXK + 1][48];
    int reported; /* this run returned the documented failure indication */
    int excluded; /* this run matched the known finding */
    int skip;     /* fault-free run unusable (not a C18 matter) */
    /* baseline artefacts owned by the harness (plain malloc) */
    uint8_t *enc;
    size_t enclen;
    double *fin;   /* float input */
    double *fbase; /* fault-free decoded doubles */
    int ftype;     /* adaptive encoding type or float precision */
    varintAdaptiveDataStats stats0;
    varintPFORMeta pm0; /* fault-free PFOR analysis */
    unsigned pw0;
    varintDictStats ds0; /* fault-free dictionary statistics */
} ctx;

static void *xmalloc(size_t n) {
    void *p = malloc(n ? n : 1);
    if (!p) {
        abort();
    }
    return p;
}
static void *xcalloc(size_t n) {
    void *p = calloc(n ? n : 1, 1);
    if (!p) {
        abort();
    }
    return p;
}

/* deterministic stack residue below the current frame: keeps the (separately
 * tracked, C15) uninitialised-forMeta defect from depending on what ran
 * before */
static __attribute__((noinline)) void paint_stack(void) {
    volatile uint8_t pad[4096];
    memset((void *)pad, 0xA5, sizeof(pad));
    __asm__ volatile("" ::"r"(pad) : "memory");
}

static void call_begin(ctx *c) {
    paint_stack();
    vf_alloc_reset();
    if (c->k) {
        vf_alloc_fail_at((uint64_t)c->k);
    }
}

static void call_end(ctx *c) {
    const char *f = vf_alloc_failed_site(); /* cleared by fail_at(0) */
    snprintf(c->failed, sizeof(c->failed), "%s", f ? f : "");
    c->cnt = vf_alloc_count();
    if (c->k == 0) {
        c->n = c->cnt;
        for (uint64_t i = 1; i <= c->n && i <= C18_MAXK; i++) {
            snprintf(c->sites[i], sizeof(c->sites[i]), "%s", vf_alloc_site(i));
        }
    }
    vf_alloc_fail_at(0);
}

/* an oracle did not hold.  In the fault-free run that is some other
 * property's business (C02/C06/C07/C08): the case is skipped and counted.  In
 * a faulted run it is a C18 violation. */
static int bad(ctx *c, const char *kind, const char *fmt, ...)
    __attribute__((format(printf, 3, 4)));
static int bad(ctx *c, const char *kind, const char *fmt, ...) {
    char msg[320];
    va_list ap;
    va_start(ap, fmt);
    vsnprintf(msg, sizeof(msg), fmt, ap);
    va_end(ap);
    if (c->k == 0) {
        char b[96];
        c->skip = 1;
        snprintf(b, sizeof(b), "baseline-unusable.%s", c->name);
        vf_class(b);
        vf_desc(c->rep, " [fault-free run unusable: %s]", msg);
        if (getenv("VF_C18_VERBOSE")) {
            fprintf(stderr, "C18 baseline-unusable: %s\n", c->rep->desc);
        }
        return 1;
    }
    vf_fail(c->rep, c->site, kind,
            "%s: allocation %d of %llu failed (at %s): %s", c->site, c->k,
            (unsigned long long)c->n, c->failed[0] ? c->failed : "<not reached>",
            msg);
    return 1;
}

/* the call returned its documented failure indication */
static int reported_failure(ctx *c, const char *what) {
    if (c->k == 0) {
        return bad(c, "failure", "fault-free call returned %s", what);
    }
    c->reported = 1;
    return 0;
}

static int cmp_u64(const void *a, const void *b) {
    uint64_t x = *(const uint64_t *)a, y = *(const uint64_t *)b;
    return x < y ? -1 : x > y;
}

/* sorted distinct values of v[0..n) */
static size_t uniq_sorted(const uint64_t *v, size_t n, uint64_t **out) {
    uint64_t *s = (uint64_t *)xmalloc(n * sizeof(uint64_t));
    memcpy(s, v, n * sizeof(uint64_t));
    qsort(s, n, sizeof(uint64_t), cmp_u64);
    size_t m = 0;
    for (size_t i = 0; i < n; i++) {
        if (i == 0 || s[i] != s[i - 1]) {
            s[m++] = s[i];
        }
    }
    *out = s;
    return m;
}

/* zero padded exact-length copy of a "successful" output: a decoder that runs
 * past the reported length meets zeros, not the poison and not the heap */
static uint8_t *padded_copy(const uint8_t *p, size_t len, size_t pad) {
    uint8_t *c = (uint8_t *)xcalloc(len + pad);
    memcpy(c, p, len);
    return c;
}

/* exact-size copy (vf_exact_alloc: an ASan redzone directly behind the last
 * byte), i.e. the block a caller keeps who stores exactly the length an
 * encoder reported; release with vf_exact_free */
static uint8_t *exact_copy(const uint8_t *p, size_t len) {
    uint8_t *c = (uint8_t *)vf_exact_alloc(len);
    if (len) {
        memcpy(c, p, len);
    }
    return c;
}

static int first_diff_u64(const uint64_t *a, const uint64_t *b, size_t n,
                          size_t *at) {
    for (size_t i = 0; i < n; i++) {
        if (a[i] != b[i]) {
            *at = i;
            return 1;
        }
    }
    return 0;
}

#endif
