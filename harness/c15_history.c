/* C15 - results depend only on the arguments (no hidden state, no stale
 * memory).
 *
 * case layout:  target:1 paintA:sel(+payload) paintB:sel(+payload) heapfill:1
 *               hist_len:1  then hist_len x { api:1 mode:1 then either
 *               p1:1 p2:1 small-array-descriptor   (ordinary step: own array /
 *               the target's array / an array of the target's length, always
 *               in the step's OWN buffers) or, for one step in three when the
 *               target takes an input pointer,
 *               p1:1 p2:1 sel:1 then 1..4 x { op:1 i:2 j:2 x:1 [d:u64] }
 *               (in-place step: the target's codec or another codec of the
 *               same input type called on the TARGET's buffers after generated
 *               edits of their contents, see "in-place edit histories") }
 *               then the target's own arguments
 *               { p1:1 p2:1 size_class:1 array-descriptor | scalar values }.
 *
 * oracle (1), metamorphic: the target call T (an encoder together with its
 * decoder / accessors, every library call made with the same arguments) is
 * executed
 *   (a) first, on a zero-painted stack and zero heap residue,
 *   (b) after the history H, with stack paint word A and heap fill byte F,
 *   (c) after H' (H reversed / rotated / a prefix), paint word B, fill ~F,
 * and everything a caller can legitimately observe (returned lengths, bytes up
 * to the returned length, decoded values up to the returned count, documented
 * metadata fields) must be identical in the three executions; none may crash.
 * Output buffers and output-only metadata structs are pre-filled with the paint
 * pattern of the execution, so a field or byte that the library "reports"
 * without writing it shows up as a difference.
 *
 * Input arrays, their narrowed / converted forms (uint32_t, double, uint16_t)
 * and the encoded form live in buffers that keep their address for the whole
 * case, so in every execution the library sees the same pointers; the in-place
 * steps of H present those pointers with other contents (count, count-1 or
 * count+1 elements) and restore the original contents exactly before the
 * compared call.
 *
 * oracle (1b), in-place steps only: the first in-place call of execution (b)
 * and the last one of execution (c) are observed like a target call and then
 * repeated on fresh copies of byte-identical arguments; both results must
 * agree ("repeating a call ... in a fresh process gives identical results": a
 * result cannot depend on where the caller keeps the array).  This reaches a
 * stale entry left by execution (a) itself, which the compared call can never
 * see because it presents exactly the contents (a) cached.
 *
 * oracle (2): the same cases are replayed in the `msan` configuration; any
 * MemorySanitizer report kills the process and is a violation.  The harness
 * initialises everything it reads and never looks at struct padding, at bytes
 * past a returned length or at fields the API does not document as outputs.
 *
 * The "fresh process" execution (d) of the DESIGN entry is not separate: (a)
 * runs on a zeroed stack window and every candidate is re-run three times in
 * fresh processes by the framework before it is reported. */
#define VF_ALLOC_NO_RENAME 1
#include "vf.h"
#include "vf_alloc.h"
#include "vf_arr.h"

#include "varint.h"
#include "varintAdaptive.h"
#include "varintBP128.h"
#include "varintBitmap.h"
#include "varintChained.h"
#include "varintChainedSimple.h"
#include "varintDelta.h"
#include "varintDict.h"
#include "varintElias.h"
#include "varintExternal.h"
#include "varintExternalBigEndian.h"
#include "varintFOR.h"
#include "varintFloat.h"
#include "varintGroup.h"
#include "varintPFOR.h"
#include "varintRLE.h"
#include "varintSplit.h"
#include "varintSplitFull.h"
#include "varintSplitFull16.h"
#include "varintSplitFullNoZero.h"
#include "varintTagged.h"

const char *vf_prop_id = "C15";
const size_t vf_case_maxlen = 320;

/* ------------------------------------------------------------ stack paint */
#define PAINT_WORDS 8192 /* 64 KiB below the caller's frame */

__attribute__((noinline)) static void paint_stack(uint64_t w) {
    volatile uint64_t a[PAINT_WORDS];
    for (size_t i = 0; i < PAINT_WORDS; i++) {
        a[i] = w;
    }
    __asm__ volatile("" ::: "memory");
}

/* heap residue for the plain-malloc configurations: blocks of the sizes the
 * library is about to request are filled and released, so the allocator hands
 * them back with this content (the `oom` configuration additionally fills
 * every fresh library allocation through the interposer) */
static void heap_residue(uint8_t byte, size_t n) {
    static const size_t fixed[] = {16,   24,   32,   48,   64,   96,  128,
                                   192,  256,  384,  512,  768,  1024, 1536,
                                   2048, 4096, 8192, 16384, 32768};
    enum { NF = sizeof(fixed) / sizeof(fixed[0]), REP = 3, MAXB = (NF + 5) * REP };
    void *blk[MAXB];
    size_t k = 0;
    size_t dyn[5] = {n * 8, n * 2, n * 16, n * 4, n * 8 + 8};
    for (unsigned rep = 0; rep < REP; rep++) {
        for (size_t i = 0; i < NF; i++) {
            void *p = malloc(fixed[i]);
            if (p) {
                memset(p, byte, fixed[i]);
                blk[k++] = p;
            }
        }
        for (size_t i = 0; i < 5; i++) {
            if (dyn[i] == 0 || dyn[i] > (1u << 20)) {
                continue;
            }
            void *p = malloc(dyn[i]);
            if (p) {
                memset(p, byte, dyn[i]);
                blk[k++] = p;
            }
        }
    }
    while (k > 0) {
        free(blk[--k]);
    }
}

/* ------------------------------------------------------------ observations */
#define MAXOBS 96
typedef struct obs_item {
    const char *name;
    uint64_t v;    /* scalar value, or byte count */
    uint8_t *copy; /* bytes (NULL for scalars) */
    uint8_t unw;   /* scalar of a not-documented output field that still holds
                      its pre-fill: the library did not write it (ob_u_opt) */
} obs_item;

typedef struct obs {
    obs_item it[MAXOBS];
    unsigned k;
    unsigned dropped;
    int light; /* scalars only (byte observations keep their length): used to
                  probe unobserved in-place history calls */
} obs;

static void ob_u(obs *o, const char *name, uint64_t v) {
    if (!o) {
        return;
    }
    if (o->k >= MAXOBS) {
        o->dropped++;
        return;
    }
    o->it[o->k].name = name;
    o->it[o->k].v = v;
    o->it[o->k].copy = NULL;
    o->it[o->k].unw = 0;
    o->k++;
}

/* A field the API does not document as an output (what a DECODER leaves in
 * the caller's PFOR metadata).  If the library writes it, the value must be a
 * function of the arguments like any other result; if it leaves the field
 * alone in both executions that is fine too.  Such objects are pre-filled
 * with DECPAT(x), a pattern different from the stack paint word, so "left
 * alone" cannot be confused with "copied from stale stack memory". */
static void ob_u_opt(obs *o, const char *name, uint64_t v, int unwritten) {
    if (!o) {
        return;
    }
    unsigned k = o->k;
    ob_u(o, name, v);
    if (o->k > k) {
        o->it[k].unw = unwritten ? 1 : 0;
    }
}

static int still_prefilled(const void *obj, size_t off, size_t len,
                           uint64_t word) {
    uint8_t w[8];
    memcpy(w, &word, 8);
    const uint8_t *b = (const uint8_t *)obj;
    for (size_t i = 0; i < len; i++) {
        if (b[off + i] != w[(off + i) & 7]) {
            return 0;
        }
    }
    return 1;
}

static void ob_b(obs *o, const char *name, const void *p, size_t n) {
    if (!o) {
        return;
    }
    if (o->k >= MAXOBS) {
        o->dropped++;
        return;
    }
    if (o->light) {
        ob_u(o, name, n);
        return;
    }
    uint8_t *c = (uint8_t *)malloc(n ? n : 1);
    if (!c) {
        abort();
    }
    if (n) {
        memcpy(c, p, n);
    }
    o->it[o->k].name = name;
    o->it[o->k].v = n;
    o->it[o->k].copy = c;
    o->it[o->k].unw = 0;
    o->k++;
}

static void obs_free(obs *o) {
    for (unsigned i = 0; i < o->k; i++) {
        free(o->it[i].copy);
    }
    o->k = 0;
}

static void ob_float(obs *o, const char *name, float f) {
    uint32_t u;
    memcpy(&u, &f, sizeof(u));
    ob_u(o, name, u);
}

static void ob_double(obs *o, const char *name, double d) {
    uint64_t u;
    memcpy(&u, &d, sizeof(u));
    ob_u(o, name, u);
}

/* ------------------------------------------------------- execution context */
typedef struct ex {
    obs *o;        /* NULL: history step, nothing recorded */
    int paint;     /* paint the stack before every library call */
    uint64_t word; /* paint word; also the pre-fill pattern of outputs */
} ex;

#define PAINT(x)                                                               \
    do {                                                                       \
        if ((x)->paint) {                                                      \
            paint_stack((x)->word);                                            \
        }                                                                      \
    } while (0)

static void fill_pat(void *p, size_t n, uint64_t word) {
    uint8_t *b = (uint8_t *)p;
    uint8_t w[8];
    memcpy(w, &word, 8);
    size_t i = 0;
    for (; i + 8 <= n; i += 8) {
        memcpy(b + i, w, 8);
    }
    for (; i < n; i++) {
        b[i] = w[i & 7];
    }
}

static uint8_t *mkbuf(const ex *x, size_t cap) {
    uint8_t *b = (uint8_t *)malloc(cap ? cap : 1);
    if (!b) {
        abort();
    }
    fill_pat(b, cap, x->word);
    return b;
}

static uint64_t *mkvals(const ex *x, size_t n) {
    return (uint64_t *)mkbuf(x, (n ? n : 1) * sizeof(uint64_t));
}

#define PREFILL(x, obj) fill_pat(&(obj), sizeof(obj), (x)->word)
/* pre-fill of objects with fields that are not documented outputs (ob_u_opt) */
#define DECPAT(x) ((x)->word ^ 0xD6E8FEB86659FD93ULL)
#define PREFILL_DEC(x, obj) fill_pat(&(obj), sizeof(obj), DECPAT(x))
#define OB_OPT(x, name, obj, T, field)                                         \
    ob_u_opt((x)->o, name, (uint64_t)(obj).field,                              \
             still_prefilled(&(obj), offsetof(T, field), sizeof((obj).field),  \
                             DECPAT(x)))

/* ------------------------------------------------------------------ target */
enum kind {
    K_FOR = 0,
    K_ADAPT_AUTO,
    K_PFOR,
    K_ADAPT_FORCED,
    K_BP128_D64,
    K_DELTA_U,
    K_DELTA_S,
    K_GROUP,
    K_DICT,
    K_DICT_PREBUILT,
    K_RLE,
    K_RLE_HDR,
    K_ELIAS_G,
    K_ELIAS_D,
    K_BP128_32,
    K_BP128_D32,
    K_BP128_64,
    K_FLOAT,
    K_FLOAT_AUTO,
    K_ADAPT_ANALYZE,
    K_BITMAP,
    K_SC_TAGGED,
    K_SC_EXTERNAL,
    K_SC_CHAINED,
    K_SC_SPLIT,
    K_COUNT
};

static const char *const kind_name[K_COUNT] = {
    "for",        "adaptive.auto", "pfor",       "adaptive.forced",
    "bp128.delta64", "delta.unsigned", "delta.signed", "group",
    "dict",       "dict.prebuilt", "rle",        "rle.header",
    "elias.gamma", "elias.delta",  "bp128.32",   "bp128.delta32",
    "bp128.64",   "float",         "float.auto", "adaptive.analyze",
    "bitmap",     "scalar.tagged", "scalar.external", "scalar.chained",
    "scalar.split"};

/* does the target allocate or take a metadata in/out parameter (non-trivial
 * rule of the DESIGN entry) */
static int kind_has_state(unsigned k) {
    switch (k) {
    case K_DELTA_U:
    case K_DELTA_S:
    case K_GROUP:
    case K_SC_TAGGED:
    case K_SC_EXTERNAL:
    case K_SC_CHAINED:
    case K_SC_SPLIT:
        return 0;
    default:
        return 1;
    }
}

static int kind_is_scalar(unsigned k) {
    return k >= K_SC_TAGGED;
}

static unsigned kind_flags(unsigned k) {
    switch (k) {
    case K_ELIAS_G:
    case K_ELIAS_D:
        return VF_ARR_GE1;
    case K_BP128_32:
        return VF_ARR_U32;
    case K_BP128_D32:
        return VF_ARR_U32 | VF_ARR_SORTED;
    case K_BP128_D64:
        return VF_ARR_SORTED;
    case K_DELTA_S:
        return VF_ARR_SDELTA;
    default:
        return 0;
    }
}

/* largest array worth running for a kind (cost) */
static size_t kind_maxlen(unsigned k, unsigned size_class, int history) {
    size_t cap;
    switch (size_class & 15) {
    case 13:
    case 12:
    case 11:
    case 10:
        cap = 4200;
        break;
    case 14:
        cap = 10002;
        break;
    case 15:
        cap = vf_tier() ? 70000 : 20002;
        break;
    default:
        cap = 300;
        break;
    }
    if (history && cap > 300) {
        cap = 300;
    }
    switch (k) {
    case K_GROUP:
        return 64;
    case K_ADAPT_AUTO:
    case K_ADAPT_FORCED:
    case K_ADAPT_ANALYZE:
        /* exact unique counting is quadratic up to 10000 elements */
        if (cap > 2300 && cap <= 10002 && (size_class & 15) != 14) {
            cap = 2300;
        }
        return cap;
    case K_ELIAS_G:
    case K_ELIAS_D:
        return cap > 10002 ? 10002 : cap;
    default:
        return cap;
    }
}

typedef struct tgt {
    unsigned kind;
    unsigned p1, p2;
    unsigned size_class;
    uint64_t *v; /* integer array, conforming to kind_flags(kind); after
                    tgt_prepare() it has n + 1 slots (slot n: the element an
                    "extended view" of the same pointer sees) */
    size_t n;
    /* buffers that keep their ADDRESS for the whole case (all executions and
     * all in-place history steps): the encoded form (the decoders' input) and
     * the narrowed / converted input of the 32-bit, double and 16-bit codecs.
     * A cache keyed on an input pointer can only go stale when the same
     * address is presented again with other contents. */
    uint8_t *enc;
    size_t enc_cap;
    void *aux;
    uint64_t sv[4]; /* scalar values */
    unsigned nsv;
    char desc[320];
} tgt;

static int cmp_u64(const void *a, const void *b) {
    uint64_t x = *(const uint64_t *)a, y = *(const uint64_t *)b;
    return x < y ? -1 : x > y;
}

/* apply the domain modifiers of vf_take_array to a borrowed array */
static void conform(uint64_t *v, size_t n, unsigned flags) {
    if (flags & VF_ARR_SDELTA) {
        for (size_t i = 0; i < n; i++) {
            int64_t s = (int64_t)v[i];
            if (s > (int64_t)(1ULL << 62) || s < -(int64_t)(1ULL << 62)) {
                v[i] = (uint64_t)(s >> 2);
            }
        }
    }
    if (flags & VF_ARR_U32) {
        for (size_t i = 0; i < n; i++) {
            v[i] &= 0xffffffffULL;
        }
    }
    if (flags & VF_ARR_GE1) {
        for (size_t i = 0; i < n; i++) {
            if (v[i] == 0) {
                v[i] = 1;
            }
        }
    }
    if (flags & VF_ARR_SORTED) {
        qsort(v, n, sizeof(*v), cmp_u64);
    }
}

static void tgt_free(tgt *t) {
    free(t->v);
    free(t->enc);
    free(t->aux);
    t->v = NULL;
    t->enc = NULL;
    t->aux = NULL;
}

#define BITMAP_CAP (9 + 4 * 32768 + 8192 + 64)

/* once the final element count of a target is known: the extra slot and the
 * address-stable buffers */
static void tgt_prepare(tgt *t) {
    if (t->kind >= K_SC_TAGGED) {
        return;
    }
    const size_t n = t->n;
    uint64_t *nv = (uint64_t *)realloc(t->v, (n + 1) * sizeof(uint64_t));
    if (!nv) {
        abort();
    }
    t->v = nv;
    nv[n] = nv[(n - 1) / 2] + 1;
    t->enc_cap = t->kind == K_BITMAP ? BITMAP_CAP : (n + 1) * 27 + 8300;
    t->enc = (uint8_t *)malloc(t->enc_cap);
    t->aux = malloc((n + 2) * sizeof(uint64_t));
    if (!t->enc || !t->aux) {
        abort();
    }
    memset(t->aux, 0, (n + 2) * sizeof(uint64_t));
}

/* the target's encoded-form buffer, pre-filled with the paint pattern of the
 * execution over the part this codec may use */
static uint8_t *encbuf(const ex *x, const tgt *t, size_t cap) {
    if (cap > t->enc_cap) {
        fprintf(stderr, "c15: encoded-form buffer too small (%zu > %zu)\n", cap,
                t->enc_cap);
        abort();
    }
    fill_pat(t->enc, cap, x->word);
    return t->enc;
}

/* kind from a selector byte: the metadata-taking codecs get extra weight */
static unsigned kind_from_byte(uint8_t b) {
    static const uint8_t extra[] = {K_ADAPT_AUTO, K_ADAPT_AUTO, K_ADAPT_FORCED,
                                    K_FOR,        K_PFOR,       K_BP128_D64,
                                    K_BP128_32,   K_ADAPT_AUTO, K_FLOAT,
                                    K_DICT,       K_RLE};
    unsigned m = b % (K_COUNT + sizeof(extra));
    return m < K_COUNT ? m : extra[m - K_COUNT];
}

static void parse_args(vf_rd *r, tgt *t, unsigned kind, int history) {
    memset(t, 0, sizeof(*t));
    t->kind = kind;
    t->p1 = vf_u8(r);
    t->p2 = vf_u8(r);
    if (kind_is_scalar(kind)) {
        t->nsv = 1 + (t->p2 & 3);
        for (unsigned i = 0; i < t->nsv; i++) {
            t->sv[i] = vf_u64(r);
        }
        snprintf(t->desc, sizeof(t->desc), "%s p1=%u v0=%llu (x%u)",
                 kind_name[kind], t->p1, (unsigned long long)t->sv[0], t->nsv);
        return;
    }
    t->size_class = history ? 0 : vf_u8(r);
    vf_arr a;
    vf_take_array(r, &a, kind_maxlen(kind, t->size_class, history),
                  kind_flags(kind));
    t->v = a.v;
    t->n = a.n;
    snprintf(t->desc, sizeof(t->desc), "%s p1=%u p2=%u %.150s", kind_name[kind],
             t->p1, t->p2, a.desc);
}

/* ------------------------------------------------------------ target bodies */
#define OBS_FORMETA(x, pfx, m)                                                 \
    do {                                                                       \
        ob_u((x)->o, pfx ".minValue", (m).minValue);                           \
        ob_u((x)->o, pfx ".maxValue", (m).maxValue);                           \
        ob_u((x)->o, pfx ".range", (m).range);                                 \
        ob_u((x)->o, pfx ".count", (m).count);                                 \
        ob_u((x)->o, pfx ".encodedSize", (m).encodedSize);                     \
        ob_u((x)->o, pfx ".offsetWidth", (uint64_t)(m).offsetWidth);           \
    } while (0)

/* fields of varintPFORMeta that every producer documents; thresholdValue is
 * only known to the encoder */
#define OBS_PFORMETA(x, pfx, m, with_threshold_value)                          \
    do {                                                                       \
        ob_u((x)->o, pfx ".min", (m).min);                                     \
        ob_u((x)->o, pfx ".exceptionMarker", (m).exceptionMarker);             \
        ob_u((x)->o, pfx ".width", (uint64_t)(m).width);                       \
        ob_u((x)->o, pfx ".count", (m).count);                                 \
        ob_u((x)->o, pfx ".exceptionCount", (m).exceptionCount);               \
        ob_u((x)->o, pfx ".threshold", (m).threshold);                         \
        if (with_threshold_value) {                                            \
            ob_u((x)->o, pfx ".thresholdValue", (m).thresholdValue);           \
        }                                                                      \
    } while (0)

/* the same fields where they are not documented outputs: a decoder's view of
 * the caller's PFOR metadata.  `obj` was pre-filled with PREFILL_DEC and
 * `base`/`T` say where the varintPFORMeta lies inside it. */
#define OBS_PFORMETA_DEC(x, pfx, obj, T, path)                                 \
    do {                                                                       \
        OB_OPT(x, pfx ".min", obj, T, path min);                               \
        OB_OPT(x, pfx ".exceptionMarker", obj, T, path exceptionMarker);       \
        OB_OPT(x, pfx ".width", obj, T, path width);                           \
        OB_OPT(x, pfx ".count", obj, T, path count);                           \
        OB_OPT(x, pfx ".exceptionCount", obj, T, path exceptionCount);         \
        OB_OPT(x, pfx ".threshold", obj, T, path threshold);                   \
    } while (0)

static void t_for(ex *x, const tgt *t) {
    const size_t n = t->n;
    const int batch = (t->p1 >> 1) & 1;
    uint8_t *dst = encbuf(x, t, n * 8 + 64);
    varintFORMeta m;
    PREFILL(x, m);
    if (t->p1 & 1) {
        /* documented two-step use: analyse, then encode with the same count */
        PAINT(x);
        if (batch) {
            varintFORBatchAnalyze(t->v, n, &m);
        } else {
            varintFORAnalyze(t->v, n, &m);
        }
        OBS_FORMETA(x, "for.analyze", m);
        ob_u(x->o, "for.size", varintFORSize(&m));
    } else {
        /* one-step use: metadata that does not describe this array */
        m.count = 0;
    }
    PAINT(x);
    size_t len = batch ? varintFORBatchEncode(dst, t->v, n, &m)
                       : varintFOREncode(dst, t->v, n, &m);
    ob_u(x->o, "for.enc.len", len);
    ob_b(x->o, "for.enc.bytes", dst, len);
    OBS_FORMETA(x, "for.enc.meta", m);

    uint64_t *out = mkvals(x, n);
    PAINT(x);
    size_t c = batch ? varintFORBatchDecode(dst, out, n)
                     : varintFORDecode(dst, out, n);
    ob_u(x->o, "for.dec.count", c);
    ob_b(x->o, "for.dec.values", out, (c < n ? c : n) * sizeof(uint64_t));

    size_t idx = t->p2 % n;
    PAINT(x);
    ob_u(x->o, "for.getat", varintFORGetAt(dst, idx));
    varintFORMeta rm;
    PREFILL(x, rm);
    PAINT(x);
    varintFORReadMetadata(dst, &rm);
    OBS_FORMETA(x, "for.readmeta", rm);
    PAINT(x);
    ob_u(x->o, "for.getcount", varintFORGetCount(dst));
    ob_u(x->o, "for.getmin", varintFORGetMinValue(dst));
    ob_u(x->o, "for.getwidth", (uint64_t)varintFORGetOffsetWidth(dst));
    size_t bl = 1 + (t->p2 >> 3);
    fill_pat(out, n * sizeof(uint64_t), x->word);
    PAINT(x);
    size_t bc = varintFORDecodeBlock(dst, out, idx, bl);
    ob_u(x->o, "for.block.count", bc);
    ob_b(x->o, "for.block.values", out, (bc < n ? bc : n) * sizeof(uint64_t));
    free(out);
}

static void t_pfor(ex *x, const tgt *t) {
    static const uint32_t thr[3] = {VARINT_PFOR_THRESHOLD_95,
                                    VARINT_PFOR_THRESHOLD_90,
                                    VARINT_PFOR_THRESHOLD_99};
    const size_t n = t->n;
    uint8_t *dst = encbuf(x, t, n * 27 + 128);
    varintPFORMeta m;
    PREFILL(x, m);
    PAINT(x);
    size_t len = varintPFOREncode(dst, t->v, (uint32_t)n, thr[t->p1 % 3], &m);
    ob_u(x->o, "pfor.enc.len", len);
    if (len == 0) {
        return;
    }
    ob_b(x->o, "pfor.enc.bytes", dst, len);
    OBS_PFORMETA(x, "pfor.enc.meta", m, 1);
    ob_u(x->o, "pfor.size", varintPFORSize(&m));

    /* decode with metadata that asks the decoder to read the header */
    uint64_t *out = mkvals(x, n);
    varintPFORMeta dm;
    PREFILL_DEC(x, dm);
    dm.width = (varintWidth)0;
    PAINT(x);
    size_t c = varintPFORDecode(dst, out, &dm);
    ob_u(x->o, "pfor.dec.count", c);
    ob_b(x->o, "pfor.dec.values", out, (c < n ? c : n) * sizeof(uint64_t));
    OBS_PFORMETA_DEC(x, "pfor.dec.meta", dm, varintPFORMeta, );

    /* decode with the encoder's metadata */
    varintPFORMeta em = m;
    fill_pat(out, n * sizeof(uint64_t), x->word);
    PAINT(x);
    c = varintPFORDecode(dst, out, &em);
    ob_u(x->o, "pfor.dec2.count", c);
    ob_b(x->o, "pfor.dec2.values", out, (c < n ? c : n) * sizeof(uint64_t));

    PAINT(x);
    ob_u(x->o, "pfor.getat", varintPFORGetAt(dst, (uint32_t)(t->p2 % n), &m));
    varintPFORMeta rm;
    PREFILL(x, rm);
    PAINT(x);
    size_t hb = varintPFORReadMeta(dst, &rm);
    ob_u(x->o, "pfor.readmeta.ret", hb);
    OBS_PFORMETA(x, "pfor.readmeta", rm, 0);
    free(out);
}

static void t_delta(ex *x, const tgt *t) {
    const size_t n = t->n;
    uint8_t *dst = encbuf(x, t, n * 9 + 64);
    uint64_t *out = mkvals(x, n);
    size_t len, used;
    if (t->kind == K_DELTA_S) {
        PAINT(x);
        len = varintDeltaEncode(dst, (const int64_t *)t->v, n);
        PAINT(x);
        used = varintDeltaDecode(dst, n, (int64_t *)out);
    } else {
        PAINT(x);
        len = varintDeltaEncodeUnsigned(dst, t->v, n);
        PAINT(x);
        used = varintDeltaDecodeUnsigned(dst, n, out);
    }
    ob_u(x->o, "delta.enc.len", len);
    ob_b(x->o, "delta.enc.bytes", dst, len);
    ob_u(x->o, "delta.dec.used", used);
    ob_b(x->o, "delta.dec.values", out, n * sizeof(uint64_t));
    free(out);
}

static void t_group(ex *x, const tgt *t) {
    const size_t n = t->n > 64 ? 64 : t->n;
    uint8_t *dst = encbuf(x, t, 1 + 16 + 64 * 8 + 64);
    PAINT(x);
    size_t len = varintGroupEncode(dst, t->v, (uint8_t)n);
    ob_u(x->o, "group.enc.len", len);
    ob_b(x->o, "group.enc.bytes", dst, len);
    ob_u(x->o, "group.size", varintGroupSize(t->v, (uint8_t)n));
    uint64_t out[64];
    PREFILL(x, out);
    uint8_t fc = (uint8_t)x->word;
    PAINT(x);
    size_t used = varintGroupDecode(dst, out, &fc, 64);
    ob_u(x->o, "group.dec.used", used);
    if (used) {
        ob_u(x->o, "group.dec.fieldCount", fc);
        ob_b(x->o, "group.dec.values", out, (size_t)fc * sizeof(uint64_t));
    }
    uint64_t fv = x->word;
    PAINT(x);
    size_t fr = varintGroupGetField(dst, (uint8_t)(t->p2 % n), &fv);
    ob_u(x->o, "group.getfield.ret", fr);
    if (fr) {
        ob_u(x->o, "group.getfield.value", fv);
    }
    ob_u(x->o, "group.getsize", varintGroupGetSize(dst));
    ob_u(x->o, "group.getfieldwidth",
         (uint64_t)varintGroupGetFieldWidth(dst, (uint8_t)(t->p2 % n)));
}

static void t_dict(ex *x, const tgt *t) {
    const size_t n = t->n;
    uint8_t *dst = encbuf(x, t, n * 13 + 128);
    size_t len;
    if (t->kind == K_DICT_PREBUILT) {
        PAINT(x);
        varintDict *d = varintDictCreate();
        if (!d) {
            return;
        }
        PAINT(x);
        int rc = varintDictBuild(d, t->v, n);
        ob_u(x->o, "dict.build.rc", (uint64_t)(int64_t)rc);
        if (rc != 0) {
            varintDictFree(d);
            return;
        }
        ob_u(x->o, "dict.size", d->size);
        ob_u(x->o, "dict.indexWidth", (uint64_t)d->indexWidth);
        ob_b(x->o, "dict.values", d->values, (size_t)d->size * sizeof(uint64_t));
        PAINT(x);
        ob_u(x->o, "dict.find",
             (uint64_t)(int64_t)varintDictFind(d, t->v[t->p2 % n]));
        ob_u(x->o, "dict.find.absent",
             (uint64_t)(int64_t)varintDictFind(d, t->v[0] ^ 0x5a5a5a5aULL));
        ob_u(x->o, "dict.lookup", varintDictLookup(d, t->p2 % (d->size + 1)));
        ob_u(x->o, "dict.sizewith", varintDictEncodedSizeWithDict(d, n));
        PAINT(x);
        len = varintDictEncodeWithDict(dst, d, t->v, n);
        varintDictFree(d);
    } else {
        PAINT(x);
        ob_u(x->o, "dict.encodedsize", varintDictEncodedSize(t->v, n));
        PAINT(x);
        len = varintDictEncode(dst, t->v, n);
        varintDictStats st;
        PREFILL(x, st);
        PAINT(x);
        int rc = varintDictGetStats(t->v, n, &st);
        ob_u(x->o, "dict.stats.rc", (uint64_t)(int64_t)rc);
        if (rc == 0) {
            ob_u(x->o, "dict.stats.uniqueCount", st.uniqueCount);
            ob_u(x->o, "dict.stats.totalCount", st.totalCount);
            ob_u(x->o, "dict.stats.dictBytes", st.dictBytes);
            ob_u(x->o, "dict.stats.indexBytes", st.indexBytes);
            ob_u(x->o, "dict.stats.totalBytes", st.totalBytes);
            ob_u(x->o, "dict.stats.originalBytes", st.originalBytes);
            ob_float(x->o, "dict.stats.compressionRatio", st.compressionRatio);
            ob_float(x->o, "dict.stats.spaceReduction", st.spaceReduction);
        }
        PAINT(x);
        ob_float(x->o, "dict.ratio", varintDictCompressionRatio(t->v, n));
    }
    ob_u(x->o, "dict.enc.len", len);
    if (len == 0) {
        return;
    }
    ob_b(x->o, "dict.enc.bytes", dst, len);
    uint64_t *out = mkvals(x, n);
    PAINT(x);
    size_t c = varintDictDecodeInto(dst, len, out, n);
    ob_u(x->o, "dict.decinto.count", c);
    ob_b(x->o, "dict.decinto.values", out, (c < n ? c : n) * sizeof(uint64_t));
    size_t oc = (size_t)x->word;
    PAINT(x);
    uint64_t *alloc = varintDictDecode(dst, len, &oc);
    ob_u(x->o, "dict.dec.nonnull", alloc != NULL);
    if (alloc) {
        ob_u(x->o, "dict.dec.count", oc);
        ob_b(x->o, "dict.dec.values", alloc,
             (oc < n ? oc : n) * sizeof(uint64_t));
        vf_lib_free(alloc);
    }
    free(out);
}

#define OBS_RLEMETA(x, pfx, m)                                                 \
    do {                                                                       \
        ob_u((x)->o, pfx ".count", (m).count);                                 \
        ob_u((x)->o, pfx ".runCount", (m).runCount);                           \
        ob_u((x)->o, pfx ".encodedSize", (m).encodedSize);                     \
        ob_u((x)->o, pfx ".uniqueValues", (m).uniqueValues);                   \
    } while (0)

static void t_rle(ex *x, const tgt *t) {
    const size_t n = t->n;
    const int hdr = t->kind == K_RLE_HDR;
    uint8_t *dst = encbuf(x, t, n * 18 + 64);
    varintRLEMeta m;
    PREFILL(x, m);
    varintRLEMeta am;
    PREFILL(x, am);
    PAINT(x);
    bool ben = varintRLEAnalyze(t->v, n, &am);
    ob_u(x->o, "rle.analyze.ret", ben);
    OBS_RLEMETA(x, "rle.analyze", am);
    ob_u(x->o, "rle.size", varintRLESize(t->v, n));
    PAINT(x);
    size_t len = hdr ? varintRLEEncodeWithHeader(dst, t->v, n,
                                                 (t->p1 & 1) ? NULL : &m)
                     : varintRLEEncode(dst, t->v, n, (t->p1 & 1) ? NULL : &m);
    ob_u(x->o, "rle.enc.len", len);
    ob_b(x->o, "rle.enc.bytes", dst, len);
    if (!(t->p1 & 1)) {
        OBS_RLEMETA(x, "rle.enc.meta", m);
    }
    uint64_t *out = mkvals(x, n);
    PAINT(x);
    size_t c = hdr ? varintRLEDecodeWithHeader(dst, out, n)
                   : varintRLEDecode(dst, out, n);
    ob_u(x->o, "rle.dec.count", c);
    ob_b(x->o, "rle.dec.values", out, (c < n ? c : n) * sizeof(uint64_t));
    PAINT(x);
    if (hdr) {
        ob_u(x->o, "rle.getcount", varintRLEGetCount(dst));
    } else {
        ob_u(x->o, "rle.getat", varintRLEGetAt(dst, t->p2 % n));
        ob_u(x->o, "rle.getruncount", varintRLEGetRunCount(dst, len));
    }
    free(out);
}

static void t_elias(ex *x, const tgt *t) {
    const size_t n = t->n;
    const int delta = t->kind == K_ELIAS_D;
    uint8_t *dst = encbuf(x, t, n * 16 + 64);
    varintEliasMeta m;
    PREFILL(x, m);
    PAINT(x);
    size_t len = delta ? varintEliasDeltaEncodeArray(dst, t->v, n, &m)
                       : varintEliasGammaEncodeArray(dst, t->v, n, &m);
    ob_u(x->o, "elias.enc.len", len);
    ob_b(x->o, "elias.enc.bytes", dst, len);
    ob_u(x->o, "elias.meta.count", m.count);
    ob_u(x->o, "elias.meta.totalBits", m.totalBits);
    ob_u(x->o, "elias.meta.encodedBytes", m.encodedBytes);
    size_t bits = m.totalBits <= len * 8 ? m.totalBits : len * 8;
    uint64_t *out = mkvals(x, n);
    PAINT(x);
    size_t c = delta ? varintEliasDeltaDecodeArray(dst, bits, out, n)
                     : varintEliasGammaDecodeArray(dst, bits, out, n);
    ob_u(x->o, "elias.dec.count", c);
    ob_b(x->o, "elias.dec.values", out, (c < n ? c : n) * sizeof(uint64_t));
    free(out);
}

#define OBS_BPMETA(x, m)                                                       \
    do {                                                                       \
        ob_u((x)->o, "bp128.meta.count", (m).count);                           \
        ob_u((x)->o, "bp128.meta.blockCount", (m).blockCount);                 \
        ob_u((x)->o, "bp128.meta.encodedBytes", (m).encodedBytes);             \
        ob_u((x)->o, "bp128.meta.lastBlockSize", (m).lastBlockSize);           \
        ob_u((x)->o, "bp128.meta.maxBitWidth", (m).maxBitWidth);               \
    } while (0)

static void t_bp128(ex *x, const tgt *t) {
    const size_t n = t->n;
    uint8_t *dst = encbuf(x, t, n * 9 + 128);
    varintBP128Meta m;
    PREFILL(x, m);
    varintBP128Meta *mp = (t->p1 & 1) ? NULL : &m;
    size_t len, c;
    if (t->kind == K_BP128_32 || t->kind == K_BP128_D32) {
        uint32_t *v32 = (uint32_t *)t->aux; /* same address in every call */
        uint32_t *o32 = (uint32_t *)mkbuf(x, n * sizeof(uint32_t));
        for (size_t i = 0; i < n; i++) {
            v32[i] = (uint32_t)t->v[i];
        }
        if (t->kind == K_BP128_32) {
            PAINT(x);
            len = varintBP128Encode32(dst, v32, n, mp);
            PAINT(x);
            c = varintBP128Decode32(dst, o32, n);
        } else {
            PAINT(x);
            len = varintBP128DeltaEncode32(dst, v32, n, mp);
            PAINT(x);
            c = varintBP128DeltaDecode32(dst, o32, n);
        }
        ob_b(x->o, "bp128.dec.values", o32, (c < n ? c : n) * sizeof(uint32_t));
        PAINT(x);
        ob_u(x->o, "bp128.maxbitwidth32", varintBP128MaxBitWidth32(v32, n));
        ob_u(x->o, "bp128.sorted32", varintBP128IsSorted32(v32, n));
        ob_u(x->o, "bp128.beneficial32", varintBP128IsBeneficial32(v32, n));
        free(o32);
    } else {
        uint64_t *out = mkvals(x, n);
        if (t->kind == K_BP128_64) {
            PAINT(x);
            len = varintBP128Encode64(dst, t->v, n, mp);
            PAINT(x);
            c = varintBP128Decode64(dst, out, n);
            ob_u(x->o, "bp128.getcount", varintBP128GetCount(dst, len));
        } else {
            PAINT(x);
            len = varintBP128DeltaEncode64(dst, t->v, n, mp);
            PAINT(x);
            c = varintBP128DeltaDecode64(dst, out, n);
        }
        ob_b(x->o, "bp128.dec.values", out, (c < n ? c : n) * sizeof(uint64_t));
        PAINT(x);
        ob_u(x->o, "bp128.maxbitwidth64", varintBP128MaxBitWidth64(t->v, n));
        ob_u(x->o, "bp128.sorted64", varintBP128IsSorted64(t->v, n));
        ob_u(x->o, "bp128.beneficial64", varintBP128IsBeneficial64(t->v, n));
        free(out);
    }
    ob_u(x->o, "bp128.enc.len", len);
    ob_b(x->o, "bp128.enc.bytes", dst, len);
    ob_u(x->o, "bp128.dec.count", c);
    if (mp) {
        OBS_BPMETA(x, m);
    }
}

/* doubles are composed from the integer array by bit manipulation only (no
 * libm): p2 selects how */
static double *make_doubles(const tgt *t) {
    double *d = (double *)t->aux; /* same address in every call */
    for (size_t i = 0; i < t->n; i++) {
        uint64_t v = t->v[i], u;
        switch ((t->p2 >> 4) & 3) {
        case 0: /* one binade, mantissa noise (carry candidates included) */
            u = (0x3ffULL << 52) | (v & 0xfffffffffffffULL) |
                ((v & 1) ? 0xfffff00000000ULL : 0);
            break;
        case 1: /* exponents spread over a window, both signs */
            u = ((v >> 63) << 63) |
                ((uint64_t)(0x3ffu - 40u + (unsigned)((v >> 8) % 80)) << 52) |
                ((v * 0x9e3779b97f4a7c15ULL) & 0xfffffffffffffULL);
            break;
        case 2: /* specials interleaved: zero, denormal, inf, nan */
            switch (v & 7) {
            case 0:
                u = 0;
                break;
            case 1:
                u = 1ULL << 63;
                break;
            case 2:
                u = v >> 12; /* denormal */
                break;
            case 3:
                u = 0x7ffULL << 52;
                break;
            case 4:
                u = (0x7ffULL << 52) | (v >> 13) | 1;
                break;
            default:
                u = (0x400ULL << 52) | (v & 0xfffffffffffffULL);
                break;
            }
            break;
        default: /* raw bit pattern */
            u = v;
            break;
        }
        memcpy(&d[i], &u, sizeof(u));
    }
    return d;
}

static void t_float(ex *x, const tgt *t) {
    static const double errs[9] = {0.0,    1e-9, 1e-7, 1.2e-7, 1e-4,
                                   9.8e-4, 1e-2, 6.3e-2, 0.5};
    const size_t n = t->n;
    double *d = make_doubles(t);
    uint8_t *dst = encbuf(x, t, n * 27 + 128);
    varintFloatPrecision prec = (varintFloatPrecision)(t->p1 & 3);
    varintFloatEncodingMode mode = (varintFloatEncodingMode)((t->p1 >> 2) % 3);
    size_t len;
    if (t->kind == K_FLOAT_AUTO) {
        varintFloatPrecision sel;
        PREFILL(x, sel);
        PAINT(x);
        len = varintFloatEncodeAuto(dst, d, n, errs[(t->p1 >> 4) % 9], mode,
                                    &sel);
        ob_u(x->o, "float.auto.precision", (uint64_t)sel);
    } else {
        PAINT(x);
        len = varintFloatEncode(dst, d, n, prec, mode);
    }
    ob_u(x->o, "float.enc.len", len);
    if (len == 0) {
        return;
    }
    ob_b(x->o, "float.enc.bytes", dst, len);
    double *out = (double *)mkbuf(x, n * sizeof(double));
    PAINT(x);
    size_t used = varintFloatDecode(dst, n, out);
    ob_u(x->o, "float.dec.used", used);
    if (used) {
        ob_b(x->o, "float.dec.values", out, n * sizeof(double));
    }
    uint64_t sg = x->word, ma = x->word;
    int16_t e = (int16_t)x->word;
    PAINT(x);
    bool normal = varintFloatDecompose(d[t->p2 % n], &sg, &e, &ma);
    ob_u(x->o, "float.decompose.ret", normal);
    ob_u(x->o, "float.decompose.sign", sg);
    ob_u(x->o, "float.decompose.exp", (uint64_t)(int64_t)e);
    ob_u(x->o, "float.decompose.mant", ma);
    if (normal) {
        ob_double(x->o, "float.compose", varintFloatCompose(sg, e, ma & 0xfffffffffffffULL));
    }
    free(out);
}

static void obs_adaptive_enc_meta(ex *x, const varintAdaptiveMeta *m) {
    ob_u(x->o, "adaptive.enc.meta.originalCount", m->originalCount);
    ob_u(x->o, "adaptive.enc.meta.encodedSize", m->encodedSize);
    ob_u(x->o, "adaptive.enc.meta.encodingType", (uint64_t)m->encodingType);
    if (m->encodingType == VARINT_ADAPTIVE_FOR) {
        OBS_FORMETA(x, "adaptive.enc.meta.for", m->encodingMeta.forMeta);
    } else if (m->encodingType == VARINT_ADAPTIVE_PFOR) {
        OBS_PFORMETA(x, "adaptive.enc.meta.pfor", m->encodingMeta.pforMeta, 1);
    }
}

static void t_adaptive(ex *x, const tgt *t) {
    const size_t n = t->n;
    uint8_t *dst = encbuf(x, t, n * 27 + 8300);
    varintAdaptiveMeta m;
    PREFILL(x, m);
    varintAdaptiveMeta *mp = (t->p2 & 0x80) ? NULL : &m;
    size_t len;
    if (t->kind == K_ADAPT_AUTO) {
        PAINT(x);
        len = varintAdaptiveEncode(dst, t->v, n, mp);
    } else {
        PAINT(x);
        len = varintAdaptiveEncodeWith(
            dst, t->v, n, (varintAdaptiveEncodingType)(t->p1 % 6), mp);
    }
    ob_u(x->o, "adaptive.enc.len", len);
    if (len == 0) {
        return;
    }
    ob_b(x->o, "adaptive.enc.bytes", dst, len);
    if (mp) {
        obs_adaptive_enc_meta(x, &m);
    }
    if (x->o && !x->o->light) {
        char cls[48];
        snprintf(cls, sizeof(cls), "adaptive.%s.%s",
                 t->kind == K_ADAPT_AUTO ? "selected" : "forced",
                 varintAdaptiveEncodingName(varintAdaptiveGetEncodingType(dst)));
        vf_class(cls);
    }
    uint64_t *out = mkvals(x, n);
    varintAdaptiveMeta dm;
    PREFILL_DEC(x, dm);
    PAINT(x);
    size_t c = varintAdaptiveDecode(dst, out, n, &dm);
    ob_u(x->o, "adaptive.dec.count", c);
    ob_b(x->o, "adaptive.dec.values", out, (c < n ? c : n) * sizeof(uint64_t));
    ob_u(x->o, "adaptive.dec.meta.encodingType", (uint64_t)dm.encodingType);
    ob_u(x->o, "adaptive.dec.meta.originalCount", dm.originalCount);
    if (dm.encodingType == VARINT_ADAPTIVE_PFOR) {
        /* the union behind a DECODE is not a documented output */
        OBS_PFORMETA_DEC(x, "adaptive.dec.meta.pfor", dm, varintAdaptiveMeta,
                         encodingMeta.pforMeta.);
    }
    varintAdaptiveMeta rm;
    PREFILL(x, rm);
    PAINT(x);
    size_t hs = varintAdaptiveReadMeta(dst, &rm);
    ob_u(x->o, "adaptive.readmeta.ret", hs);
    ob_u(x->o, "adaptive.readmeta.encodingType", (uint64_t)rm.encodingType);
    ob_u(x->o, "adaptive.readmeta.originalCount", rm.originalCount);
    ob_u(x->o, "adaptive.readmeta.encodedSize", rm.encodedSize);
    if (rm.encodingType == VARINT_ADAPTIVE_FOR) {
        OBS_FORMETA(x, "adaptive.readmeta.for", rm.encodingMeta.forMeta);
    } else if (rm.encodingType == VARINT_ADAPTIVE_PFOR) {
        OBS_PFORMETA(x, "adaptive.readmeta.pfor", rm.encodingMeta.pforMeta, 0);
    }
    free(out);
}

static void t_adaptive_analyze(ex *x, const tgt *t) {
    varintAdaptiveDataStats s;
    PREFILL(x, s);
    PAINT(x);
    varintAdaptiveAnalyze(t->v, t->n, &s);
    ob_u(x->o, "stats.count", s.count);
    ob_u(x->o, "stats.minValue", s.minValue);
    ob_u(x->o, "stats.maxValue", s.maxValue);
    ob_u(x->o, "stats.range", s.range);
    ob_u(x->o, "stats.uniqueCount", s.uniqueCount);
    ob_u(x->o, "stats.avgDelta", s.avgDelta);
    ob_u(x->o, "stats.maxDelta", s.maxDelta);
    ob_u(x->o, "stats.outlierCount", s.outlierCount);
    ob_float(x->o, "stats.uniqueRatio", s.uniqueRatio);
    ob_float(x->o, "stats.outlierRatio", s.outlierRatio);
    ob_u(x->o, "stats.isSorted", s.isSorted);
    ob_u(x->o, "stats.isReverseSorted", s.isReverseSorted);
    ob_u(x->o, "stats.fitsInBitmapRange", s.fitsInBitmapRange);
    PAINT(x);
    ob_u(x->o, "stats.select", (uint64_t)varintAdaptiveSelectEncoding(&s));
    ob_u(x->o, "stats.checksorted",
         (uint64_t)(int64_t)varintAdaptiveCheckSorted(t->v, t->n));
    ob_u(x->o, "stats.countunique", varintAdaptiveCountUnique(t->v, t->n));
    ob_u(x->o, "stats.avgdelta", varintAdaptiveAvgDelta(t->v, t->n));
}

static void t_bitmap(ex *x, const tgt *t) {
    const size_t n = t->n;
    uint16_t *v16 = (uint16_t *)t->aux; /* same address in every call */
    for (size_t i = 0; i < n; i++) {
        v16[i] = (uint16_t)((t->p1 & 4) ? (t->v[i] * 0x9e37u) >> 3 : t->v[i]);
    }
    PAINT(x);
    varintBitmap *vb = varintBitmapCreate();
    if (!vb) {
        return;
    }
    if (t->p1 & 1) {
        /* range first (on the empty set), half-open [min, max) */
        uint16_t lo = (uint16_t)(t->p2 * 97u);
        uint32_t span = (t->p1 & 2) ? 5000u : 1u + (t->p2 & 63);
        uint32_t hi = lo + span > 65535u ? 65535u : lo + span;
        PAINT(x);
        varintBitmapAddRange(vb, lo, (uint16_t)hi);
    }
    PAINT(x);
    varintBitmapAddMany(vb, v16, (uint32_t)n);
    if (t->p1 & 8) {
        PAINT(x);
        ob_u(x->o, "bitmap.remove", varintBitmapRemove(vb, v16[t->p2 % n]));
    }
    ob_u(x->o, "bitmap.cardinality", varintBitmapCardinality(vb));
    ob_u(x->o, "bitmap.type", (uint64_t)vb->type);
    ob_u(x->o, "bitmap.contains", varintBitmapContains(vb, v16[t->p2 % n]));
    varintBitmapStats st;
    PREFILL(x, st);
    PAINT(x);
    varintBitmapGetStats(vb, &st);
    ob_u(x->o, "bitmap.stats.type", (uint64_t)st.type);
    ob_u(x->o, "bitmap.stats.cardinality", st.cardinality);
    uint8_t *dst = encbuf(x, t, BITMAP_CAP);
    PAINT(x);
    size_t len = varintBitmapEncode(vb, dst);
    ob_u(x->o, "bitmap.enc.len", len);
    ob_b(x->o, "bitmap.enc.bytes", dst, len < BITMAP_CAP ? len : BITMAP_CAP);
    PAINT(x);
    varintBitmap *back = varintBitmapDecode(dst, len);
    ob_u(x->o, "bitmap.dec.nonnull", back != NULL);
    if (back) {
        uint16_t *arr = (uint16_t *)mkbuf(x, 65536 * sizeof(uint16_t));
        PAINT(x);
        uint32_t c = varintBitmapToArray(back, arr);
        ob_u(x->o, "bitmap.toarray.count", c);
        ob_b(x->o, "bitmap.toarray.values", arr,
             (size_t)(c < 65536 ? c : 65536) * sizeof(uint16_t));
        free(arr);
        varintBitmapFree(back);
    }
    varintBitmapFree(vb);
}

/* ---------------------------------------------------------- scalar targets */
#define SPLIT_RT(x, PFX, NAME, val)                                            \
    do {                                                                       \
        uint8_t b_[24];                                                        \
        PREFILL(x, b_);                                                        \
        unsigned l_ = 0, g_ = 0;                                               \
        uint64_t r_ = (x)->word;                                               \
        PAINT(x);                                                              \
        PFX##Put_(b_ + 4, l_, (val));                                          \
        ob_u((x)->o, NAME ".put.len", l_);                                     \
        ob_b((x)->o, NAME ".put.bytes", b_ + 4, l_ <= 9 ? l_ : 9);             \
        PAINT(x);                                                              \
        PFX##Get_(b_ + 4, g_, r_);                                             \
        ob_u((x)->o, NAME ".get.len", g_);                                     \
        ob_u((x)->o, NAME ".get.value", r_);                                   \
    } while (0)

static void t_scalar(ex *x, const tgt *t) {
    for (unsigned i = 0; i < t->nsv; i++) {
        uint64_t v = t->sv[i];
        uint8_t b[24];
        PREFILL(x, b);
        uint64_t r = x->word;
        switch (t->kind) {
        case K_SC_TAGGED: {
            PAINT(x);
            unsigned l = varintTaggedPut64(b + 4, v);
            ob_u(x->o, "tagged.put.len", l);
            ob_b(x->o, "tagged.put.bytes", b + 4, l <= 9 ? l : 9);
            PAINT(x);
            unsigned g = varintTaggedGet64(b + 4, &r);
            ob_u(x->o, "tagged.get.len", g);
            ob_u(x->o, "tagged.get.value", r);
            ob_u(x->o, "tagged.len", varintTaggedLen(v));
            ob_u(x->o, "tagged.getlen", varintTaggedGetLen(b + 4));
            ob_u(x->o, "tagged.getrv", varintTaggedGet64ReturnValue(b + 4));
            break;
        }
        case K_SC_EXTERNAL: {
            PAINT(x);
            unsigned l;
            if (t->p1 & 1) {
                l = varintExternalBigEndianPut(b + 4, v);
            } else {
                l = varintExternalPut(b + 4, v);
            }
            ob_u(x->o, "external.put.len", l);
            if (l >= 1 && l <= 8) {
                ob_b(x->o, "external.put.bytes", b + 4, l);
                PAINT(x);
                r = (t->p1 & 1)
                        ? varintExternalBigEndianGet(b + 4, (varintWidth)l)
                        : varintExternalGet(b + 4, (varintWidth)l);
                ob_u(x->o, "external.get.value", r);
            }
            break;
        }
        case K_SC_CHAINED: {
            PAINT(x);
            unsigned l = (t->p1 & 1) ? varintChainedSimpleEncode64(b + 4, v)
                                     : varintChainedPutVarint(b + 4, v);
            ob_u(x->o, "chained.put.len", l);
            ob_b(x->o, "chained.put.bytes", b + 4, l <= 10 ? l : 10);
            PAINT(x);
            unsigned g = (t->p1 & 1) ? varintChainedSimpleDecode64(b + 4, &r)
                                     : varintChainedGetVarint(b + 4, &r);
            ob_u(x->o, "chained.get.len", g);
            ob_u(x->o, "chained.get.value", r);
            break;
        }
        default: /* K_SC_SPLIT */
            switch (t->p1 & 3) {
            case 0:
                SPLIT_RT(x, varintSplit, "split", v);
                break;
            case 1:
                SPLIT_RT(x, varintSplitFull, "splitFull", v);
                break;
            case 2:
                SPLIT_RT(x, varintSplitFull16, "splitFull16", v);
                break;
            default:
                if (v == 0) {
                    v = 1; /* documented domain of the no-zero family */
                }
                SPLIT_RT(x, varintSplitFullNoZero, "splitFullNoZero", v);
                break;
            }
            break;
        }
    }
}

static void run_target(ex *x, const tgt *t) {
    switch (t->kind) {
    case K_FOR:
        t_for(x, t);
        break;
    case K_PFOR:
        t_pfor(x, t);
        break;
    case K_DELTA_U:
    case K_DELTA_S:
        t_delta(x, t);
        break;
    case K_GROUP:
        t_group(x, t);
        break;
    case K_DICT:
    case K_DICT_PREBUILT:
        t_dict(x, t);
        break;
    case K_RLE:
    case K_RLE_HDR:
        t_rle(x, t);
        break;
    case K_ELIAS_G:
    case K_ELIAS_D:
        t_elias(x, t);
        break;
    case K_BP128_32:
    case K_BP128_D32:
    case K_BP128_64:
    case K_BP128_D64:
        t_bp128(x, t);
        break;
    case K_FLOAT:
    case K_FLOAT_AUTO:
        t_float(x, t);
        break;
    case K_ADAPT_AUTO:
    case K_ADAPT_FORCED:
        t_adaptive(x, t);
        break;
    case K_ADAPT_ANALYZE:
        t_adaptive_analyze(x, t);
        break;
    case K_BITMAP:
        t_bitmap(x, t);
        break;
    default:
        t_scalar(x, t);
        break;
    }
}

/* --------------------------------------------------------------- comparison */
static int obs_compare2(vf_report *rep, const tgt *t, const obs *a,
                        const obs *b, const char *first, const char *which,
                        const char *paintdesc) {
    if (a->k != b->k) {
        unsigned m = a->k < b->k ? a->k : b->k;
        return vf_fail(rep, kind_name[t->kind], "shape",
                       "%s: %s produced %u observations, "
                       "%s produced %u (first extra: %s) [%s]",
                       t->desc, first, a->k, which, b->k,
                       a->k > m ? a->it[m].name : b->it[m].name, paintdesc);
    }
    for (unsigned i = 0; i < a->k; i++) {
        const obs_item *p = &a->it[i], *q = &b->it[i];
        char site[64];
        snprintf(site, sizeof(site), "%s", p->name);
        if (p->name != q->name && strcmp(p->name, q->name) != 0) {
            return vf_fail(rep, site, "shape",
                           "%s: observation %u is '%s' %s and '%s' %s "
                           "[%s]",
                           t->desc, i, p->name, first, q->name, which,
                           paintdesc);
        }
        if (!p->copy) {
            if (p->unw && q->unw) {
                continue; /* not a documented output, written by neither */
            }
            if (p->v != q->v) {
                return vf_fail(rep, site, "value",
                               "%s: %s = %llu (0x%llx) %s, "
                               "%llu (0x%llx) %s [%s]",
                               t->desc, p->name, (unsigned long long)p->v,
                               (unsigned long long)p->v, first,
                               (unsigned long long)q->v,
                               (unsigned long long)q->v, which, paintdesc);
            }
            continue;
        }
        if (p->v != q->v) {
            return vf_fail(rep, site, "length",
                           "%s: %s has %llu bytes %s, %llu %s [%s]",
                           t->desc, p->name, (unsigned long long)p->v, first,
                           (unsigned long long)q->v, which, paintdesc);
        }
        if (p->v && memcmp(p->copy, q->copy, (size_t)p->v) != 0) {
            size_t off = 0;
            while (p->copy[off] == q->copy[off]) {
                off++;
            }
            return vf_fail(rep, site, "bytes",
                           "%s: %s differs at byte offset %zu of %llu: 0x%02x "
                           "%s, 0x%02x %s [%s]",
                           t->desc, p->name, off, (unsigned long long)p->v,
                           p->copy[off], first, q->copy[off], which,
                           paintdesc);
        }
    }
    return 0;
}

static int obs_compare(vf_report *rep, const tgt *t, const obs *a, const obs *b,
                       const char *which, const char *paintdesc) {
    return obs_compare2(rep, t, a, b, "when called first", which, paintdesc);
}

/* ------------------------------------------------------------------- paints */
typedef struct paint {
    unsigned sel;
    uint64_t payload;
} paint;

static const char *const paint_name[8] = {"zero",     "count", "natural",
                                          "ones",     "count32x2", "small",
                                          "raw",      "biased"};

static void parse_paint(vf_rd *r, paint *p) {
    p->sel = vf_u8(r) & 7;
    p->payload = 0;
    switch (p->sel) {
    case 5:
        p->payload = vf_u8(r);
        break;
    case 6:
        p->payload = vf_raw64(r);
        break;
    case 7:
        p->payload = vf_u64(r);
        break;
    default:
        break;
    }
}

static uint64_t paint_word(const paint *p, uint64_t count, unsigned run) {
    switch (p->sel) {
    case 0:
        return 0;
    case 1:
        return count;
    case 2: /* natural residue: only the output pre-fill uses this word */
        return 0xA5A5A5A5A5A5A5A5ULL ^ (0x0101010101010101ULL * run);
    case 3:
        return UINT64_MAX;
    case 4:
        return (count & 0xffffffffULL) | (count << 32);
    default:
        return p->payload;
    }
}

/* ------------------------------------------------- in-place edit histories */
/* A history step of this class calls the TARGET's own codec (or another codec
 * of the same input type) on the TARGET's OWN buffers - same input address,
 * same encoded-form address, same count or a count-1 / count+1 view of the
 * same pointer - after 1..4 generated edits of the contents, then restores the
 * original contents exactly.  A cache keyed on (pointer, count, cheap digest:
 * sum / xor / first / last element) is invisible to histories that only ever
 * present other buffers; it goes stale when the address comes back with
 * different contents and an equal digest.  The decoders see the mirror image:
 * the edited array is encoded into the target's encoded-form buffer, so they
 * are given another valid encoding (often of the same length: permutations,
 * moves inside one width class) at the address of the compared input. */
enum {
    E_MOVE = 0, /* v[i] -= d, v[j] += d with wraparound: sum kept */
    E_SWAP,
    E_ROTATE,
    E_REVERSE,
    E_XORFLIP,  /* same bit flipped in two elements: xor kept */
    E_INTERIOR, /* first and last element kept */
    E_SUMXOR,   /* bits exchanged between the two elements of a pair: sum and
                   xor kept; over all pairs every element changes */
    E_VIEW,     /* count-1 / count+1 / count elements of the same pointer */
    E_KINDS
};
static const char *const edit_name[E_KINDS] = {
    "move", "swap", "rotate", "reverse", "xorflip", "interior", "sumxor", "view"};

typedef struct ipedit {
    uint8_t kind, sub, call, restore, x;
    uint16_t i, j;
    uint64_t d;
} ipedit;

#define MAXEDIT 4
typedef struct ipstep {
    unsigned cs;     /* 0,1: target's kind and parameters; 2: target's kind,
                        own parameters; 3: another codec of the same input
                        type */
    unsigned p1, p2; /* own parameters */
    unsigned ne;
    ipedit e[MAXEDIT];
} ipstep;

static unsigned bitlen64(uint64_t v) {
    unsigned b = 0;
    while (v) {
        b++;
        v >>= 1;
    }
    return b;
}

static size_t ip_index(uint16_t s, size_t m, size_t amin, size_t amax) {
    if ((s >> 8) & 1) {
        switch (s & 7) {
        case 0:
            return amin;
        case 1:
            return amax;
        case 2:
            return m - 1;
        case 3:
            return m / 2;
        case 4:
            return 1 % m;
        case 5:
            return m >= 2 ? m - 2 : 0;
        case 6:
            return 63 % m;
        default:
            return 0;
        }
    }
    return (size_t)(((s >> 9) << 8) | (s & 0xff)) % m;
}

static void ip_reverse(uint64_t *v, size_t lo, size_t hi) { /* [lo, hi) */
    while (lo + 1 < hi) {
        uint64_t t = v[lo];
        v[lo] = v[hi - 1];
        v[hi - 1] = t;
        lo++;
        hi--;
    }
}

/* exchange the bits selected by mode between a and b where they differ: the
 * multiset of bits per position is kept, so a+b and a^b are unchanged */
static void ip_pair(uint64_t *a, uint64_t *b, unsigned mode, uint64_t gen) {
    uint64_t diff = *a ^ *b;
    if (!diff) {
        return;
    }
    uint64_t top = 1ULL << (bitlen64(diff) - 1);
    uint64_t m;
    switch (mode & 3) {
    case 0:
        m = top;
        break;
    case 1:
        m = diff & (~diff + 1);
        break;
    case 2:
        m = diff & gen;
        break;
    default:
        m = diff & ~top;
        break;
    }
    if (!m) {
        m = top;
    }
    *a ^= m;
    *b ^= m;
}

static void ip_apply(uint64_t *v, size_t m, const ipedit *e) {
    if (m < 2) {
        return;
    }
    uint64_t mn = v[0], mx = v[0];
    size_t amin = 0, amax = 0;
    for (size_t k = 1; k < m; k++) {
        if (v[k] < mn) {
            mn = v[k];
            amin = k;
        }
        if (v[k] > mx) {
            mx = v[k];
            amax = k;
        }
    }
    size_t i = ip_index(e->i, m, amin, amax);
    size_t j = ip_index(e->j, m, amin, amax);
    if (i == j) {
        j = (i + 1) % m;
    }
    const unsigned xs = e->x & 15;
    switch (e->kind) {
    case E_MOVE: {
        uint64_t d;
        switch (e->sub) {
        case 0: /* element i drops below the old minimum */
            d = v[i] - mn + 1 + xs;
            break;
        case 1: /* element j rises above the old maximum */
            d = mx - v[j] + 1 + xs;
            break;
        case 2:
            d = v[i];
            break;
        case 3:
            d = e->d;
            break;
        case 4:
            d = 1 + xs;
            break;
        case 5: /* stays inside the range: percentile / outlier count move */
            d = (v[i] - mn) / 2 + 1;
            break;
        case 6:
            d = 1ULL << (bitlen64(mx - mn) & 63);
            break;
        default:
            d = 1ULL << (8 * (1 + e->x % 7));
            break;
        }
        if (d == 0) {
            d = 1;
        }
        v[i] -= d;
        v[j] += d;
        break;
    }
    case E_SWAP: {
        uint64_t t = v[i];
        v[i] = v[j];
        v[j] = t;
        break;
    }
    case E_ROTATE: {
        size_t k;
        switch (e->sub & 3) {
        case 0:
            k = 1;
            break;
        case 1:
            k = m - 1;
            break;
        case 2:
            k = m / 2;
            break;
        default:
            k = 1 + i % (m - 1);
            break;
        }
        ip_reverse(v, 0, k);
        ip_reverse(v, k, m);
        ip_reverse(v, 0, m);
        break;
    }
    case E_REVERSE:
        if ((e->sub & 1) == 0) {
            ip_reverse(v, 0, m);
        } else {
            ip_reverse(v, i < j ? i : j, (i < j ? j : i) + 1);
        }
        break;
    case E_XORFLIP: {
        unsigned b;
        switch (e->sub) {
        case 0:
            b = 0;
            break;
        case 1:
            b = mx ? bitlen64(mx) - 1 : 0;
            break;
        case 2:
            b = bitlen64(mx) & 63;
            break;
        case 3:
            b = e->x & 63;
            break;
        case 4:
            b = 7;
            break;
        case 5:
            b = 8;
            break;
        case 6:
            b = 31 + (e->x & 1);
            break;
        default:
            b = 63;
            break;
        }
        v[i] ^= 1ULL << b;
        v[j] ^= 1ULL << b;
        break;
    }
    case E_INTERIOR: {
        if (m < 3) {
            break;
        }
        size_t ii = 1 + i % (m - 2), jj = 1 + j % (m - 2);
        if (ii == jj && m >= 4) {
            jj = 1 + ii % (m - 2);
        }
        switch (e->sub) {
        case 0:
            v[ii] += 1 + xs;
            break;
        case 1:
            if (ii != jj) {
                uint64_t d = v[ii] - mn + 1 + xs;
                v[ii] -= d;
                v[jj] += d;
            } else {
                v[ii] = mn - 1 - xs;
            }
            break;
        case 2:
            v[ii] = e->d;
            break;
        case 3:
            v[ii] ^= e->d | 1;
            break;
        case 4: {
            uint64_t t = v[ii];
            v[ii] = v[jj];
            v[jj] = t;
            break;
        }
        case 5:
            v[ii] ^= 1ULL << (e->x & 63);
            if (ii != jj) {
                v[jj] ^= 1ULL << (e->x & 63);
            }
            break;
        case 6:
            v[ii] = mn - 1 - xs;
            break;
        default:
            v[ii] = mx + 1 + xs;
            break;
        }
        break;
    }
    case E_SUMXOR:
        if (e->sub & 4) {
            for (size_t k = 0; k + 1 < m; k += 2) {
                ip_pair(&v[k], &v[k + 1], e->sub, e->d);
            }
            if (m & 1) {
                ip_pair(&v[m - 1], &v[0], e->sub, e->d);
            }
        } else {
            ip_pair(&v[i], &v[j], e->sub, e->d);
        }
        break;
    default:
        break;
    }
}

static void parse_ipstep(vf_rd *r, ipstep *s) {
    memset(s, 0, sizeof(*s));
    s->p1 = vf_u8(r);
    s->p2 = vf_u8(r);
    uint8_t b = vf_u8(r);
    s->cs = b & 3;
    s->ne = 1 + ((b >> 2) & 3);
    for (unsigned k = 0; k < s->ne; k++) {
        ipedit *e = &s->e[k];
        uint8_t op = vf_u8(r);
        e->kind = op & 7;
        e->call = (op >> 3) & 1;
        e->restore = (op >> 4) & 1;
        e->sub = op >> 5;
        e->i = vf_u16(r);
        e->j = vf_u16(r);
        e->x = vf_u8(r);
        if ((e->kind == E_MOVE && e->sub == 3) ||
            (e->kind == E_INTERIOR && (e->sub == 2 || e->sub == 3)) ||
            (e->kind == E_SUMXOR && (e->sub & 3) == 2)) {
            e->d = vf_u64(r);
        }
    }
}

/* type of the buffer the library reads its input from */
static unsigned kind_inclass(unsigned k) {
    switch (k) {
    case K_BP128_32:
    case K_BP128_D32:
        return 1;
    case K_FLOAT:
    case K_FLOAT_AUTO:
        return 2;
    case K_BITMAP:
        return 3;
    default:
        return kind_is_scalar(k) ? 4 : 0;
    }
}

typedef struct ipctx {
    vf_report *rep;
    tgt *T;
    const uint64_t *orig; /* T->n + 1 elements */
    const obs *A;         /* execution (a) */
    const char *paintdesc;
    unsigned budget;      /* in-place calls left in this execution */
    unsigned ncall;       /* in-place calls made in this execution */
    int classes;          /* count class counters (execution (b) only) */
    int observe_first;    /* copy oracle on the first in-place call */
    int observe_last;     /* ... on the final call of step `last_step` */
    uint64_t sum0, xor0;
} ipctx;

static uint64_t first_enc_len(const obs *o) {
    for (unsigned i = 0; i < o->k; i++) {
        size_t l = strlen(o->it[i].name);
        if (l >= 8 && strcmp(o->it[i].name + l - 8, ".enc.len") == 0) {
            return o->it[i].v;
        }
    }
    return UINT64_MAX;
}

static void ip_classes(const ipctx *c, const tgt *E, const obs *probe) {
    const tgt *T = c->T;
    char cls[64];
    vf_class("hist.inplace.call");
    snprintf(cls, sizeof(cls), "hist.inplace.target.%s", kind_name[T->kind]);
    vf_class(cls);
    if (E->kind != T->kind) {
        vf_class("hist.inplace.codec.other");
    } else if (E->p1 != T->p1 || E->p2 != T->p2) {
        vf_class("hist.inplace.codec.ownOtherParams");
    } else {
        vf_class("hist.inplace.codec.own");
    }
    if (E->n != T->n) {
        vf_class(E->n < T->n ? "hist.inplace.view.shorter"
                             : "hist.inplace.view.longer");
        return;
    }
    const size_t n = T->n;
    if (memcmp(E->v, c->orig, n * sizeof(uint64_t)) == 0) {
        vf_class("hist.inplace.contents.unchanged");
        return;
    }
    uint64_t sum = 0, xr = 0, mn = E->v[0], mx = E->v[0], mn0 = c->orig[0],
             mx0 = c->orig[0];
    size_t changed = 0;
    for (size_t k = 0; k < n; k++) {
        sum += E->v[k];
        xr ^= E->v[k];
        mn = E->v[k] < mn ? E->v[k] : mn;
        mx = E->v[k] > mx ? E->v[k] : mx;
        mn0 = c->orig[k] < mn0 ? c->orig[k] : mn0;
        mx0 = c->orig[k] > mx0 ? c->orig[k] : mx0;
        changed += E->v[k] != c->orig[k];
    }
    const int ks = sum == c->sum0, kx = xr == c->xor0;
    const int kfl = E->v[0] == c->orig[0] && E->v[n - 1] == c->orig[n - 1];
    const int moved = mn != mn0 || mx != mx0;
    if (ks) {
        vf_class("hist.inplace.sumKept");
    }
    if (kx) {
        vf_class("hist.inplace.xorKept");
    }
    if (ks && kx) {
        vf_class("hist.inplace.sumAndXorKept");
    }
    if (kfl) {
        vf_class("hist.inplace.firstLastKept");
    }
    if (moved) {
        vf_class("hist.inplace.minOrMaxMoved");
    }
    if (ks && moved) {
        vf_class("hist.inplace.sumKept.minOrMaxMoved");
    }
    if (kx && moved) {
        vf_class("hist.inplace.xorKept.minOrMaxMoved");
    }
    if (kfl && moved) {
        vf_class("hist.inplace.firstLastKept.minOrMaxMoved");
    }
    if (ks && kx && changed == n) {
        vf_class("hist.inplace.sumAndXorKept.everyElementChanged");
    }
    if (ks && n >= 64) {
        vf_class("hist.inplace.sumKept.len>=64");
    }
    if (probe && c->A) {
        uint64_t l = first_enc_len(probe), l0 = first_enc_len(c->A);
        if (l != UINT64_MAX && l == l0) {
            vf_class("hist.inplace.encodedSameLength");
        } else if (l != UINT64_MAX) {
            vf_class("hist.inplace.encodedOtherLength");
        }
    }
}

/* the copy oracle: the call that was just observed on the target's own buffers
 * (edited contents E, result `in`) is repeated on buffers the library has not
 * seen in this case with byte-identical arguments; "repeating a call ... in a
 * fresh process gives identical results" does not let a result depend on the
 * address, so the two must agree.  The in-place call comes first: the repeat
 * must not be what evicts a stale entry. */
static void ip_copy_oracle(ipctx *c, const ex *xh, const tgt *E, const obs *in,
                           const char *what) {
    tgt F = *E;
    F.v = (uint64_t *)malloc((c->T->n + 1) * sizeof(uint64_t));
    F.enc = (uint8_t *)malloc(E->enc_cap);
    F.aux = malloc((c->T->n + 2) * sizeof(uint64_t));
    if (!F.v || !F.enc || !F.aux) {
        abort();
    }
    memcpy(F.v, E->v, (c->T->n + 1) * sizeof(uint64_t));
    memset(F.aux, 0, (c->T->n + 2) * sizeof(uint64_t));
    obs *R = (obs *)calloc(1, sizeof(obs));
    if (!R) {
        abort();
    }
    ex x = {R, xh->paint, xh->word};
    run_target(&x, &F);
    vf_evals(1);
    if (c->classes) {
        vf_class("hist.inplace.copyOracle");
    }
    if (in->dropped || R->dropped) {
        vf_fail(c->rep, "harness", "internal", "observation table too small");
    } else {
        char which[200];
        snprintf(which, sizeof(which),
                 "on the target's own buffers after the in-place edits {%s} "
                 "(same address as execution (a), other contents)",
                 what);
        obs_compare2(c->rep, &F, R, in,
                     "on a fresh copy of the same contents", which,
                     c->paintdesc);
    }
    obs_free(R);
    free(R);
    free(F.v);
    free(F.enc);
    free(F.aux);
}

static void run_inplace(ipctx *c, const ex *xh, const ipstep *s, unsigned hk,
                        int is_last_step) {
    tgt *T = c->T;
    const size_t n = T->n;
    size_t m = n;
    char what[120];
    size_t wl = 0;
    what[0] = 0;
    for (unsigned k = 0; k < s->ne && !c->rep->violated; k++) {
        const ipedit *e = &s->e[k];
        const int final = k + 1 == s->ne;
        if (e->restore) {
            memcpy(T->v, c->orig, (n + 1) * sizeof(uint64_t));
            wl = 0;
            what[0] = 0;
        }
        if (e->kind == E_VIEW) {
            m = (e->sub % 3) == 0 ? (n >= 2 ? n - 1 : n)
                : (e->sub % 3) == 1 ? n + 1
                                    : n;
        } else {
            ip_apply(T->v, m, e);
        }
        if (wl < sizeof(what) - 1) {
            int w = snprintf(what + wl, sizeof(what) - wl, "%s%s.%u", wl ? "," : "",
                             edit_name[e->kind], e->sub);
            wl += w > 0 ? (size_t)w : 0;
            if (wl >= sizeof(what)) {
                wl = sizeof(what) - 1;
            }
        }
        if (c->classes) {
            char cls[48];
            snprintf(cls, sizeof(cls), "hist.inplace.edit.%s", edit_name[e->kind]);
            vf_class(cls);
        }
        if (!(final || e->call)) {
            continue;
        }
        if (c->budget == 0) {
            break;
        }
        c->budget--;
        /* the call */
        tgt E = *T;
        E.n = m;
        if (s->cs == 2) {
            E.p1 = s->p1;
            E.p2 = s->p2;
        } else if (s->cs == 3 && kind_inclass(hk) == kind_inclass(T->kind) &&
                   m <= kind_maxlen(hk, 15, 0) &&
                   !((hk == K_ADAPT_AUTO || hk == K_ADAPT_FORCED ||
                      hk == K_ADAPT_ANALYZE) &&
                     m > 2300)) {
            E.kind = hk;
            E.p1 = s->p1;
            E.p2 = s->p2;
        }
        conform(E.v, (E.kind == K_GROUP && m > 64) ? 64 : m, kind_flags(E.kind));
        if (m == n && memcmp(E.v, c->orig, n * sizeof(uint64_t)) == 0) {
            /* the edits cancelled out (permutation of a constant or re-sorted
             * array, one element): the identical call is already repeated by
             * executions (a)-(c), so make the contents differ */
            if (n >= 2) {
                const ipedit fb = {E_MOVE, 0, 1, 0, e->x, 0x101, 0x100, 0};
                ip_apply(E.v, n, &fb);
            } else {
                E.v[0] ^= 1ULL << (e->x & 63);
            }
            conform(E.v, (E.kind == K_GROUP && n > 64) ? 64 : n,
                    kind_flags(E.kind));
            if (c->classes) {
                vf_class("hist.inplace.fallbackEdit");
            }
        }
        snprintf(E.desc, sizeof(E.desc), "%.200s <in-place: %s n=%zu {%s}>", T->desc,
                 kind_name[E.kind], m, what);
        const int first_call = c->ncall == 0;
        c->ncall++;
        const int observe = (c->observe_first && first_call) ||
                            (c->observe_last && is_last_step && final);
        obs *P = (obs *)calloc(1, sizeof(obs));
        if (!P) {
            abort();
        }
        P->light = !observe;
        ex x = {P, xh->paint, xh->word};
        run_target(&x, &E);
        if (c->classes) {
            ip_classes(c, &E, P);
        }
        if (observe) {
            ip_copy_oracle(c, xh, &E, P, what);
        }
        obs_free(P);
        free(P);
    }
    memcpy(T->v, c->orig, (n + 1) * sizeof(uint64_t));
}

/* -------------------------------------------------------------------- case */
#define MAXHIST 6

typedef struct hstep {
    tgt t;
    unsigned amode;
    int inplace;
    unsigned hk;
    ipstep ip;
} hstep;

static void run_history(ipctx *c, const ex *xh, hstep *hs, unsigned nh,
                        int variant, int last_ip) {
    /* variant -1: H as generated; 0: reversed; 1: rotated; 2: first half */
    for (unsigned i = 0; i < nh && !c->rep->violated; i++) {
        unsigned j = i;
        if (variant == 0) {
            j = nh - 1 - i;
        } else if (variant == 1) {
            j = (i + 1) % nh;
        } else if (variant == 2 && i >= (nh + 1) / 2) {
            break;
        }
        if (hs[j].inplace) {
            run_inplace(c, xh, &hs[j].ip, hs[j].hk, (int)j == last_ip);
        } else {
            ex x = *xh;
            run_target(&x, &hs[j].t);
        }
    }
}

void vf_run(vf_rd *r, vf_report *rep) {
    unsigned kind = kind_from_byte(vf_u8(r));
    paint pa, pb;
    parse_paint(r, &pa);
    parse_paint(r, &pb);
    uint8_t heapfill = vf_u8(r);
    uint8_t hb = vf_u8(r);
    unsigned nh = hb % (MAXHIST + 1);
    unsigned variant = (hb / (MAXHIST + 1)) % 3;
    {
        /* the target's own arguments come last in the case: a short case
         * keeps enough bytes for them by running a shorter history */
        size_t left = vf_left(r);
        unsigned cap = left > 12 ? (unsigned)((left - 12) / 8) : 0;
        if (nh > cap) {
            nh = cap;
        }
    }

    hstep hs[MAXHIST];
    unsigned nip = 0;
    int last_ip = -1;
    for (unsigned i = 0; i < nh; i++) {
        unsigned hk = kind_from_byte(vf_u8(r));
        uint8_t mb = vf_u8(r);
        hs[i].amode = mb % 3;
        hs[i].hk = hk;
        /* one step in three works on the target's own buffers */
        hs[i].inplace = !kind_is_scalar(kind) && (mb / 3) % 3 == 1;
        if (hs[i].inplace) {
            memset(&hs[i].t, 0, sizeof(hs[i].t));
            hs[i].t.kind = hk;
            hs[i].amode = 0;
            parse_ipstep(r, &hs[i].ip);
            nip++;
            last_ip = (int)i;
        } else {
            parse_args(r, &hs[i].t, hk, 1);
        }
    }
    tgt T;
    parse_args(r, &T, kind, 0);

    /* history steps may borrow the target's array (same element count is what
     * the stale-metadata shortcuts key on) */
    for (unsigned i = 0; i < nh; i++) {
        tgt *h = &hs[i].t;
        if (hs[i].inplace) {
            continue;
        }
        if (kind_is_scalar(h->kind) || hs[i].amode == 0 || T.n == 0 ||
            T.n > 5000) {
            hs[i].amode = 0;
            continue;
        }
        size_t n = T.n;
        if (h->kind == K_GROUP && n > 64) {
            n = 64;
        }
        uint64_t *nv = (uint64_t *)malloc(n * sizeof(uint64_t));
        if (!nv) {
            abort();
        }
        for (size_t j = 0; j < n; j++) {
            nv[j] = hs[i].amode == 1 ? T.v[j] : h->v[j % h->n];
        }
        conform(nv, n, kind_flags(h->kind));
        free(h->v);
        h->v = nv;
        h->n = n;
    }
    for (unsigned i = 0; i < nh; i++) {
        if (!hs[i].inplace) {
            tgt_prepare(&hs[i].t);
        }
    }
    tgt_prepare(&T);

    const uint64_t count = kind_is_scalar(kind) ? T.nsv : T.n;
    const uint64_t wa = paint_word(&pa, count, 1);
    const uint64_t wb = paint_word(&pb, count, 2);
    char paintdesc[160];
    snprintf(paintdesc, sizeof(paintdesc),
             "history=%u paintA=%s:0x%llx paintB=%s:0x%llx heapfill=0x%02x", nh,
             paint_name[pa.sel], (unsigned long long)wa, paint_name[pb.sel],
             (unsigned long long)wb, heapfill);
    vf_desc(rep, "T={%s} %s variant=%u H=[", T.desc, paintdesc, variant);
    for (unsigned i = 0; i < nh; i++) {
        if (hs[i].inplace) {
            const ipstep *s = &hs[i].ip;
            vf_desc(rep, "%sinplace:c%u(", i ? "," : "", s->cs);
            for (unsigned k = 0; k < s->ne; k++) {
                vf_desc(rep, "%s%s%s.%u%s", k ? " " : "",
                        s->e[k].restore ? "R:" : "", edit_name[s->e[k].kind],
                        s->e[k].sub, s->e[k].call ? "!" : "");
            }
            vf_desc(rep, ")");
            continue;
        }
        vf_desc(rep, "%s%s/n=%zu/a%u", i ? "," : "", kind_name[hs[i].t.kind],
                kind_is_scalar(hs[i].t.kind) ? (size_t)hs[i].t.nsv : hs[i].t.n,
                hs[i].amode);
    }
    vf_desc(rep, "]");

    /* counters */
    {
        char cls[64];
        snprintf(cls, sizeof(cls), "target.%s", kind_name[kind]);
        vf_class(cls);
        snprintf(cls, sizeof(cls), "paint.%s", paint_name[pa.sel]);
        vf_class(cls);
        snprintf(cls, sizeof(cls), "paint.%s", paint_name[pb.sel]);
        vf_class(cls);
        snprintf(cls, sizeof(cls), "history.len%u", nh);
        vf_class(cls);
        for (unsigned i = 0; i < nh; i++) {
            if (hs[i].inplace) {
                vf_class("hist.inplace.step");
                continue;
            }
            snprintf(cls, sizeof(cls), "history.api.%s", kind_name[hs[i].t.kind]);
            vf_class(cls);
            if (hs[i].amode) {
                vf_class("history.sameCountAsTarget");
            }
        }
        if (nip) {
            vf_class("hist.inplace.case");
            if (nip < nh) {
                vf_class("hist.inplace.mixedWithOtherSteps");
            }
        }
        if (!kind_is_scalar(kind)) {
            vf_class(T.n <= 300     ? "target.len<=300"
                     : T.n <= 4200  ? "target.len301-4200"
                     : T.n <= 10002 ? "target.len4201-10002"
                                    : "target.len>10002");
        }
    }
    if (nh > 0 && kind_has_state(kind)) {
        uint64_t h = vf_mix(kind, T.p1 | ((uint64_t)T.p2 << 8));
        h = vf_hash_bytes(h, T.v, T.n * sizeof(uint64_t));
        for (unsigned i = 0; i < nh; i++) {
            if (hs[i].inplace) {
                h = vf_mix(h, 0x1b0000u | hs[i].hk | ((uint64_t)hs[i].ip.cs << 8));
                for (unsigned k = 0; k < hs[i].ip.ne; k++) {
                    const ipedit *e = &hs[i].ip.e[k];
                    h = vf_mix(h, e->kind | ((uint64_t)e->sub << 8) |
                                      ((uint64_t)e->call << 16) |
                                      ((uint64_t)e->restore << 17) |
                                      ((uint64_t)e->x << 24) |
                                      ((uint64_t)e->i << 32) |
                                      ((uint64_t)e->j << 48));
                    h = vf_mix(h, e->d);
                }
                continue;
            }
            h = vf_mix(h, hs[i].t.kind | ((uint64_t)hs[i].t.n << 8) |
                              ((uint64_t)hs[i].amode << 40));
        }
        h = vf_mix(h, wa);
        h = vf_mix(h, wb);
        vf_nontrivial(h);
    }

    obs *A = (obs *)calloc(3, sizeof(obs));
    if (!A) {
        abort();
    }
    obs *B = A + 1, *C = A + 2;

    /* in-place steps: the original contents, restored after every step */
    uint64_t *orig = NULL;
    ipctx ic;
    memset(&ic, 0, sizeof(ic));
    ic.rep = rep;
    ic.T = &T;
    ic.A = A;
    ic.paintdesc = paintdesc;
    if (nip) {
        orig = (uint64_t *)malloc((T.n + 1) * sizeof(uint64_t));
        if (!orig) {
            abort();
        }
        memcpy(orig, T.v, (T.n + 1) * sizeof(uint64_t));
        ic.orig = orig;
        for (size_t k = 0; k < T.n; k++) {
            ic.sum0 += T.v[k];
            ic.xor0 ^= T.v[k];
        }
    }
    /* cost: in-place calls are full target executions.  The adaptive targets
     * count distinct values exactly (quadratic) between 2300 and 10000
     * elements: one in-place call in execution (b), no copy oracle. */
    const int costly = T.n > 2300 && (kind == K_ADAPT_AUTO ||
                                      kind == K_ADAPT_FORCED ||
                                      kind == K_ADAPT_ANALYZE);
    const unsigned ip_budget = costly ? 1 : T.n <= 300 ? 12 : T.n <= 4200 ? 4 : 2;

    /* (a) first thing: zeroed stack window, zero heap residue */
    {
        ex x = {A, 1, 0};
        vf_alloc_fill(0);
        heap_residue(0, T.n);
        run_target(&x, &T);
    }
    /* (b) after H, paint A */
    {
        ex xh = {NULL, pa.sel != 2, wa};
        ex x = {B, pa.sel != 2, wa};
        vf_alloc_fill(heapfill);
        heap_residue(heapfill, T.n);
        ic.budget = ip_budget;
        ic.ncall = 0;
        ic.classes = 1;
        ic.observe_first = !costly;
        ic.observe_last = 0;
        run_history(&ic, &xh, hs, nh, -1, last_ip);
        if (!rep->violated) {
            run_target(&x, &T);
        }
    }
    /* (c) after H' (reversed / rotated / shorter prefix), paint B */
    if (!rep->violated) {
        ex xh = {NULL, pb.sel != 2, wb};
        ex x = {C, pb.sel != 2, wb};
        vf_alloc_fill((uint8_t)~heapfill);
        heap_residue((uint8_t)~heapfill, T.n);
        ic.budget = costly ? 0 : ip_budget;
        ic.ncall = 0;
        ic.classes = 0;
        ic.observe_first = 0;
        ic.observe_last = !costly && T.n <= 4200;
        run_history(&ic, &xh, hs, nh, (int)variant, last_ip);
        if (!rep->violated) {
            run_target(&x, &T);
        }
    }
    vf_alloc_fill(-1);

    if (rep->violated) {
        /* reported by the copy oracle of an in-place step */
    } else if (A->dropped || B->dropped || C->dropped) {
        vf_fail(rep, "harness", "internal", "observation table too small");
    } else if (!obs_compare(rep, &T, A, B,
                            "in execution (b) after history H with paint A",
                            paintdesc)) {
        obs_compare(rep, &T, A, C,
                    "in execution (c) after history H' with paint B", paintdesc);
    }
    obs_free(A);
    obs_free(B);
    obs_free(C);
    free(A);
    free(orig);
    for (unsigned i = 0; i < nh; i++) {
        tgt_free(&hs[i].t);
    }
    tgt_free(&T);
}
