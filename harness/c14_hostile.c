/* C14 - length-taking decoders stay inside their declared input.
 *
 * case layout:  entry:1 cap:1 mode:1  then
 *   mode 0 (raw)      the remaining bytes are handed to the decoder verbatim
 *   modes 1-3         [tagged: one biased u64 | others: array descriptor]
 *                     trunc:2, then
 *                       mode 1 (truncate)  nothing more; trunc==0 = every /
 *                                          sampled prefix length, else the
 *                                          prefix lengths p-1,p,p+1
 *                       mode 2 (mutate)    nflip:1 { pos:2 op:1 } x 1..3
 *                       mode 3 (hostile)   field:1 hsel:1 [u64 if hsel%32==31]
 *                                          aux:1
 *                     (modes 2,3: trunc==0 = full length only)
 *   entry % 7: 0 varintTaggedGet  1 varintDictDecode  2 varintDictDecodeInto
 *              3 varintEliasGammaDecodeArray  4 varintEliasDeltaDecodeArray
 *              5 varintBitmapDecode  6 varintRLEGetRunCount
 *   mode byte: bits 0-1 mode, bits 2-4 Elias bit slack in raw mode (declared
 *              bits = 8*len - slack), bits 5-7 array size class
 *   cap: output capacity selector (0 = exactly enough; see pick_cap); for the
 *        bitmap entry (cap & 3) == 3 builds the set with one long AddRange
 *        instead of single adds
 *
 * Every input is an exact-size heap copy (length 0 => 1-byte block, declared
 * length 0), every output an exact-capacity block.
 *
 * oracle: no sanitizer report / crash / timeout (framework); in the `oom`
 * build no single allocation request above 8 MiB + 64*len; nothing written
 * past the output capacity, no count above the capacity; an Elias decoder
 * returns no more values than declared bits (every Elias code has >= 1 bit);
 * on a prefix of an encoding PRODUCED BY THE LIBRARY'S OWN ENCODER a successful
 * decoder returns a correct prefix (arrays: the first values of the input;
 * bitmap: a subset of the encoded set; run counter: no more runs than start
 * inside the prefix); the complete library-produced encoding round-trips;
 * varintTaggedGet returns 0 exactly when n < announced length and otherwise
 * the reference value (the tagged family is the one wire format a property
 * fixes: C04).  Independence from bytes/bits outside the declared input is
 * additionally checked differentially (Elias padding bits in the last byte;
 * in builds without ASan the bytes after the input).
 *
 * What is deliberately NOT assumed (no property fixes the wire format of the
 * array codecs or of the bitmap serialisation, and C08 makes the container
 * unobservable): nothing is parsed out of a payload by the harness in order
 * to judge a result, decoded bitmaps are looked at only through
 * varintBitmapCardinality / the iterator, and a byte string that was not
 * produced by the library's encoder (raw, mutated, hostile) is arbitrary
 * input whatever it looks like: only the crash / over-read / over-write /
 * allocation / termination oracles apply to it.  Format knowledge is used to
 * GENERATE hostile inputs only. */
#define VF_ALLOC_NO_RENAME 1
#include "vf.h"
#include "vf_alloc.h"
#include "vf_arr.h"
#include "vf_ref.h"

#include "varint.h"
#include "varintBitmap.h"
#include "varintDict.h"
#include "varintElias.h"
#include "varintRLE.h"
#include "varintTagged.h"

const char *vf_prop_id = "C14";
const size_t vf_case_maxlen = 200;

enum {
    E_TAGGED,
    E_DICT,
    E_DICTINTO,
    E_GAMMA,
    E_DELTA,
    E_BITMAP,
    E_RLE,
    E_COUNT
};
static const char *const g_ename[E_COUNT] = {
    "tagged", "dictDecode", "dictDecodeInto", "gamma",
    "delta",  "bitmap",     "rleRunCount"};
/* site prefixes (one per entry point) */
static const char *const g_site[E_COUNT] = {
    "tagged",      "dict.decode", "dict.into",   "elias.gamma",
    "elias.delta", "bitmap",      "rle.runcount"};
enum { M_RAW, M_TRUNC, M_MUT, M_HOSTILE };
static const char *const g_mname[4] = {"raw", "truncate", "mutate", "hostile"};

#define ALLOC_LIMIT(len) (((size_t)8 << 20) + 64 * (size_t)(len))

/* per-evaluation class counters are collected here and flushed once per case
 * (vf_class walks a string table; one call per prefix length would dominate
 * the run time and drown the fuzzer's comparison tracing in class names) */
enum {
    K_OUT0, /* rejected / zero */
    K_OUT1, /* accepted / nonzero */
    K_PADBITS,
    K_TRUNCATED,
    K_FULLLENGTH,
    K_FULLVALID,
    K_PADUNKNOWN,
    K_COUNT
};

typedef struct ctx {
    vf_report *rep;
    unsigned entry, mode, capsel, slack, sizecls;
    uint64_t k[K_COUNT];
} ctx;

static void flush_classes(ctx *c) {
    static const char *const fixed[K_COUNT] = {NULL,
                                               NULL,
                                               "elias.padbits.checked",
                                               "input.truncated",
                                               "input.fullLength",
                                               "input.fullValid",
                                               "elias.padbits.unknownBitOrder"};
    int boolish = c->entry == E_TAGGED || c->entry == E_DICT ||
                  c->entry == E_BITMAP;
    for (int i = 0; i < K_COUNT; i++) {
        if (!c->k[i]) {
            continue;
        }
        if (fixed[i]) {
            vf_class_n(fixed[i], c->k[i]);
        } else {
            char cls[64];
            snprintf(cls, sizeof(cls), "%s.%s", g_ename[c->entry],
                     boolish ? (i == K_OUT1 ? "accepted" : "rejected")
                             : (i == K_OUT1 ? "nonzero" : "zero"));
            vf_class_n(cls, c->k[i]);
        }
    }
}

/* what is known about the input when it is an encoding produced by the
 * library's own encoder, or a prefix of one */
typedef struct expect {
    const uint64_t *v; /* original values (dict, Elias) */
    size_t n;
    int full;            /* the complete, unmodified encoding */
    const size_t *marks; /* Elias: bit offset just after code i (sums of
                            varintElias*Bits); RLE: byte offset at which run i
                            starts (walk with varintRLEDecodeRun) */
    size_t nmarks;
    const uint8_t *set; /* bitmap: the encoded set as a 65536-bit vector, read
                           from the source object through the iterator */
    uint32_t setcard;
} expect;

typedef struct outcome {
    int null;
    size_t ret;
    uint64_t h;
} outcome;

static void site(char *b, size_t n, const ctx *c, const char *what) {
    snprintf(b, n, "%s.%s", g_site[c->entry], what);
}

static void hexhead(char *b, size_t n, const uint8_t *p, size_t len) {
    size_t k = 0;
    b[0] = 0;
    for (size_t i = 0; i < len && i < 20 && k + 3 < n; i++) {
        k += (size_t)snprintf(b + k, n - k, "%02x", p[i]);
    }
    if (len > 20 && k + 4 < n) {
        snprintf(b + k, n - k, "...");
    }
}

#define FAIL(c, what, kind, ...)                                               \
    do {                                                                       \
        char _s[64];                                                           \
        site(_s, sizeof(_s), (c), (what));                                     \
        vf_fail((c)->rep, _s, (kind), __VA_ARGS__);                            \
    } while (0)

/* announced length of a tagged varint from its first byte, per the format
 * description in varintTagged.c (A0 <= 240: 1; 241..248: 2; 249: 3;
 * 250..255: A0 - 246) */
static unsigned tagged_announced(uint8_t a0) {
    if (a0 <= 240) {
        return 1;
    }
    if (a0 <= 248) {
        return 2;
    }
    return (unsigned)a0 - 246;
}

static size_t count_le(const size_t *m, size_t n, size_t x) {
    /* number of marks <= x (marks ascending) */
    size_t lo = 0, hi = n;
    while (lo < hi) {
        size_t mid = lo + (hi - lo) / 2;
        if (m[mid] <= x) {
            lo = mid + 1;
        } else {
            hi = mid;
        }
    }
    return lo;
}

/* members of a bitmap object as seen through the public iterator (bounded:
 * a set of 16-bit values has at most 65536 members).  0 = the iteration is
 * not strictly ascending or does not end */
static int bm_members(const varintBitmap *vb, uint8_t *bits /* 8192 */,
                      uint32_t *count, char *why, size_t whyn) {
    memset(bits, 0, 8192);
    varintBitmapIterator it = varintBitmapCreateIterator(vb);
    int64_t prev = -1;
    uint32_t cnt = 0;
    while (varintBitmapIteratorNext(&it)) {
        if (++cnt > 65536) {
            snprintf(why, whyn, "the iterator yields more than 65536 values");
            return 0;
        }
        if ((int64_t)it.currentValue <= prev) {
            snprintf(why, whyn, "the iterator yields %u after %lld",
                     it.currentValue, (long long)prev);
            return 0;
        }
        prev = it.currentValue;
        bits[it.currentValue >> 3] |= (uint8_t)(1u << (it.currentValue & 7));
    }
    *count = cnt;
    return 1;
}

/* which bits of a stream's last byte lie behind k (1..7) used bits of that
 * byte.  Asked from the library's own bit writer (k one-bits written after one
 * full byte) instead of assuming a bit order; 0 = no usable answer */
static uint8_t pad_mask(unsigned k) {
    static uint8_t mask[8];
    static int have;
    if (!have) {
        for (unsigned j = 1; j < 8; j++) {
            uint8_t b[32];
            varintBitWriter w;
            memset(b, 0, sizeof(b));
            varintBitWriterInit(&w, b, sizeof(b));
            for (unsigned i = 0; i < 8 + j; i++) {
                varintBitWriterWrite(&w, 1, 1);
            }
            int ok = b[0] == 0xff &&
                     (unsigned)__builtin_popcount(b[1]) == j;
            for (size_t i = 2; i < sizeof(b); i++) {
                ok = ok && b[i] == 0;
            }
            mask[j] = ok ? (uint8_t)~b[1] : 0;
        }
        have = 1;
    }
    return mask[k & 7];
}

static int alloc_check(ctx *c, size_t len) {
    if (!vf_alloc_active()) {
        return 0;
    }
    size_t m = vf_alloc_max_request();
    if (m > ALLOC_LIMIT(len)) {
        FAIL(c, "alloc", "alloc",
             "%s asked for a single allocation of %zu bytes (%llu requests, "
             "last at %s) for a %zu-byte input; limit 8 MiB + 64*len = %zu",
             g_ename[c->entry], m, (unsigned long long)vf_alloc_count(),
             vf_alloc_site(vf_alloc_count()), len, ALLOC_LIMIT(len));
        return 1;
    }
    return 0;
}

/* one call of the decoder under test on `in` (declared length len bytes /
 * bits bits, output capacity cap) with every per-call oracle */
static int run_decoder(ctx *c, const uint8_t *in, size_t len, size_t bits,
                       size_t cap, const expect *e, outcome *oc) {
    char hx[64];
    oc->null = 0;
    oc->ret = 0;
    oc->h = 0;
    switch (c->entry) {
    case E_TAGGED: {
        uint64_t out = 0x5a5a5a5a5a5a5a5aULL;
        unsigned w = varintTaggedGet(in, (int32_t)len, &out);
        oc->ret = w;
        if (len >= 1 && len >= tagged_announced(in[0])) {
            uint64_t refv = 0;
            unsigned ann = vf_ref_decode(VF_TAGGED, in, 0, &refv);
            if (w != ann) {
                hexhead(hx, sizeof(hx), in, len);
                FAIL(c, "get", "length",
                     "varintTaggedGet(z=%s, n=%zu) returned %u, announced "
                     "length is %u",
                     hx, len, w, ann);
                return 1;
            }
            if (out != refv) {
                hexhead(hx, sizeof(hx), in, len);
                FAIL(c, "get", "value",
                     "varintTaggedGet(z=%s, n=%zu) = %llu, reference %llu", hx,
                     len, (unsigned long long)out, (unsigned long long)refv);
                return 1;
            }
            oc->h = out;
        } else if (w != 0) {
            hexhead(hx, sizeof(hx), in, len);
            FAIL(c, "short", "length",
                 "varintTaggedGet(z=%s, n=%zu) returned %u although n is below "
                 "the announced length %u",
                 hx, len, w, len ? tagged_announced(in[0]) : 0);
            return 1;
        }
        return 0;
    }
    case E_DICT: {
        size_t cnt = 0x5a5a5a5a;
        vf_alloc_reset();
        uint64_t *out = varintDictDecode(in, len, &cnt);
        int bad = alloc_check(c, len);
        oc->null = out == NULL;
        if (out && !bad) {
            oc->ret = cnt;
            /* how many values a given number of bytes can carry is a matter
             * of the (unfixed) dictionary layout: no count/len bound here.  A
             * count the input cannot back shows as an over-read (redzone /
             * tail differential) or as an oversized allocation */
            if (e && e->v) {
                if (cnt > e->n) {
                    FAIL(c, "prefix", "count",
                         "prefix of %zu bytes of a valid encoding of %zu values "
                         "decoded to %zu values",
                         len, e->n, cnt);
                    bad = 1;
                }
                for (size_t i = 0; i < cnt && !bad; i++) {
                    if (out[i] != e->v[i]) {
                        FAIL(c, "prefix", "value",
                             "prefix of %zu bytes of a valid encoding: value "
                             "%zu of %zu decoded as %llu, original %llu",
                             len, i, cnt, (unsigned long long)out[i],
                             (unsigned long long)e->v[i]);
                        bad = 1;
                    }
                }
                if (!bad && e->full && cnt != e->n) {
                    FAIL(c, "full", "roundtrip",
                         "complete valid encoding of %zu values decoded to %zu",
                         e->n, cnt);
                    bad = 1;
                }
            }
            if (!bad) {
                oc->h = vf_hash_bytes(cnt, out, cnt * sizeof(uint64_t));
            }
        } else if (!out && !bad && e && e->full) {
            FAIL(c, "full", "roundtrip",
                 "complete valid encoding (%zu bytes, %zu values) rejected", len,
                 e->n);
            bad = 1;
        }
        if (out) {
            vf_lib_free(out);
        }
        return bad;
    }
    case E_DICTINTO:
    case E_GAMMA:
    case E_DELTA: {
        uint64_t *out = (uint64_t *)vf_exact_alloc(cap * sizeof(uint64_t));
        if (cap) {
            memset(out, 0xEE, cap * sizeof(uint64_t));
        }
        size_t r;
        size_t unit; /* declared input in the unit that bounds the count */
        vf_alloc_reset();
        if (c->entry == E_DICTINTO) {
            r = varintDictDecodeInto(in, len, out, cap);
            unit = len;
        } else if (c->entry == E_GAMMA) {
            r = varintEliasGammaDecodeArray(in, bits, out, cap);
            unit = bits;
        } else {
            r = varintEliasDeltaDecodeArray(in, bits, out, cap);
            unit = bits;
        }
        int bad = alloc_check(c, len);
        oc->ret = r;
        if (!bad && vf_exact_check(out)) {
            FAIL(c, "write", "canary",
                 "%s wrote past an output of capacity %zu (input %zu bytes)",
                 g_ename[c->entry], cap, len);
            bad = 1;
        }
        if (!bad && r > cap) {
            FAIL(c, "write", "capacity",
                 "%s returned %zu with output capacity %zu", g_ename[c->entry],
                 r, cap);
            bad = 1;
        }
        /* Elias gamma / delta are defined codes, not a layout choice: every
         * code has at least one bit, so more values than declared bits means
         * bits outside the declared input were consumed.  (No such bound for
         * the dictionary decoder: values per byte is a layout matter.) */
        if (!bad && c->entry != E_DICTINTO && r > unit) {
            hexhead(hx, sizeof(hx), in, len);
            FAIL(c, "count", "bound",
                 "%s(%s) returned %zu values from a declared input of %zu bits",
                 g_ename[c->entry], hx, r, unit);
            bad = 1;
        }
        if (!bad && e && e->v) {
            size_t most = e->n;
            if (c->entry != E_DICTINTO) {
                most = count_le(e->marks, e->nmarks, bits);
            }
            if (r > most) {
                FAIL(c, "prefix", "count",
                     "%s: %zu values returned, but only %zu codes of the valid "
                     "encoding lie inside the declared %zu %s",
                     g_ename[c->entry], r, most, unit,
                     c->entry == E_DICTINTO ? "bytes" : "bits");
                bad = 1;
            }
            for (size_t i = 0; i < r && !bad; i++) {
                if (out[i] != e->v[i]) {
                    FAIL(c, "prefix", "value",
                         "%s on a prefix (%zu %s, capacity %zu): value %zu of "
                         "%zu decoded as %llu, original %llu",
                         g_ename[c->entry], unit,
                         c->entry == E_DICTINTO ? "bytes" : "bits", cap, i, r,
                         (unsigned long long)out[i],
                         (unsigned long long)e->v[i]);
                    bad = 1;
                }
            }
            if (!bad && e->full) {
                /* capacity below the count: Elias stops at the capacity; what
                 * the dictionary decoder does then is C13's subject */
                size_t want = cap < e->n ? cap : e->n;
                if (r != want && !(c->entry == E_DICTINTO && cap < e->n)) {
                    FAIL(c, "full", "roundtrip",
                         "%s on the complete valid encoding of %zu values with "
                         "capacity %zu returned %zu, expected %zu",
                         g_ename[c->entry], e->n, cap, r, want);
                    bad = 1;
                }
            }
        }
        if (!bad) {
            oc->h = vf_hash_bytes(r, out, (r <= cap ? r : 0) * sizeof(uint64_t));
        }
        vf_exact_free(out);
        return bad;
    }
    case E_BITMAP: {
        vf_alloc_reset();
        varintBitmap *vb = varintBitmapDecode(in, len);
        int bad = alloc_check(c, len);
        oc->null = vb == NULL;
        if (vb && !bad) {
            /* the object is looked at through the public API only; which
             * container it uses, and which wire form it came from, is not
             * observable (C08) */
            uint32_t card = varintBitmapCardinality(vb);
            oc->ret = card;
            if (e && e->set) {
                /* (a prefix of) what varintBitmapEncode wrote for a set built
                 * through the API: the complete encoding gives the set back, a
                 * shorter input that is accepted all the same gives a short
                 * result, i.e. no member the set does not have */
                uint8_t *got = (uint8_t *)malloc(8192);
                uint32_t cnt = 0;
                char why[96];
                if (!got) {
                    abort();
                }
                if (!bm_members(vb, got, &cnt, why, sizeof(why))) {
                    FAIL(c, e->full ? "full" : "prefix", "value",
                         "decode of %zu of %s bytes that varintBitmapEncode "
                         "wrote for a set of %u members: %s",
                         len, e->full ? "all" : "the", e->setcard, why);
                    bad = 1;
                } else if (cnt != card) {
                    FAIL(c, e->full ? "full" : "prefix", "value",
                         "decode of %zu of %s bytes that varintBitmapEncode "
                         "wrote for a set of %u members: cardinality %u, "
                         "iteration yields %u values",
                         len, e->full ? "all" : "the", e->setcard, card, cnt);
                    bad = 1;
                } else {
                    int extra = -1, missing = -1;
                    for (uint32_t i = 0; i < 8192 && (extra < 0 || missing < 0);
                         i++) {
                        uint8_t x = (uint8_t)(got[i] & ~e->set[i]);
                        uint8_t m = (uint8_t)(e->set[i] & ~got[i]);
                        if (x && extra < 0) {
                            extra = (int)(i * 8 + (uint32_t)__builtin_ctz(x));
                        }
                        if (m && missing < 0) {
                            missing = (int)(i * 8 + (uint32_t)__builtin_ctz(m));
                        }
                    }
                    if (extra >= 0) {
                        FAIL(c, e->full ? "full" : "prefix",
                             e->full ? "roundtrip" : "value",
                             "decode of %zu of %s bytes that varintBitmapEncode "
                             "wrote for a set of %u members gave %u members, "
                             "among them %d, which the set does not contain",
                             len, e->full ? "all" : "the", e->setcard, card,
                             extra);
                        bad = 1;
                    } else if (e->full && missing >= 0) {
                        FAIL(c, "full", "roundtrip",
                             "the complete encoding (%zu bytes) of a set of %u "
                             "members decodes to %u members; %d is missing",
                             len, e->setcard, card, missing);
                        bad = 1;
                    }
                }
                if (!bad) {
                    oc->h = vf_hash_bytes(card, got, 8192);
                }
                free(got);
            }
            /* anything else is arbitrary input: whatever object the decoder
             * made of it is fine, and nothing beyond its cardinality is asked
             * of it (members of an object decoded from malformed bytes are
             * nobody's property) */
        } else if (!vb && !bad && e && e->full) {
            FAIL(c, "full", "roundtrip",
                 "complete bitmap encoding (%zu bytes, written by "
                 "varintBitmapEncode for a set of %u members) rejected",
                 len, e->setcard);
            bad = 1;
        }
        if (vb) {
            varintBitmapFree(vb);
        }
        return bad;
    }
    default: { /* E_RLE */
        size_t r = varintRLEGetRunCount(in, len);
        oc->ret = r;
        /* (bytes per run are a layout matter: no count/len bound) */
        if (e && e->marks) {
            /* runs that start inside the prefix, run boundaries as the
             * library's own single-run decoder walks them */
            size_t most = len ? count_le(e->marks, e->nmarks, len - 1) : 0;
            if (r > most) {
                FAIL(c, "prefix", "count",
                     "%zu runs counted in a %zu-byte prefix of an encoding "
                     "written by varintRLEEncode in which only %zu runs start "
                     "inside the prefix",
                     r, len, most);
                return 1;
            }
            if (e->full && r != e->nmarks) {
                FAIL(c, "full", "roundtrip",
                     "complete encoding of %zu runs (encoder's meta and a walk "
                     "with varintRLEDecodeRun agree): %zu counted",
                     e->nmarks, r);
                return 1;
            }
        }
        return 0;
    }
    }
}

static int same(const outcome *a, const outcome *b) {
    return a->null == b->null && a->ret == b->ret && a->h == b->h;
}

/* evaluate one (bytes, declared length) input: exact-size copy, plus the
 * differential variants */
static int eval_input(ctx *c, const uint8_t *bytes, size_t len, size_t bits,
                      size_t cap, const expect *e) {
    outcome o0;
    uint8_t *in = (uint8_t *)vf_exact_alloc(len);
    if (len) {
        memcpy(in, bytes, len);
    }
    int bad = run_decoder(c, in, len, bits, cap, e, &o0);
    if (!bad && vf_exact_check(in)) {
        FAIL(c, "input", "canary", "%s wrote behind its %zu-byte input",
             g_ename[c->entry], len);
        bad = 1;
    }
    if (!bad && len && memcmp(in, bytes, len) != 0) {
        FAIL(c, "input", "value", "%s modified its %zu-byte input",
             g_ename[c->entry], len);
        bad = 1;
    }
    vf_exact_free(in);
    if (bad) {
        return 1;
    }
    c->k[(c->entry == E_DICT || c->entry == E_BITMAP) ? !o0.null
                                                       : o0.ret != 0]++;
    /* Elias: bits of the last byte after the declared bit count are outside
     * the input; the result must not depend on them */
    uint8_t pm = 0;
    if ((c->entry == E_GAMMA || c->entry == E_DELTA) && (bits & 7) && len) {
        pm = pad_mask((unsigned)(bits & 7));
        if (!pm) {
            c->k[K_PADUNKNOWN]++;
        }
    }
    if (pm) {
        outcome o1;
        in = (uint8_t *)vf_exact_alloc(len);
        memcpy(in, bytes, len);
        in[len - 1] ^= pm;
        bad = run_decoder(c, in, len, bits, cap, e, &o1);
        vf_exact_free(in);
        if (bad) {
            return 1;
        }
        c->k[K_PADBITS]++;
        if (!same(&o0, &o1)) {
            char hx[64];
            hexhead(hx, sizeof(hx), bytes, len);
            FAIL(c, "padbits", "bound",
                 "%s(%s, %zu bits, capacity %zu) returns %zu values, but %zu "
                 "(or other values) when the %zu bits after the declared bit "
                 "count are inverted",
                 g_ename[c->entry], hx, bits, cap, o0.ret, o1.ret,
                 8 - (bits & 7));
            return 1;
        }
    }
    /* without ASan the redzone is not an oracle: compare the result under two
     * different fillings of the bytes that follow the input */
    if (!vf_have_asan()) {
        for (int k = 0; k < 2; k++) {
            outcome o2;
            uint8_t *b = (uint8_t *)malloc(len + 64);
            if (!b) {
                abort();
            }
            if (len) {
                memcpy(b, bytes, len);
            }
            memset(b + len, k ? 0xff : 0x00, 64);
            bad = run_decoder(c, b, len, bits, cap, e, &o2);
            free(b);
            if (bad) {
                return 1;
            }
            if (!same(&o0, &o2)) {
                char hx[64];
                hexhead(hx, sizeof(hx), bytes, len);
                FAIL(c, "tail", "bound",
                     "%s(%s, len=%zu, capacity %zu): result depends on the "
                     "bytes after the declared input (returns %zu%s, but %zu%s "
                     "when they are 0x%02x%s)",
                     g_ename[c->entry], hx, len, cap, o0.ret,
                     o0.null ? " (NULL)" : "", o2.ret, o2.null ? " (NULL)" : "",
                     k ? 0xff : 0x00,
                     o0.ret == o2.ret && o0.null == o2.null
                         ? "; same count, different values"
                         : "");
                return 1;
            }
        }
    }
    return 0;
}

static size_t pick_cap(unsigned capsel, size_t count) {
    switch (capsel) {
    case 0:
        return count;
    case 1:
        return 0;
    case 2:
        return 1;
    case 3:
        return count ? count - 1 : 0;
    case 4:
        return count / 2;
    case 5:
        return 127;
    case 6:
        return 128;
    case 7:
        return 129;
    case 8:
        return count + 1;
    case 9:
        return count + 64;
    default:
        return (size_t)(((uint64_t)capsel * (count + 1)) / 256);
    }
}

static void cap_class(const ctx *c, size_t cap, size_t count) {
    if (c->entry != E_DICTINTO && c->entry != E_GAMMA && c->entry != E_DELTA) {
        return;
    }
    vf_class(cap == 0        ? "cap.zero"
             : cap < count   ? "cap.below"
             : cap == count  ? "cap.exact"
                             : "cap.above");
}

/* prefix lengths to evaluate for an encoding of L units */
#define MAXPOS 320
static size_t positions(size_t L, unsigned sel, int allmode, size_t dense,
                        size_t *out) {
    size_t k = 0;
    if (sel == 0) {
        if (!allmode) {
            out[k++] = L;
            return k;
        }
        if (L <= dense) {
            for (size_t i = 0; i <= L; i++) {
                out[k++] = i;
            }
            return k;
        }
        for (size_t i = 0; i <= 16; i++) {
            out[k++] = i;
        }
        for (size_t i = 1; i <= 40; i++) {
            size_t p = (size_t)(((uint64_t)i * L) / 41);
            if (p > 16 && p + 16 < L) {
                out[k++] = p;
            }
        }
        for (size_t i = L - 16; i <= L; i++) {
            out[k++] = i;
        }
        return k;
    }
    size_t p = (size_t)(sel - 1) % (L + 1);
    if (p > 0) {
        out[k++] = p - 1;
    }
    out[k++] = p;
    if (p < L) {
        out[k++] = p + 1;
    }
    return k;
}

/* ------------------------------------------------------- hostile values */
static uint64_t hostile_u64(vf_rd *r, unsigned sel, uint64_t orig, size_t len) {
    uint64_t k = (sel >> 5) + 1; /* 1..8 */
    switch (sel % 32) {
    case 0:
        return 0;
    case 1:
        return 1;
    case 2:
        return orig + 1;
    case 3:
        return orig - 1;
    case 4:
        return 255;
    case 5:
        return 256;
    case 6:
        return 257;
    case 7:
        return 65535;
    case 8:
        return 65536;
    case 9:
        return 65537;
    case 10:
        return 1048575; /* dictionary cap - 1 */
    case 11:
        return 1048576; /* the cap */
    case 12:
        return 1048577;
    case 13:
        return 1ULL << 24;
    case 14:
        return 0xffffffffULL;
    case 15:
        return 1ULL << 32;
    case 16:
        return (1ULL << 32) + k;
    case 17:
        return 1ULL << 61; /* count*8 wraps to 0 */
    case 18:
        return (1ULL << 61) + k;
    case 19:
        return 1ULL << 62;
    case 20:
        return 1ULL << 63; /* count*2 wraps to 0 */
    case 21:
        return (1ULL << 63) + k; /* count*2 == 2k */
    case 22:
        return UINT64_MAX;
    case 23:
        return UINT64_MAX - k; /* ptr + count wraps below end */
    case 24:
        return len;
    case 25:
        return len + 1;
    case 26:
        return 8 * (uint64_t)len;
    case 27:
        return UINT64_MAX / 2 - k; /* width 2: ptr + 2*count wraps */
    case 28:
        return UINT64_MAX / 3 + k; /* width 3 */
    case 29:
        return orig * 2;
    case 30:
        return (uint64_t)len / 2 + k;
    default:
        return vf_u64(r);
    }
}

/* buffer with [off, off+oldw) replaced by nb[0..nw) */
static uint8_t *splice(const uint8_t *buf, size_t len, size_t off, size_t oldw,
                       const uint8_t *nb, size_t nw, size_t *nlen) {
    uint8_t *o = (uint8_t *)malloc(len - oldw + nw + 1);
    if (!o) {
        abort();
    }
    memcpy(o, buf, off);
    memcpy(o + off, nb, nw);
    memcpy(o + off + nw, buf + off + oldw, len - off - oldw);
    *nlen = len - oldw + nw;
    return o;
}

/* --------------------------------------------------- valid encodings */
/* what the library's own encoder wrote for the generated array / set */
typedef struct enc {
    uint8_t *buf;
    size_t cap;  /* bytes allocated for buf (>= len + 32, zero filled behind
                    len: the generator's layout walkers may look there) */
    size_t len;  /* bytes */
    size_t bits; /* Elias: total bits */
    size_t *marks; /* oracle side, from the library (see expect.marks) */
    size_t nmarks;
    uint8_t *set; /* bitmap: members of the source object */
    uint32_t setcard;
    /* generator side only (hostile constructions): RLE value-varint offsets
     * from the presently documented layout [tagged length][tagged value];
     * gen_ok = that walk ended exactly at len */
    size_t *gmarks;
    size_t ngmarks;
    int gen_ok;
} enc;

static void enc_free(enc *x) {
    free(x->buf);
    free(x->marks);
    free(x->gmarks);
    free(x->set);
    memset(x, 0, sizeof(*x));
}

static void enc_alloc(enc *x, size_t cap) {
    x->cap = cap + 32;
    x->buf = (uint8_t *)calloc(x->cap, 1);
    if (!x->buf) {
        abort();
    }
}

/* returns 0 when the case has to be discarded */
static int build_valid(ctx *c, const vf_arr *a, enc *x) {
    size_t n = a->n;
    memset(x, 0, sizeof(*x));
    x->gen_ok = 1;
    switch (c->entry) {
    case E_DICT:
    case E_DICTINTO:
        enc_alloc(x, 40 + 17 * n);
        x->len = varintDictEncode(x->buf, a->v, n);
        if (x->len == 0 || x->len > 40 + 17 * n) {
            vf_discard("dict-encode-failed");
            return 0;
        }
        return 1;
    case E_GAMMA:
    case E_DELTA: {
        int g = c->entry == E_GAMMA;
        size_t maxb =
            g ? varintEliasGammaMaxBytes(n) : varintEliasDeltaMaxBytes(n);
        varintEliasMeta meta;
        memset(&meta, 0, sizeof(meta));
        enc_alloc(x, maxb + 1);
        x->len = g ? varintEliasGammaEncodeArray(x->buf, a->v, n, &meta)
                   : varintEliasDeltaEncodeArray(x->buf, a->v, n, &meta);
        x->bits = meta.totalBits;
        /* bit offset behind each code: the code lengths the library itself
         * reports (they are also the textbook ones), cross-checked against
         * the total the encoder reported */
        x->marks = (size_t *)malloc(n * sizeof(size_t));
        x->nmarks = n;
        size_t acc = 0;
        for (size_t i = 0; i < n; i++) {
            acc += g ? varintEliasGammaBits(a->v[i])
                     : varintEliasDeltaBits(a->v[i]);
            x->marks[i] = acc;
        }
        if (acc != x->bits || x->len != (acc + 7) / 8) {
            /* encoder and its own code lengths disagree: C02/C16 territory */
            vf_discard("elias-bit-count-mismatch");
            return 0;
        }
        return 1;
    }
    case E_BITMAP: {
        varintBitmap *vb = varintBitmapCreate();
        if (!vb) {
            abort();
        }
        /* classes name how the set was built, not the container that holds
         * it (which one does is the library's business) */
        const char *cls = n > 4096 ? "bitmap.valid.large" : "bitmap.valid.small";
        if ((c->capsel & 3) == 3 && a->v[0] + 4097 <= 65535) {
            /* one range of more than 4096 consecutive members */
            uint64_t room = 65535 - 4097 - a->v[0];
            uint64_t max = a->v[0] + 4097 + a->v[n - 1] % (room + 1);
            varintBitmapAddRange(vb, (uint16_t)a->v[0], (uint16_t)max);
            cls = "bitmap.valid.range";
        } else {
            for (size_t i = 0; i < n; i++) {
                varintBitmapAdd(vb, (uint16_t)a->v[i]);
            }
        }
        /* the set that is being serialised, as the public API shows it */
        char why[96];
        x->set = (uint8_t *)malloc(8192);
        if (!x->set) {
            abort();
        }
        if (!bm_members(vb, x->set, &x->setcard, why, sizeof(why)) ||
            x->setcard != varintBitmapCardinality(vb)) {
            /* an inconsistent source object is C08's finding, not ours */
            varintBitmapFree(vb);
            vf_discard("bitmap-source-inconsistent");
            return 0;
        }
        /* generous: no known form of a set of 16-bit values needs more than
         * 8 KiB + a few bytes per member */
        size_t cap = 64 + 2 * VARINT_BITMAP_BITMAP_SIZE + 8 * (size_t)x->setcard;
        enc_alloc(x, cap);
        x->len = varintBitmapEncode(vb, x->buf);
        varintBitmapFree(vb);
        if (x->len == 0 || x->len > cap) {
            vf_discard("bitmap-encode-size");
            return 0;
        }
        vf_class(cls);
        return 1;
    }
    default: { /* E_RLE */
        varintRLEMeta meta;
        memset(&meta, 0, sizeof(meta));
        enc_alloc(x, 32 + 18 * n);
        x->len = varintRLEEncode(x->buf, a->v, n, &meta);
        if (x->len == 0 || x->len > 32 + 18 * n) {
            vf_discard("rle-encode-size");
            return 0;
        }
        /* oracle side: where each run starts, walked with the library's own
         * single-run decoder over the bytes its encoder wrote; must end at
         * len and agree with the run count the encoder reported */
        x->marks = (size_t *)malloc((n + 1) * sizeof(size_t));
        size_t off = 0, runs = 0;
        while (off < x->len && runs < n) {
            size_t rl = 0;
            uint64_t val = 0;
            size_t used = varintRLEDecodeRun(x->buf + off, &rl, &val);
            if (used == 0 || used > x->len - off) {
                break;
            }
            x->marks[runs++] = off;
            off += used;
        }
        x->nmarks = runs;
        if (off != x->len || runs != meta.runCount) {
            vf_discard("rle-walk-mismatch"); /* C02/C16 territory */
            return 0;
        }
        /* generator side: value-varint offsets by the documented layout */
        x->gmarks = (size_t *)malloc(n * sizeof(size_t));
        off = 0;
        runs = 0;
        for (size_t i = 0; i < n;) {
            size_t j = i;
            while (j < n && a->v[j] == a->v[i]) {
                j++;
            }
            off += vf_ref_len(VF_TAGGED, j - i);
            x->gmarks[runs++] = off;
            off += vf_ref_len(VF_TAGGED, a->v[i]);
            i = j;
        }
        x->ngmarks = runs;
        x->gen_ok = off == x->len;
        return 1;
    }
    }
}

/* ------------------------------------------------ hostile constructions */
static unsigned put_tagged(uint8_t *o, uint64_t v) {
    return vf_ref_encode(VF_TAGGED, v, o);
}

/* replaces x->buf by a hostile variant; returns a short label, or NULL when
 * the case was discarded */
static const char *make_hostile(ctx *c, vf_rd *r, enc *x, char *lab,
                                size_t labn) {
    unsigned field = vf_u8(r);
    unsigned hsel = vf_u8(r);
    uint8_t nb[16];
    size_t nlen = 0;
    uint8_t *o = NULL;
    switch (c->entry) {
    case E_DICT:
    case E_DICTINTO: {
        /* walk the presently documented layout [dictSize][entries][count]
         * [indices] to find the fields worth attacking (generator knowledge
         * only; x->buf has 32 zero bytes behind len, so a walk that does not
         * fit a changed layout stays inside the block and is given up) */
        uint64_t D = 0, cnt = 0, tmp;
        size_t off = vf_ref_decode(VF_TAGGED, x->buf, 0, &D);
        size_t w0 = off;
        for (uint64_t i = 0; i < D && off < x->len; i++) {
            off += vf_ref_decode(VF_TAGGED, x->buf + off, 0, &tmp);
        }
        if (off >= x->len) {
            vf_discard("dict-layout-walk");
            return NULL;
        }
        size_t offC = off;
        size_t wC = vf_ref_decode(VF_TAGGED, x->buf + off, 0, &cnt);
        size_t offI = offC + wC;
        if (offI > x->len) {
            vf_discard("dict-layout-walk");
            return NULL;
        }
        unsigned f = field % 4;
        if (f == 0 || f == 3) {
            uint64_t hv = hostile_u64(r, hsel, D, x->len);
            unsigned nw = put_tagged(nb, hv);
            o = splice(x->buf, x->len, 0, w0, nb, nw, &nlen);
            snprintf(lab, labn, "dictSize=%llu(was %llu)",
                     (unsigned long long)hv, (unsigned long long)D);
            if (f == 3) {
                /* and the count as well */
                free(x->buf);
                x->buf = o;
                x->len = nlen;
                offC = offC - w0 + nw;
                uint64_t hv2 = hostile_u64(r, vf_u8(r), cnt, x->len);
                nw = put_tagged(nb, hv2);
                o = splice(x->buf, x->len, offC, wC, nb, nw, &nlen);
                size_t k = strlen(lab);
                snprintf(lab + k, labn - k, " count=%llu",
                         (unsigned long long)hv2);
            }
            vf_class("hostile.dict.dictSize");
        } else if (f == 1) {
            uint64_t hv = hostile_u64(r, hsel, cnt, x->len);
            unsigned nw = put_tagged(nb, hv);
            o = splice(x->buf, x->len, offC, wC, nb, nw, &nlen);
            snprintf(lab, labn, "count=%llu(was %llu,dictSize %llu)",
                     (unsigned long long)hv, (unsigned long long)cnt,
                     (unsigned long long)D);
            vf_class("hostile.dict.count");
        } else {
            /* an index outside the dictionary */
            size_t pos = offI < x->len ? offI + hsel % (x->len - offI)
                                       : x->len - 1;
            nb[0] = 0xff;
            o = splice(x->buf, x->len, pos, 1, nb, 1, &nlen);
            snprintf(lab, labn, "index byte %zu=0xff", pos - offI);
            vf_class("hostile.dict.index");
        }
        break;
    }
    case E_GAMMA:
    case E_DELTA: {
        /* work on a bit vector; j = code at whose start we operate */
        size_t tb = x->bits;
        size_t j = vf_u8(r) % x->nmarks;
        size_t at = j ? x->marks[j - 1] : 0;
        uint8_t *bv = (uint8_t *)malloc(tb + 1400);
        size_t k = 0;
        for (size_t i = 0; i < at; i++) {
            bv[k++] = (x->buf[i / 8] >> (7 - i % 8)) & 1;
        }
        static const uint16_t ztab[9] = {1, 7, 8, 9, 63, 64, 65, 127, 1000};
        static const uint64_t ltab[10] = {64,          65,         66,
                                          100,         128,        1ULL << 16,
                                          1ULL << 32,  1ULL << 63, UINT64_MAX,
                                          (1ULL << 63) + 1};
        unsigned kind = field % 6;
        int keep_rest = 0;
        switch (kind) {
        case 0: /* zero flood inserted before code j, rest kept */
            for (unsigned z = 0; z < ztab[hsel % 9]; z++) {
                bv[k++] = 0;
            }
            keep_rest = 1;
            snprintf(lab, labn, "%u zeros before code %zu", ztab[hsel % 9], j);
            vf_class("hostile.elias.zeroflood");
            break;
        case 1: /* everything from code j on replaced by zeros */
            for (unsigned z = 0; z < ztab[hsel % 9]; z++) {
                bv[k++] = 0;
            }
            snprintf(lab, labn, "%u zeros from code %zu to the end",
                     ztab[hsel % 9], j);
            vf_class("hostile.elias.zerotail");
            break;
        case 2: { /* longest legal prefix, payload cut short */
            unsigned z = 1 + hsel % 63, p = vf_u8(r) % 64;
            for (unsigned i = 0; i < z; i++) {
                bv[k++] = 0;
            }
            bv[k++] = 1;
            for (unsigned i = 0; i < p && i < z; i++) {
                bv[k++] = 1;
            }
            snprintf(lab, labn, "code %zu: %u zeros, 1, %u of %u payload bits",
                     j, z, p < z ? p : z, z);
            vf_class("hostile.elias.shortpayload");
            break;
        }
        case 3: { /* gamma code of a huge number (delta: a length > 64) */
            uint64_t L = ltab[hsel % 10];
            unsigned nbits = 0;
            for (uint64_t t = L; t; t >>= 1) {
                nbits++;
            }
            for (unsigned i = 0; i + 1 < nbits; i++) {
                bv[k++] = 0;
            }
            for (unsigned i = nbits; i-- > 0;) {
                bv[k++] = (L >> i) & 1;
            }
            unsigned p = vf_u8(r) % 80;
            for (unsigned i = 0; i < p; i++) {
                bv[k++] = 1;
            }
            snprintf(lab, labn, "code %zu: gamma(%llu) then %u one bits", j,
                     (unsigned long long)L, p);
            vf_class("hostile.elias.hugelength");
            break;
        }
        case 4: /* flood of one-bit codes (capacity pressure) */
            for (unsigned z = 0; z < ztab[hsel % 9]; z++) {
                bv[k++] = 1;
            }
            snprintf(lab, labn, "%u one bits from code %zu", ztab[hsel % 9], j);
            vf_class("hostile.elias.onesflood");
            break;
        default: { /* 64 zeros (one more than any code may have) */
            unsigned z = 64 + hsel % 3;
            for (unsigned i = 0; i < z; i++) {
                bv[k++] = 0;
            }
            bv[k++] = 1;
            keep_rest = 1;
            snprintf(lab, labn, "%u zeros and a 1 before code %zu", z, j);
            vf_class("hostile.elias.64zeros");
            break;
        }
        }
        if (keep_rest) {
            for (size_t i = at; i < tb; i++) {
                bv[k++] = (x->buf[i / 8] >> (7 - i % 8)) & 1;
            }
        }
        nlen = (k + 7) / 8;
        o = (uint8_t *)calloc(nlen + 1, 1);
        for (size_t i = 0; i < k; i++) {
            if (bv[i]) {
                o[i / 8] |= (uint8_t)(1u << (7 - i % 8));
            }
        }
        free(bv);
        x->bits = k;
        break;
    }
    case E_BITMAP: {
        /* header fields of the presently used wire forms ([type:1]
         * [cardinality:4] then members / bits / [numRuns:4] runs) overwritten
         * in whatever the encoder wrote; at least 9 bytes so that all of them
         * exist (zero filled behind len) */
        unsigned f = field % 4;
        if (x->len < 9) {
            x->len = 9;
        }
        size_t pay = x->len - 5;
        uint32_t card;
        memcpy(&card, x->buf + 1, 4);
        o = splice(x->buf, x->len, 0, 0, nb, 0, &nlen);
        if (f == 0 || f == 3) {
            static const uint8_t ttab[8] = {3, 255, 1, 2, 0, 128, 4, 0x7f};
            uint8_t t = ttab[hsel % 8];
            if (t == x->buf[0]) {
                t = (uint8_t)((t + 1) % 3);
            }
            o[0] = t;
            snprintf(lab, labn, "type=%u(was %u)", t, x->buf[0]);
            vf_class("hostile.bitmap.type");
        }
        if (f == 1 || f == 3) {
            unsigned hs = f == 3 ? vf_u8(r) : hsel;
            uint64_t hv = hostile_u64(r, hs, card, pay / 2);
            uint32_t c32 = (uint32_t)hv;
            if (hv > 0xffffffffULL) {
                c32 = (uint32_t)(hv >> 32) | (uint32_t)hv;
            }
            memcpy(o + 1, &c32, 4);
            size_t k = strlen(lab);
            snprintf(lab + k, labn - k, "%scardinality=%u(was %u,payload %zu)",
                     k ? " " : "", c32, card, pay);
            vf_class("hostile.bitmap.cardinality");
        }
        if (f == 2) {
            /* bytes 5..8: numRuns of a RUNS container (first two members of an
             * ARRAY, first bits of a BITMAP) */
            if (x->len >= 9) {
                uint32_t nr;
                memcpy(&nr, x->buf + 5, 4);
                uint64_t hv = hostile_u64(r, hsel, nr, (x->len - 9) / 4);
                uint32_t n32 = (uint32_t)hv;
                memcpy(o + 5, &n32, 4);
                o[0] = VARINT_BITMAP_RUNS;
                snprintf(lab, labn, "type=2 numRuns=%u(payload %zu)", n32,
                         x->len - 9);
            } else {
                o[0] = VARINT_BITMAP_RUNS;
                snprintf(lab, labn, "type=2 without numRuns");
            }
            vf_class("hostile.bitmap.numRuns");
        }
        break;
    }
    case E_RLE: {
        if (!x->gen_ok || !x->ngmarks) {
            vf_discard("rle-layout-walk");
            return NULL;
        }
        size_t j = vf_u8(r) % x->ngmarks;
        size_t vs = x->gmarks[j]; /* value varint of run j */
        uint64_t rl = 0, val = 0;
        /* run j starts where the previous value ends */
        size_t rs = 0;
        if (j) {
            rs = x->gmarks[j - 1] +
                 vf_ref_decode(VF_TAGGED, x->buf + x->gmarks[j - 1], 0, &val);
        }
        size_t lw = vf_ref_decode(VF_TAGGED, x->buf + rs, 0, &rl);
        size_t vw = vf_ref_decode(VF_TAGGED, x->buf + vs, 0, &val);
        unsigned kind = field % 6;
        switch (kind) {
        case 0: {
            uint64_t hv = hostile_u64(r, hsel, rl, x->len);
            unsigned nw = put_tagged(nb, hv);
            o = splice(x->buf, x->len, rs, lw, nb, nw, &nlen);
            snprintf(lab, labn, "run %zu length=%llu(was %llu)", j,
                     (unsigned long long)hv, (unsigned long long)rl);
            vf_class(hv == 0 ? "hostile.rle.len0" : "hostile.rle.len");
            break;
        }
        case 1: {
            uint64_t hv = hostile_u64(r, hsel, val, x->len);
            unsigned nw = put_tagged(nb, hv);
            o = splice(x->buf, x->len, vs, vw, nb, nw, &nlen);
            snprintf(lab, labn, "run %zu value=%llu", j,
                     (unsigned long long)hv);
            vf_class("hostile.rle.value");
            break;
        }
        case 2: /* ends after the length varint of run j */
            o = splice(x->buf, vs, 0, 0, nb, 0, &nlen);
            snprintf(lab, labn, "ends after the length of run %zu", j);
            vf_class("hostile.rle.lengthonly");
            break;
        case 3: /* ... plus a first value byte announcing 2..9 bytes */
            nb[0] = (uint8_t)(241 + hsel % 15);
            o = splice(x->buf, vs, vs, 0, nb, 1, &nlen);
            snprintf(lab, labn,
                     "ends inside the value of run %zu (first byte 0x%02x)", j,
                     nb[0]);
            vf_class("hostile.rle.valuecut");
            break;
        case 4: /* trailing byte announcing a long run length */
            nb[0] = (uint8_t)(241 + hsel % 15);
            o = splice(x->buf, x->len, x->len, 0, nb, 1, &nlen);
            snprintf(lab, labn, "trailing length byte 0x%02x", nb[0]);
            vf_class("hostile.rle.trailinglen");
            break;
        default: { /* run length 0 with a multi-byte value inserted */
            nb[0] = 0;
            unsigned nw = 1 + put_tagged(nb + 1, hostile_u64(r, hsel, val, 0));
            o = splice(x->buf, x->len, rs, 0, nb, nw, &nlen);
            snprintf(lab, labn, "zero-length run inserted before run %zu", j);
            vf_class("hostile.rle.len0");
            break;
        }
        }
        break;
    }
    default:
        return lab;
    }
    free(x->buf);
    x->buf = o;
    x->len = nlen;
    return lab;
}

/* ---------------------------------------------------------- raw inputs */
/* non-trivial raw input = passes the first header field (computed from the
 * bytes, not from what the library answered) */
static int raw_passes_header(const ctx *c, const uint8_t *b, size_t len,
                             size_t bits) {
    switch (c->entry) {
    case E_TAGGED:
        return len >= 1 && len >= tagged_announced(b[0]);
    case E_DICT:
    case E_DICTINTO: {
        if (len < 1 || len < tagged_announced(b[0])) {
            return 0;
        }
        uint64_t d;
        vf_ref_decode(VF_TAGGED, b, 0, &d);
        return d <= 1048576;
    }
    case E_GAMMA:
    case E_DELTA: {
        size_t z = 0;
        while (z < bits && !((b[z / 8] >> (7 - z % 8)) & 1)) {
            z++;
        }
        return z < 64 && z < bits && z + 1 + z <= bits;
    }
    case E_BITMAP:
        return len >= 5 && b[0] <= 2;
    default:
        return len >= 2 && b[0] != 0 && len > tagged_announced(b[0]);
    }
}

static void run_raw(ctx *c, vf_rd *r) {
    static const uint8_t nothing[1] = {0};
    size_t len = vf_left(r);
    const uint8_t *b = len ? r->p + r->pos : nothing;
    size_t bits = 0, natural = len;
    if (c->entry == E_GAMMA || c->entry == E_DELTA) {
        bits = len ? 8 * len - c->slack : 0;
        natural = bits;
    }
    size_t cap = pick_cap(c->capsel, natural);
    cap_class(c, cap, natural);
    char hx[64];
    hexhead(hx, sizeof(hx), b, len);
    vf_desc(c->rep, " len=%zu%s bytes=%s", len,
            bits & 7 ? " (slack bits)" : "", hx);
    if (c->entry == E_DICTINTO || c->entry == E_GAMMA || c->entry == E_DELTA) {
        vf_desc(c->rep, " capacity=%zu", cap);
    }
    if (len == 0) {
        vf_class("raw.empty");
    }
    if (raw_passes_header(c, b, len, bits)) {
        vf_class("raw.passesHeader");
        vf_nontrivial(vf_hash_bytes(vf_mix(vf_mix(c->entry, cap), bits), b, len));
    }
    eval_input(c, b, len, bits, cap, NULL);
}

/* ------------------------------------------------------------- tagged */
static void run_tagged_structured(ctx *c, vf_rd *r) {
    uint8_t buf[24];
    size_t len;
    uint64_t v = vf_u64(r);
    unsigned trunc = vf_u16(r);
    len = varintTaggedPut64(buf, v);
    vf_desc(c->rep, " v=%llu", (unsigned long long)v);
    if (c->mode == M_MUT) {
        unsigned nf = 1 + vf_u8(r) % 3;
        for (unsigned i = 0; i < nf; i++) {
            size_t pos = vf_u16(r) % len;
            uint8_t op = vf_u8(r);
            buf[pos] ^= (uint8_t)(1u << (op & 7));
        }
        vf_desc(c->rep, " flips=%u", nf);
    } else if (c->mode == M_HOSTILE) {
        unsigned f = vf_u8(r), k = vf_u8(r) % 10;
        buf[0] = (uint8_t)(241 + f % 15);
        for (unsigned i = 1; i <= k; i++) {
            buf[i] = vf_u8(r);
        }
        len = 1 + k;
        vf_desc(c->rep, " first=0x%02x followed by %u bytes", buf[0], k);
    }
    size_t pos[MAXPOS];
    size_t np = positions(len, trunc, 1, 64, pos);
    for (size_t i = 0; i < np && !c->rep->violated; i++) {
        if (i) {
            vf_evals(1);
        }
        vf_nontrivial(vf_hash_bytes(vf_mix(c->entry, pos[i]), buf, pos[i]));
        eval_input(c, buf, pos[i], 0, 0, NULL);
    }
}

/* ------------------------------------------------------ array entries */
static void run_structured(ctx *c, vf_rd *r) {
    vf_arr a;
    enc x;
    size_t maxlen = c->sizecls <= 4 ? 300 : c->sizecls <= 6 ? 4200
                    : vf_tier()     ? 70000
                                    : 12000;
    unsigned flags = 0;
    if (c->entry == E_GAMMA || c->entry == E_DELTA) {
        flags = VF_ARR_GE1;
    } else if (c->entry == E_BITMAP) {
        flags = VF_ARR_STRICT16;
        if (c->sizecls >= 3 && maxlen < 5000) {
            maxlen = 5000;
        }
    }
    vf_take_array(r, &a, maxlen, flags);
    unsigned trunc = vf_u16(r);
    vf_desc(c->rep, " arr{%s}", a.desc);
    {
        char pfx[32];
        snprintf(pfx, sizeof(pfx), "arr.%s", g_ename[c->entry]);
        vf_arr_classes(&a, pfx);
    }
    if (!build_valid(c, &a, &x)) {
        enc_free(&x);
        vf_arr_free(&a);
        return;
    }
    int elias = c->entry == E_GAMMA || c->entry == E_DELTA;
    size_t fullunits = elias ? x.bits : x.len;
    int intact = 1;
    char lab[160] = "";
    if (c->mode == M_MUT) {
        unsigned nf = 1 + vf_u8(r) % 3;
        static const uint8_t htab[8] = {0x00, 0xff, 0x80, 0x7f,
                                        0xf9, 0xfa, 0xf1, 0xf8};
        for (unsigned i = 0; i < nf && x.len; i++) {
            size_t pos = vf_u16(r) % x.len;
            uint8_t op = vf_u8(r);
            switch (op & 3) {
            case 0:
                x.buf[pos] ^= (uint8_t)(1u << ((op >> 2) & 7));
                break;
            case 1:
                x.buf[pos] = htab[(op >> 2) & 7];
                break;
            case 2:
                x.buf[pos]++;
                break;
            default:
                x.buf[pos]--;
                break;
            }
            size_t k = strlen(lab);
            snprintf(lab + k, sizeof(lab) - k, "%s[%zu]=0x%02x", k ? "," : "",
                     pos, x.buf[pos]);
        }
        intact = 0;
        vf_class("mutate.applied");
    } else if (c->mode == M_HOSTILE) {
        if (!make_hostile(c, r, &x, lab, sizeof(lab))) {
            /* the generator's layout walk did not fit what the encoder wrote
             * (discarded and counted) */
            enc_free(&x);
            vf_arr_free(&a);
            return;
        }
        fullunits = elias ? x.bits : x.len;
        intact = 0;
    }
    vf_desc(c->rep, " encoded=%zu %s trunc=%u%s%s", fullunits,
            elias ? "bits" : "bytes", trunc, lab[0] ? " " : "", lab);

    size_t natural = a.n;
    if (c->entry == E_BITMAP) {
        natural = x.setcard;
    }
    size_t cap = pick_cap(c->capsel, natural);
    if (!intact && elias && c->capsel == 0) {
        cap = fullunits; /* hostile bit strings may hold many short codes */
    }
    cap_class(c, cap, natural);
    if (c->entry == E_DICTINTO || elias) {
        vf_desc(c->rep, " capacity=%zu", cap);
    }

    size_t pos[MAXPOS];
    size_t np = positions(fullunits, trunc, c->mode == M_TRUNC,
                          elias ? 256 : 96, pos);
    /* bound the work of one case: long encodings get fewer prefix lengths
     * (evenly thinned, the complete length is kept) */
    {
        size_t budget = elias ? 40000000 : 8000000;
        size_t maxnp = budget / (fullunits + 1);
        if (maxnp < 4) {
            maxnp = 4;
        }
        if (np > maxnp) {
            size_t stride = (np + maxnp - 1) / maxnp, k = 0;
            for (size_t i = (np - 1) % stride; i < np; i += stride) {
                pos[k++] = pos[i];
            }
            np = k;
            vf_class("positions.thinned");
        }
    }
    uint64_t ah = vf_arr_hash(&a);
    for (size_t i = 0; i < np && !c->rep->violated; i++) {
        size_t units = pos[i];
        size_t len = elias ? (units + 7) / 8 : units;
        size_t bits = elias ? units : 0;
        expect e;
        memset(&e, 0, sizeof(e));
        const expect *ep = NULL;
        /* only bytes that the library's own encoder wrote, untouched, carry
         * expectations about what decoding them gives */
        if (intact) {
            e.v = (c->entry == E_BITMAP || c->entry == E_RLE) ? NULL : a.v;
            e.n = a.n;
            e.full = units == fullunits;
            e.marks = x.marks;
            e.nmarks = x.nmarks;
            e.set = x.set;
            e.setcard = x.setcard;
            ep = &e;
        }
        if (i) {
            vf_evals(1);
        }
        if (!intact || units < fullunits) {
            vf_nontrivial(vf_mix(
                vf_mix(vf_mix(vf_mix(ah, c->entry), units), cap),
                intact ? 0 : vf_hash_bytes(c->mode, x.buf, x.len)));
            c->k[units < fullunits ? K_TRUNCATED : K_FULLLENGTH]++;
        } else {
            c->k[K_FULLVALID]++;
        }
        eval_input(c, x.buf, len, bits, cap, ep);
    }
    enc_free(&x);
    vf_arr_free(&a);
}

void vf_run(vf_rd *r, vf_report *rep) {
    ctx c;
    memset(&c, 0, sizeof(c));
    c.rep = rep;
    c.entry = vf_u8(r) % E_COUNT;
    c.capsel = vf_u8(r);
    unsigned mb = vf_u8(r);
    c.mode = mb & 3;
    c.slack = (mb >> 2) & 7;
    c.sizecls = mb >> 5;
    vf_desc(rep, "entry=%s mode=%s cap=%u", g_ename[c.entry], g_mname[c.mode],
            c.capsel);
    {
        char cls[64];
        snprintf(cls, sizeof(cls), "entry.%s", g_ename[c.entry]);
        vf_class(cls);
        snprintf(cls, sizeof(cls), "mode.%s", g_mname[c.mode]);
        vf_class(cls);
        snprintf(cls, sizeof(cls), "%s.%s", g_ename[c.entry], g_mname[c.mode]);
        vf_class(cls);
    }
    if (c.mode == M_RAW) {
        run_raw(&c, r);
    } else if (c.entry == E_TAGGED) {
        run_tagged_structured(&c, r);
    } else {
        run_structured(&c, r);
    }
    flush_classes(&c);
}

/* -------------------------------------------------------------- sweep */
/* deterministic cases: every prefix length and every hostile table value on
 * a few small encodings of each entry point.  Each point is an ordinary case
 * (byte string) run through vf_run_case, so a crash leaves a replayable
 * in-flight case behind. */
static int sweep_case(vf_report *rep, const uint8_t *b, size_t n,
                      uint64_t *count) {
    vf_report r2;
    (*count)++;
    if (vf_run_case(b, n, &r2)) {
        *rep = r2;
        /* name the case so that it can be replayed on its own */
        size_t k = strlen(rep->detail);
        k += (size_t)snprintf(rep->detail + k, sizeof(rep->detail) - k,
                              " [sweep case ");
        for (size_t i = 0; i < n && k + 4 < sizeof(rep->detail); i++) {
            k += (size_t)snprintf(rep->detail + k, sizeof(rep->detail) - k,
                                  "%02x", b[i]);
        }
        if (k + 2 < sizeof(rep->detail)) {
            snprintf(rep->detail + k, sizeof(rep->detail) - k, "]");
        }
        return 1;
    }
    return 0;
}

void vf_sweep(vf_report *rep) {
    /* array descriptors in vf_take_array's byte format (fixed sizes, so the
     * fields that follow stay aligned) */
    static const uint8_t d_one[] = {0, 0, 0, VF_SH_CONST, 2, 5};
    static const uint8_t d_five[] = {0, 4, 0, VF_SH_RAMP_UP, 2, 1, 1, 1};
    static const uint8_t d_runs[] = {0, 11, 0, VF_SH_FEW_UNIQUE, 1, 2, 7,
                                     2, 9,  1, 0, 0, 0};
    static const uint8_t d_257[] = {2, 15, 0, VF_SH_RAMP_UP, 2, 1, 1, 1};
    static const uint8_t d_big[] = {0, 2, 0, VF_SH_RAMP_UP, 6, 0, 0, 0,
                                    0, 0, 0, 0, 0x80, 1, 1};
    /* bitmap (shape forced to strict16: start:2 gapbits:1 seed:4) */
    static const uint8_t b_one[] = {0, 0, 0, 0, 9, 0, 0, 1, 0, 0, 0};
    static const uint8_t b_six[] = {0, 5, 0, 0, 0xf0, 0xff, 3, 1, 0, 0, 0};
    static const uint8_t b_4224[] = {3, 0, 33, 0, 7, 0, 2, 5, 0, 0, 0};
    typedef struct dsc {
        const uint8_t *p;
        size_t n;
        unsigned sizecls;
    } dsc;
    static const dsc generic[] = {{d_one, sizeof(d_one), 0},
                                  {d_five, sizeof(d_five), 0},
                                  {d_runs, sizeof(d_runs), 0},
                                  {d_257, sizeof(d_257), 0},
                                  {d_big, sizeof(d_big), 0}};
    static const dsc bitmap[] = {{b_one, sizeof(b_one), 0},
                                 {b_six, sizeof(b_six), 0},
                                 {b_4224, sizeof(b_4224), 3}};
    static const uint8_t caps[] = {0, 3, 8, 1};
    uint8_t b[64];
    uint64_t count = 0;
    /* tagged: every first byte class x every following length, every n */
    for (unsigned f = 0; f < 15; f++) {
        for (unsigned k = 0; k < 10; k++) {
            size_t n = 0;
            b[n++] = E_TAGGED;
            b[n++] = 0;
            b[n++] = M_HOSTILE;
            b[n++] = 0; /* value selector: boundary table entry 0 */
            b[n++] = 0;
            b[n++] = 0;
            b[n++] = 0; /* trunc = every prefix */
            b[n++] = 0;
            b[n++] = (uint8_t)f;
            b[n++] = (uint8_t)k;
            for (unsigned i = 0; i < k; i++) {
                b[n++] = (uint8_t)(0xff - 17 * i);
            }
            if (sweep_case(rep, b, n, &count)) {
                return;
            }
        }
    }
    for (unsigned entry = E_DICT; entry < E_COUNT; entry++) {
        const dsc *descs = entry == E_BITMAP ? bitmap : generic;
        size_t nd = entry == E_BITMAP ? sizeof(bitmap) / sizeof(bitmap[0])
                                      : sizeof(generic) / sizeof(generic[0]);
        for (size_t d = 0; d < nd; d++) {
            /* every prefix of the valid encoding */
            for (size_t ci = 0; ci < sizeof(caps); ci++) {
                size_t n = 0;
                b[n++] = (uint8_t)entry;
                b[n++] = caps[ci];
                b[n++] = (uint8_t)(M_TRUNC | (descs[d].sizecls << 5));
                memcpy(b + n, descs[d].p, descs[d].n);
                n += descs[d].n;
                b[n++] = 0;
                b[n++] = 0;
                if (sweep_case(rep, b, n, &count)) {
                    return;
                }
            }
            /* every (field, hostile value) pair */
            for (unsigned field = 0; field < 6; field++) {
                for (unsigned hs = 0; hs < 32; hs++) {
                    size_t n = 0;
                    b[n++] = (uint8_t)entry;
                    b[n++] = (uint8_t)(entry == E_BITMAP ? (hs & 3)
                                       : (hs & 1)        ? 8
                                                         : 0);
                    b[n++] = (uint8_t)(M_HOSTILE | (descs[d].sizecls << 5));
                    memcpy(b + n, descs[d].p, descs[d].n);
                    n += descs[d].n;
                    b[n++] = 0;
                    b[n++] = 0;
                    b[n++] = (uint8_t)field;
                    b[n++] = (uint8_t)hs;
                    b[n++] = (uint8_t)(hs + field); /* aux / second selector */
                    b[n++] = (uint8_t)(3 * hs + 1);
                    b[n++] = 0;
                    if (sweep_case(rep, b, n, &count)) {
                        return;
                    }
                }
            }
        }
    }
    vf_class_n("sweep.cases", count);
}
