/* C10 - dimension headers round-trip, matrix cells are independent.
 *
 * case layout:  kind:1 then
 *   kind%8 in 0..2  pair headers, up to 8 x { rows_w:1 cols_w:1 sel:1 rows:8
 *                   cols:8 }   (rows_w%9, 1+cols_w%8; sel low/high nibble =
 *                   edge selector for rows/cols inside the width class)
 *   kind%8 == 3     packed pairs, up to 8 x { level:1 sel:1 a:8 b:8 }
 *   kind%8 in 4..5  small real matrix (<= 40 x 300):  R:1 C:2 cell_kind:1 width:1 fill:1
 *                   acc:1, then up to 30 records { op:1 r:1 c:2 value:8 }
 *   kind%8 in 6..7  matrix behind a header drawn from the 9x8 width grid
 *                   (declared shape is huge; only the first rows, or the first
 *                   columns of row 0, exist - or, acc bit 7, the first 2-3
 *                   rows are a sparse mapping addressed in their first and
 *                   last columns):  rows_w:1 cols_w:1 sel:1 rows:8 cols:8
 *                   cell_kind:1 width:1 fill:1 acc:1, then records
 *   record          op:1 (bits 0-1 set/clear/toggle/by value, 2-3 value class,
 *                   4-7 last row / last col / row 0 / col 0)  r:1  c:2 (bit 15:
 *                   high column window of a sparse matrix)  value:8
 *
 * oracles (site names): pair.width / pair.depair / pair.bytelen / pair.encode
 * (widths, announced length, bytes written, little-endian reference reader),
 * packed.support / packed.level / packed.roundtrip, and per cell kind
 * <kind>.set|clear|toggle with kinds readback, location (the cell's own bytes
 * at header + (row*cols+col)*width changed), isolation / header / canary
 * (nothing else in the watched buffer changed), neighbour and scan (reference
 * 2-D array through the library's readers), return (toggle). */
#include "vf.h"

#include "varint.h"
#include "varintDimension.h"

#include <math.h>

const char *vf_prop_id = "C10";
const size_t vf_case_maxlen = 400;

#if defined(__F16C__)
#define HAVE_HALF 1
#else
#define HAVE_HALF 0
#endif

/* ------------------------------------------------------------------ helpers */
/* minimal number of bytes holding v (0 for v == 0) */
static unsigned minw(uint64_t v) {
    unsigned w = 0;
    while (v) {
        w++;
        v >>= 8;
    }
    return w;
}
static uint64_t wlo(unsigned w) {
    return w == 0 ? 0 : w == 1 ? 1 : 1ULL << (8 * (w - 1));
}
static uint64_t whi(unsigned w) {
    return w == 0 ? 0 : w >= 8 ? UINT64_MAX : (1ULL << (8 * w)) - 1;
}
/* a value whose minimal byte width is exactly w, at / near the class edges */
static uint64_t value_of_width(unsigned w, unsigned sel, uint64_t x) {
    uint64_t lo = wlo(w), hi = whi(w);
    if (w == 0) {
        return 0;
    }
    switch (sel & 7) {
    case 0:
        return lo;
    case 1:
        return hi;
    case 2:
        return lo + 1 <= hi ? lo + 1 : hi;
    case 3:
        return hi - 1 >= lo ? hi - 1 : lo;
    case 4:
        /* top byte 0x80, lower bytes from x */
        return (lo << 7) | (x & (lo - 1));
    default:
        return lo + x % (hi - lo + 1);
    }
}
/* reference external reader: w little-endian bytes */
static uint64_t ref_le(const uint8_t *p, unsigned w) {
    uint64_t v = 0;
    for (unsigned i = 0; i < w; i++) {
        v |= (uint64_t)p[i] << (8 * i);
    }
    return v;
}
static unsigned popcount8(uint8_t x) {
    unsigned n = 0;
    while (x) {
        n += x & 1;
        x >>= 1;
    }
    return n;
}

#define U(x) ((unsigned long long)(x))

/* --------------------------------------------------------------- pair header */
#define ARENA 64
#define BASE 20

static int check_header(vf_report *rep, uint64_t rows, uint64_t cols,
                        uint8_t fill) {
    const unsigned rw = minw(rows), cw = minw(cols);
    const varintDimensionPair dim =
        varintDimensionPairDimension((size_t)rows, (size_t)cols);
    const unsigned gr = (unsigned)VARINT_DIMENSION_PAIR_WIDTH_ROW_COUNT(dim);
    const unsigned gc = (unsigned)VARINT_DIMENSION_PAIR_WIDTH_COL_COUNT(dim);
    /* the format supports row widths 0..8 and column widths 1..8; the widths
     * chosen must be able to hold the counts (the property does not ask for
     * the narrowest ones: a header that rounds a width up decodes to the same
     * pair and occupies exactly what it announces) */
    if (gr < rw || gc < cw || gr > 8 || gc < 1 || gc > 8) {
        return vf_fail(rep, "pair.width", "value",
                       "rows=%llu cols=%llu: dimension 0x%02x decodes to "
                       "widths (%u,%u); the counts need at least (%u,%u) bytes "
                       "and the format has 0..8 / 1..8",
                       U(rows), U(cols), (unsigned)dim, gr, gc, rw, cw);
    }
    vf_class(gr == rw && gc == cw ? "hdr.widths.minimal" : "hdr.widths.wider");
    {
        varintWidth dr = 0, dc = 0;
        VARINT_DIMENSION_PAIR_DEPAIR(dr, dc, dim);
        if ((unsigned)dr != gr || (unsigned)dc != gc) {
            return vf_fail(rep, "pair.depair", "value",
                           "rows=%llu cols=%llu: DEPAIR(0x%02x) = (%u,%u), "
                           "the width accessors say (%u,%u)",
                           U(rows), U(cols), (unsigned)dim, (unsigned)dr,
                           (unsigned)dc, gr, gc);
        }
    }
    const unsigned announced = (unsigned)VARINT_DIMENSION_PAIR_BYTE_LENGTH(dim);
    if (announced != gr + gc) {
        return vf_fail(rep, "pair.bytelen", "length",
                       "rows=%llu cols=%llu: BYTE_LENGTH(0x%02x) = %u, "
                       "expected %u + %u",
                       U(rows), U(cols), (unsigned)dim, announced, gr, gc);
    }
    /* encode twice over complementary backgrounds: the union of the bytes
     * that differ from the background is exactly the set of bytes written */
    uint8_t arena[2][ARENA];
    int first = ARENA, last = -1;
    for (int pass = 0; pass < 2; pass++) {
        const uint8_t f = pass ? (uint8_t)~fill : fill;
        memset(arena[pass], f, ARENA);
        const varintDimensionPair d2 = varintDimensionPairEncode(
            arena[pass] + BASE, (size_t)rows, (size_t)cols);
        if (d2 != dim) {
            return vf_fail(rep, "pair.encode", "value",
                           "rows=%llu cols=%llu: PairEncode returned 0x%02x, "
                           "PairDimension 0x%02x",
                           U(rows), U(cols), (unsigned)d2, (unsigned)dim);
        }
        for (int i = 0; i < ARENA; i++) {
            if (arena[pass][i] != f) {
                if (i < first) {
                    first = i;
                }
                if (i > last) {
                    last = i;
                }
            }
        }
    }
    if (first != BASE || last != (int)(BASE + announced) - 1) {
        return vf_fail(rep, "pair.encode", "extent",
                       "rows=%llu cols=%llu: encoder wrote bytes [%d,%d) "
                       "relative to dst, announced header length %u",
                       U(rows), U(cols), first - BASE, last + 1 - BASE,
                       announced);
    }
    for (int pass = 0; pass < 2; pass++) {
        const uint8_t *h = arena[pass] + BASE;
        const uint64_t r2 = gr ? ref_le(h, gr) : 0;
        const uint64_t c2 = ref_le(h + gr, gc);
        if (r2 != rows || c2 != cols) {
            return vf_fail(rep, "pair.encode", "bytes",
                           "rows=%llu cols=%llu: header bytes read back with "
                           "the little-endian external reader as (%llu,%llu)",
                           U(rows), U(cols), U(r2), U(c2));
        }
    }
    return 0;
}

/* --------------------------------------------------------------- packed pair */
static unsigned nibbles(uint64_t v) {
    unsigned n = 1;
    while (v >> 4) {
        n++;
        v >>= 4;
    }
    return n;
}

static int check_packed(vf_report *rep, uint64_t row, uint64_t col) {
    const uint64_t mx = row > col ? row : col;
    const bool want = mx < (1ULL << 32);
    uint64_t packed = 0x5a5a5a5a5a5a5a5aULL;
    varintDimensionPacked d = (varintDimensionPacked)0;
    const bool ok = varintDimensionPack((size_t)row, (size_t)col, &packed, &d);
    if (ok != want) {
        return vf_fail(rep, "packed.support", "value",
                       "Pack(%llu,%llu) returned %s; pairs are supported "
                       "exactly when max(row,col) < 2^32",
                       U(row), U(col), ok ? "true" : "false");
    }
    if (!ok) {
        return 0;
    }
    /* the level must be one of the supported ones (1..8) and wide enough for
     * the larger coordinate; the narrowest level is what the pinned code
     * picks, but a wider one unpacks to the same pair */
    const unsigned lvl = nibbles(mx);
    if ((unsigned)d < lvl || (unsigned)d > 8) {
        return vf_fail(rep, "packed.level", "value",
                       "Pack(%llu,%llu) chose level %u; the max coordinate "
                       "%llu needs level %u and levels above 8 are unsupported",
                       U(row), U(col), (unsigned)d, U(mx), lvl);
    }
    vf_class((unsigned)d == lvl ? "packed.level.minimal" : "packed.level.wider");
    size_t r2 = ~(size_t)row, c2 = ~(size_t)col;
    varintDimensionUnpack(&r2, &c2, packed, d);
    if (r2 != row || c2 != col) {
        return vf_fail(rep, "packed.roundtrip", "value",
                       "Pack(%llu,%llu) = 0x%llx level %u unpacks to "
                       "(%llu,%llu)",
                       U(row), U(col), U(packed), (unsigned)d, U(r2), U(c2));
    }
    uint64_t r3 = ~row, c3 = ~col;
    varintDimensionUnpack_(r3, c3, packed, d);
    if (r3 != row || c3 != col) {
        return vf_fail(rep, "packed.roundtrip", "value",
                       "Pack(%llu,%llu) = 0x%llx level %u: Unpack_ macro gives "
                       "(%llu,%llu)",
                       U(row), U(col), U(packed), (unsigned)d, U(r3), U(c3));
    }
    /* the macro is also used with the narrowest destinations that can hold
     * the coordinates (a supported pair has coordinates < 2^32) */
    if (row <= UINT32_MAX && col <= UINT32_MAX) {
        uint32_t r4 = ~(uint32_t)row, c4 = ~(uint32_t)col;
        varintDimensionUnpack_(r4, c4, packed, d);
        if (r4 != row || c4 != col) {
            return vf_fail(rep, "packed.roundtrip", "value",
                           "Pack(%llu,%llu) = 0x%llx level %u: Unpack_ macro "
                           "into uint32_t gives (%u,%u)",
                           U(row), U(col), U(packed), (unsigned)d, r4, c4);
        }
    }
    if (row <= UINT16_MAX && col <= UINT16_MAX) {
        uint16_t r5 = (uint16_t)~row, c5 = (uint16_t)~col;
        varintDimensionUnpack_(r5, c5, packed, d);
        if (r5 != row || c5 != col) {
            return vf_fail(rep, "packed.roundtrip", "value",
                           "Pack(%llu,%llu) = 0x%llx level %u: Unpack_ macro "
                           "into uint16_t gives (%u,%u)",
                           U(row), U(col), U(packed), (unsigned)d, r5, c5);
        }
    }
    return 0;
}

/* -------------------------------------------------------------------- matrix */
/* Three ways a matrix exists in memory:
 *   dense   the whole declared matrix (<= 40 x 300), exact allocation;
 *   prefix  the declared column count is too large to allocate: only the
 *           first Ca cells of row 0 exist (exact allocation), or the declared
 *           row count is large and only the first 40 rows exist;
 *   sparse  the first (up to 3) rows of a matrix with a huge column count are
 *           a MAP_NORESERVE mapping of which only the pages of the header and
 *           of two column windows per row (first Ca and last Ca columns) are
 *           ever touched; those pages are the watched buffer. */
#include <sys/mman.h>

typedef enum { K_BIT = 0, K_UNS, K_F32, K_F64, K_F16, K_COUNT } ckind;
static const char *const kname[K_COUNT] = {"bit", "unsigned", "float",
                                           "double", "half"};

#define PAGE 4096u
#define MAXSPAN 8
#define SPARSE_CAP (1ULL << 38) /* bytes of address space per sparse matrix */

typedef struct span {
    size_t off, len; /* watched byte range of the matrix buffer */
    size_t eoff;     /* its copy inside exp */
} span;

typedef struct mx {
    vf_report *rep;
    uint64_t rowsDecl, colsDecl;
    unsigned H; /* header bytes, as announced by varintDimensionPairDimension */
    ckind kind;
    unsigned w; /* entry bytes, 0 for bits */
    int sparse;
    size_t Ra;    /* addressable rows 0..Ra-1 */
    size_t Ca;    /* dense/prefix: addressable columns 0..Ca-1;
                     sparse: width of the low and of the high column window */
    size_t mcols; /* reference-array columns per row (Ca, sparse 2*Ca) */
    size_t ncell; /* Ra * mcols */
    size_t total; /* header + cells that exist, in bytes */
    size_t maplen;
    uint8_t *buf; /* the matrix */
    uint8_t *exp; /* previous contents of the watched ranges */
    span sp[MAXSPAN];
    unsigned nsp;
    uint64_t *model; /* reference 2-D array: value bits of every cell */
    varintDimensionPair dim;
    uint64_t shapeh;
} mx;

/* IEEE half bit pattern -> float (exact) */
static float half_to_float(uint16_t h) {
    const uint32_t sign = (uint32_t)(h >> 15) << 31;
    const unsigned e = (h >> 10) & 31;
    const uint32_t m = h & 0x3ff;
    uint32_t bits;
    float f;
    if (e == 31) {
        bits = sign | 0x7f800000u | (m << 13);
    } else if (e == 0) {
        f = ldexpf((float)m, -24);
        memcpy(&bits, &f, 4);
        bits |= sign;
    } else {
        bits = sign | ((uint32_t)(e + 112) << 23) | (m << 13);
    }
    memcpy(&f, &bits, 4);
    return f;
}

static uint64_t cell_get(const mx *m, size_t r, size_t c) {
    switch (m->kind) {
    case K_BIT:
        return varintDimensionPairEntryGetBit(m->buf, r, c, m->dim) ? 1 : 0;
    case K_UNS:
        return varintDimensionPairEntryGetUnsigned(m->buf, r, c,
                                                   (varintWidth)m->w, m->dim);
    case K_F32: {
        const float f = varintDimensionPairEntryGetFloat(m->buf, r, c, m->dim);
        uint32_t b;
        memcpy(&b, &f, 4);
        return b;
    }
    case K_F64: {
        const double f =
            varintDimensionPairEntryGetDouble(m->buf, r, c, m->dim);
        uint64_t b;
        memcpy(&b, &f, 8);
        return b;
    }
    default: {
#if HAVE_HALF
        const float f =
            varintDimensionPairEntryGetFloatHalf(m->buf, r, c, m->dim);
        uint32_t b;
        memcpy(&b, &f, 4);
        return b;
#else
        return 0;
#endif
    }
    }
}

static void cell_set(mx *m, size_t r, size_t c, uint64_t bits) {
    switch (m->kind) {
    case K_UNS:
        varintDimensionPairEntrySetUnsigned(m->buf, r, c, bits,
                                            (varintWidth)m->w, m->dim);
        break;
    case K_F32: {
        const uint32_t b = (uint32_t)bits;
        float f;
        memcpy(&f, &b, 4);
        varintDimensionPairEntrySetFloat(m->buf, r, c, f, m->dim);
        break;
    }
    case K_F64: {
        double f;
        memcpy(&f, &bits, 8);
        varintDimensionPairEntrySetDouble(m->buf, r, c, f, m->dim);
        break;
    }
    case K_F16: {
#if HAVE_HALF
        const uint32_t b = (uint32_t)bits;
        float f;
        memcpy(&f, &b, 4);
        varintDimensionPairEntrySetFloatHalf(m->buf, r, c, f, m->dim);
#endif
        break;
    }
    default:
        break;
    }
}

/* k-th addressable column of a row */
static size_t col_of(const mx *m, size_t k) {
    if (!m->sparse || k < m->Ca) {
        return k;
    }
    return (size_t)m->colsDecl - 2 * m->Ca + k;
}
static int in_window(const mx *m, long r, long long c) {
    if (r < 0 || c < 0 || (size_t)r >= m->Ra) {
        return 0;
    }
    if ((size_t)c < m->Ca) {
        return 1;
    }
    return m->sparse && (uint64_t)c >= m->colsDecl - m->Ca &&
           (uint64_t)c < m->colsDecl;
}
static size_t model_idx(const mx *m, size_t r, size_t c) {
    if (!m->sparse || c < m->Ca) {
        return r * m->mcols + c;
    }
    return r * m->mcols + (c - ((size_t)m->colsDecl - 2 * m->Ca));
}
/* row-major index of a cell in the declared matrix (r == 0 whenever the
 * declared column count is not the addressable one) */
static size_t linear(const mx *m, size_t r, size_t c) {
    return r * (size_t)m->colsDecl + c;
}
/* first byte of the cell (bits: the byte holding the bit) */
static size_t cell_off(const mx *m, size_t r, size_t c) {
    const size_t i = linear(m, r, c);
    return m->H + (m->kind == K_BIT ? i / 8 : i * m->w);
}
static uint8_t *exp_at(mx *m, size_t off) {
    for (unsigned i = 0; i < m->nsp; i++) {
        if (off >= m->sp[i].off && off < m->sp[i].off + m->sp[i].len) {
            return m->exp + m->sp[i].eoff + (off - m->sp[i].off);
        }
    }
    abort(); /* harness invariant: every addressable cell is watched */
}

static void where(const mx *m, size_t off, char *out, size_t n) {
    if (off < m->H) {
        snprintf(out, n, "header byte %zu", off);
    } else if (off >= m->total) {
        snprintf(out, n, "byte %zu after the last cell", off - m->total);
    } else if (m->kind == K_BIT) {
        snprintf(out, n, "data byte %zu (bit cells %zu..%zu in row-major order)",
                 off - m->H, (off - m->H) * 8, (off - m->H) * 8 + 7);
    } else {
        const size_t cell = (off - m->H) / m->w;
        const size_t stride = m->Ra > 1 ? (size_t)m->colsDecl : cell + 1;
        snprintf(out, n, "byte %zu of cell (%zu,%zu)", (off - m->H) % m->w,
                 cell / stride, cell % stride);
    }
}

static const char *site_of(const mx *m, const char *op) {
    static char s[40];
    snprintf(s, sizeof(s), "%s.%s", kname[m->kind], op);
    return s;
}

static void mx_close(mx *m) {
    if (m->sparse) {
        if (m->buf) {
            munmap(m->buf, m->maplen);
        }
    } else {
        vf_exact_free(m->buf);
    }
    free(m->exp);
    free(m->model);
    m->buf = m->exp = NULL;
    m->model = NULL;
}

static void span_add(mx *m, size_t lo, size_t hi) {
    lo &= ~(size_t)(PAGE - 1);
    hi = (hi + PAGE - 1) & ~(size_t)(PAGE - 1);
    if (hi > m->maplen) {
        hi = m->maplen;
    }
    /* insert sorted, then merge neighbours that touch */
    unsigned i = m->nsp++;
    while (i > 0 && m->sp[i - 1].off > lo) {
        m->sp[i] = m->sp[i - 1];
        i--;
    }
    m->sp[i].off = lo;
    m->sp[i].len = hi - lo;
    unsigned o = 0;
    for (unsigned k = 1; k < m->nsp; k++) {
        if (m->sp[k].off <= m->sp[o].off + m->sp[o].len) {
            const size_t end = m->sp[k].off + m->sp[k].len;
            if (end > m->sp[o].off + m->sp[o].len) {
                m->sp[o].len = end - m->sp[o].off;
            }
        } else {
            m->sp[++o] = m->sp[k];
        }
    }
    m->nsp = o + 1;
}

/* rowsDecl/colsDecl: declared shape; caHuge: number of addressable columns
 * when the declared column count is too large to exist; wantSparse: map the
 * first rows sparsely if the shape allows it */
static int mx_open(mx *m, vf_report *rep, uint64_t rowsDecl, uint64_t colsDecl,
                   ckind kind, unsigned w, unsigned caHuge, unsigned fillsel,
                   int wantSparse) {
    memset(m, 0, sizeof(*m));
    m->rep = rep;
    m->rowsDecl = rowsDecl;
    m->colsDecl = colsDecl;
    /* header length as the library announces it for this shape (the buffer a
     * caller allocates is sized from the same macro) */
    m->H = (unsigned)VARINT_DIMENSION_PAIR_BYTE_LENGTH(
        varintDimensionPairDimension((size_t)rowsDecl, (size_t)colsDecl));
    m->kind = kind;
    m->w = kind == K_BIT   ? 0
           : kind == K_UNS ? w
           : kind == K_F32 ? 4
           : kind == K_F64 ? 8
                           : 2;
    if (colsDecl <= 300) {
        m->Ca = (size_t)colsDecl;
        m->Ra = rowsDecl == 0 ? 1 : rowsDecl < 40 ? (size_t)rowsDecl : 40;
    } else {
        m->Ra = 1;
        m->Ca = caHuge ? caHuge : 1;
        if (wantSparse && rowsDecl >= 2) {
            size_t ra = rowsDecl < 3 ? (size_t)rowsDecl : 3;
            const uint64_t per = kind == K_BIT ? 8 : 1;
            const uint64_t ew = kind == K_BIT ? 1 : m->w;
            /* bytes of `ra` rows: ra * cols * ew / per, kept below the cap */
            while (ra >= 2 &&
                   colsDecl > (SPARSE_CAP - 64) / ew * per / (uint64_t)ra) {
                ra--;
            }
            if (ra >= 2) {
                m->sparse = 1;
                m->Ra = ra;
            } else {
                vf_class("mx.sparse.toolarge");
            }
        }
    }
    m->mcols = m->sparse ? 2 * m->Ca : m->Ca;
    m->ncell = m->Ra * m->mcols;
    {
        const size_t cells =
            m->sparse ? m->Ra * (size_t)colsDecl : m->Ra * m->Ca;
        m->total = m->H + (kind == K_BIT ? (cells + 7) / 8 : cells * m->w);
    }
    if (m->sparse) {
        m->maplen = (m->total + PAGE - 1) & ~(size_t)(PAGE - 1);
        void *p = mmap(NULL, m->maplen, PROT_READ | PROT_WRITE,
                       MAP_PRIVATE | MAP_ANONYMOUS | MAP_NORESERVE, -1, 0);
        if (p == MAP_FAILED) {
            /* no address space: fall back to the first cells of row 0 */
            vf_class("mx.sparse.unavailable");
            return mx_open(m, rep, rowsDecl, colsDecl, kind, w, caHuge, fillsel,
                           0);
        }
        m->buf = (uint8_t *)p;
        span_add(m, 0, m->H);
        for (size_t r = 0; r < m->Ra; r++) {
            span_add(m, cell_off(m, r, 0),
                     cell_off(m, r, m->Ca - 1) + (m->w ? m->w : 1));
            span_add(m, cell_off(m, r, (size_t)colsDecl - m->Ca),
                     cell_off(m, r, (size_t)colsDecl - 1) + (m->w ? m->w : 1));
        }
    } else {
        m->buf = (uint8_t *)vf_exact_alloc(m->total);
        m->nsp = 1;
        m->sp[0].off = 0;
        m->sp[0].len = m->total;
    }
    size_t elen = 0;
    for (unsigned i = 0; i < m->nsp; i++) {
        m->sp[i].eoff = elen;
        elen += m->sp[i].len;
    }
    m->exp = (uint8_t *)malloc(elen ? elen : 1);
    m->model = (uint64_t *)malloc(m->ncell * sizeof(uint64_t));
    if (!m->exp || !m->model) {
        abort();
    }
    {
        uint64_t s = 0x9e3779b97f4a7c15ULL ^ ((uint64_t)fillsel << 20);
        for (unsigned i = 0; i < m->nsp; i++) {
            uint8_t *p = m->buf + m->sp[i].off;
            switch (fillsel & 3) {
            case 0:
                if (!m->sparse) {
                    memset(p, 0, m->sp[i].len);
                }
                break;
            case 1:
                memset(p, 0xff, m->sp[i].len);
                break;
            default:
                for (size_t k = 0; k < m->sp[i].len; k++) {
                    p[k] = (uint8_t)(vf_xs(&s) >> 24);
                }
                break;
            }
        }
    }
    m->dim =
        varintDimensionPairEncode(m->buf, (size_t)rowsDecl, (size_t)colsDecl);
    if (!m->sparse && vf_exact_check(m->buf)) {
        vf_fail(rep, "matrix.encode", "canary",
                "header of (%llu,%llu) written past a %zu-byte buffer",
                U(rowsDecl), U(colsDecl), m->total);
        return 1;
    }
    if ((unsigned)VARINT_DIMENSION_PAIR_BYTE_LENGTH(m->dim) != m->H) {
        vf_fail(rep, "pair.encode", "value",
                "rows=%llu cols=%llu: PairEncode returned 0x%02x (%u header "
                "bytes), PairDimension announced %u",
                U(rowsDecl), U(colsDecl), (unsigned)m->dim,
                (unsigned)VARINT_DIMENSION_PAIR_BYTE_LENGTH(m->dim), m->H);
        return 1;
    }
    for (unsigned i = 0; i < m->nsp; i++) {
        memcpy(m->exp + m->sp[i].eoff, m->buf + m->sp[i].off, m->sp[i].len);
    }
    for (size_t r = 0; r < m->Ra; r++) {
        for (size_t k = 0; k < m->mcols; k++) {
            const size_t c = col_of(m, k);
            m->model[model_idx(m, r, c)] = cell_get(m, r, c);
        }
    }
    m->shapeh = vf_mix(vf_mix(vf_mix(vf_mix(rowsDecl, colsDecl), kind), m->w),
                       m->Ca * 2 + (size_t)m->sparse);
    return 0;
}

/* first watched byte that differs from the previous contents; returns 0 when
 * everything is equal */
static int first_diff(const mx *m, size_t *off) {
    for (unsigned i = 0; i < m->nsp; i++) {
        const uint8_t *a = m->buf + m->sp[i].off;
        const uint8_t *b = m->exp + m->sp[i].eoff;
        if (memcmp(a, b, m->sp[i].len) != 0) {
            size_t k = 0;
            while (a[k] == b[k]) {
                k++;
            }
            *off = m->sp[i].off + k;
            return 1;
        }
    }
    return 0;
}

/* every addressable cell reads as the reference array says, and reading
 * changed nothing */
static int mx_scan(mx *m, const char *op, size_t wr, size_t wc) {
    for (size_t r = 0; r < m->Ra; r++) {
        for (size_t k = 0; k < m->mcols; k++) {
            const size_t c = col_of(m, k);
            const uint64_t got = cell_get(m, r, c);
            if (got != m->model[model_idx(m, r, c)]) {
                return vf_fail(
                    m->rep, site_of(m, op), "scan",
                    "%llu-by-%llu %s matrix (entry %u bytes): after the write "
                    "to (%zu,%zu) cell (%zu,%zu) reads 0x%llx, reference array "
                    "has 0x%llx",
                    U(m->rowsDecl), U(m->colsDecl), kname[m->kind], m->w, wr,
                    wc, r, c, U(got), U(m->model[model_idx(m, r, c)]));
            }
        }
    }
    size_t off;
    if (first_diff(m, &off)) {
        return vf_fail(m->rep, site_of(m, op), "readmodifies",
                       "%llu-by-%llu %s matrix: buffer byte %zu changed while "
                       "reading",
                       U(m->rowsDecl), U(m->colsDecl), kname[m->kind], off);
    }
    return 0;
}

enum { OP_SET = 0, OP_CLEAR = 1, OP_TOGGLE = 2 };

/* one write + all the checks that follow it.  op: for bit matrices OP_*;
 * otherwise ignored.  nb: neighbour selector. returns non-zero on violation */
static int mx_write(mx *m, unsigned op, size_t r, size_t c, uint64_t bits,
                    unsigned nb) {
    const size_t idx = model_idx(m, r, c);
    const uint64_t old = m->model[idx];
    uint64_t want;
    const char *opn;
    if (m->kind == K_BIT) {
        if (op == OP_TOGGLE) {
            opn = "toggle";
            want = old ^ 1;
            const bool prev =
                varintDimensionPairEntryToggleBit(m->buf, r, c, m->dim);
            if ((uint64_t)(prev ? 1 : 0) != old) {
                return vf_fail(m->rep, "bit.toggle", "return",
                               "%llu-by-%llu bit matrix: toggle of (%zu,%zu) "
                               "returned %d, the bit was %llu",
                               U(m->rowsDecl), U(m->colsDecl), r, c, (int)prev,
                               U(old));
            }
        } else {
            opn = op == OP_SET ? "set" : "clear";
            want = op == OP_SET ? 1 : 0;
            varintDimensionPairEntrySetBit(m->buf, r, c, op == OP_SET, m->dim);
        }
    } else {
        opn = "set";
        want = bits;
        cell_set(m, r, c, bits);
    }
    if (!m->sparse && vf_exact_check(m->buf)) {
        return vf_fail(m->rep, site_of(m, opn), "canary",
                       "%llu-by-%llu %s matrix (entry %u bytes, %zu-byte "
                       "buffer): write to (%zu,%zu) damaged the guard after "
                       "the buffer",
                       U(m->rowsDecl), U(m->colsDecl), kname[m->kind], m->w,
                       m->total, r, c);
    }
    /* read back */
    const uint64_t got = cell_get(m, r, c);
    if (got != want) {
        return vf_fail(m->rep, site_of(m, opn), "readback",
                       "%llu-by-%llu %s matrix (entry %u bytes): (%zu,%zu) was "
                       "0x%llx, wrote 0x%llx, reads 0x%llx",
                       U(m->rowsDecl), U(m->colsDecl), kname[m->kind], m->w, r,
                       c, U(old), U(want), U(got));
    }
    m->model[idx] = want;
    /* watched buffer against "previous buffer with only this cell changed" */
    const size_t off = cell_off(m, r, c);
    if (m->kind == K_BIT) {
        size_t nd = 0, firstoff = 0, d;
        if (first_diff(m, &d)) {
            for (unsigned i = 0; i < m->nsp; i++) {
                const uint8_t *a = m->buf + m->sp[i].off;
                const uint8_t *b = m->exp + m->sp[i].eoff;
                for (size_t k = 0; k < m->sp[i].len; k++) {
                    const uint8_t x = a[k] ^ b[k];
                    if (x) {
                        if (!nd) {
                            firstoff = m->sp[i].off + k;
                        }
                        nd += popcount8(x);
                    }
                }
            }
        }
        const size_t expect = old != want ? 1 : 0;
        if (nd != expect || (nd && firstoff != off)) {
            char wh[96];
            if (nd) {
                where(m, firstoff, wh, sizeof(wh));
            } else {
                snprintf(wh, sizeof(wh), "(no watched byte)");
            }
            const uint8_t *e = nd ? exp_at(m, firstoff) : NULL;
            return vf_fail(
                m->rep, site_of(m, opn),
                nd && firstoff < m->H ? "header"
                : nd == 0             ? "location"
                                      : "isolation",
                "%llu-by-%llu bit matrix (%u header bytes): %s of (%zu,%zu) "
                "(%llu -> %llu) changed %zu bit(s) of the buffer, expected %zu "
                "in data byte %zu; first change in %s (0x%02x -> 0x%02x)",
                U(m->rowsDecl), U(m->colsDecl), m->H, opn, r, c, U(old),
                U(want), nd, expect, off - m->H, wh, e ? *e : 0,
                nd ? m->buf[firstoff] : 0);
        }
        if (nd) {
            *exp_at(m, firstoff) = m->buf[firstoff];
        }
    } else {
        uint8_t *e = exp_at(m, off);
        if (old != want && memcmp(e, m->buf + off, m->w) == 0) {
            return vf_fail(m->rep, site_of(m, opn), "location",
                           "%llu-by-%llu %s matrix (%u header bytes, entry %u "
                           "bytes): writing 0x%llx over 0x%llx at (%zu,%zu) "
                           "left the cell's own bytes at offset %zu unchanged",
                           U(m->rowsDecl), U(m->colsDecl), kname[m->kind], m->H,
                           m->w, U(want), U(old), r, c, off);
        }
        memcpy(e, m->buf + off, m->w);
        size_t i;
        if (first_diff(m, &i)) {
            char wh[96];
            where(m, i, wh, sizeof(wh));
            return vf_fail(
                m->rep, site_of(m, opn), i < m->H ? "header" : "isolation",
                "%llu-by-%llu %s matrix (%u header bytes, entry %u bytes): "
                "writing 0x%llx to (%zu,%zu) changed %s (0x%02x -> 0x%02x)",
                U(m->rowsDecl), U(m->colsDecl), kname[m->kind], m->H, m->w,
                U(want), r, c, wh, *exp_at(m, i), m->buf[i]);
        }
    }
    /* a neighbour, through the library's reader */
    {
        static const int dr[8] = {0, 0, 1, -1, 1, -1, 1, -1};
        static const int dc[8] = {1, -1, 0, 0, 1, -1, -1, 1};
        for (unsigned t = 0; t < 8; t++) {
            const unsigned k = (nb + t) & 7;
            const long nr = (long)r + dr[k];
            const long long nc = (long long)c + dc[k];
            if (!in_window(m, nr, nc)) {
                continue;
            }
            const uint64_t g = cell_get(m, (size_t)nr, (size_t)nc);
            const uint64_t e = m->model[model_idx(m, (size_t)nr, (size_t)nc)];
            if (g != e) {
                return vf_fail(m->rep, site_of(m, opn), "neighbour",
                               "%llu-by-%llu %s matrix (entry %u bytes): after "
                               "writing 0x%llx to (%zu,%zu), neighbour "
                               "(%ld,%lld) reads 0x%llx, was 0x%llx",
                               U(m->rowsDecl), U(m->colsDecl), kname[m->kind],
                               m->w, U(want), r, c, nr, nc, U(g), U(e));
            }
            if (m->Ra >= 2) {
                vf_nontrivial(vf_mix(
                    vf_mix(vf_mix(vf_mix(m->shapeh, idx), want), (uint64_t)nr),
                    (uint64_t)nc));
            }
            break;
        }
    }
    if (m->kind == K_BIT && old == 1 && want == 0) {
        vf_class("bit.cleared");
        vf_nontrivial(vf_mix(vf_mix(m->shapeh, idx), 0xC1EA0 + op));
    }
    if (m->ncell <= 64) {
        return mx_scan(m, opn, r, c);
    }
    return 0;
}

/* value bits for a non-bit cell from a record */
static uint64_t cell_value(const mx *m, unsigned vsel, uint64_t raw) {
    switch (m->kind) {
    case K_UNS: {
        const uint64_t mask = whi(m->w);
        switch (vsel & 3) {
        case 1:
            return mask;
        case 2:
            return 0;
        case 3:
            return mask ^ (mask >> 1); /* top bit only */
        default:
            return raw & mask;
        }
    }
    case K_F32:
        return raw & 0xffffffffu;
    case K_F64:
        return raw;
    case K_F16: {
        uint16_t h = (uint16_t)raw;
        if (((h >> 10) & 31) == 31 && (h & 0x3ff)) {
            h |= 0x0200; /* quiet NaNs only: conversions quieten signalling ones */
        }
        const float f = half_to_float(h);
        uint32_t b;
        memcpy(&b, &f, 4);
        return b;
    }
    default:
        return raw & 1;
    }
}

static void mx_classes(const mx *m) {
    char cls[48];
    if (m->kind == K_UNS) {
        snprintf(cls, sizeof(cls), "mx.u%u", m->w * 8);
    } else {
        snprintf(cls, sizeof(cls), "mx.%s", kname[m->kind]);
    }
    vf_class(cls);
    if (m->rowsDecl == 0) {
        vf_class("mx.vector");
    }
    if (m->Ra >= 2) {
        vf_class("mx.rows2+");
    }
    if (m->H > 2) {
        vf_class("mx.header>2");
    }
    if (minw(m->colsDecl) >= 5) {
        vf_class("mx.colwidth5+");
    }
    if (m->sparse) {
        vf_class("mx.sparse");
        if (minw(m->colsDecl) >= 5) {
            vf_class("mx.sparse.colwidth5+");
        }
    }
}

/* records -> history on an opened matrix */
static void mx_history(mx *m, vf_rd *r, vf_report *rep) {
    unsigned n = 0;
    do {
        const unsigned op = vf_u8(r);
        size_t rr = vf_u8(r) % m->Ra;
        const unsigned c16 = vf_u16(r);
        size_t cc = col_of(m, m->sparse && (c16 & 0x8000)
                                  ? m->Ca + (c16 & 0x7fff) % m->Ca
                                  : c16 % m->Ca);
        const uint64_t raw = vf_raw64(r);
        if (op & 0x10) {
            rr = m->Ra - 1;
        }
        if (op & 0x20) {
            cc = col_of(m, m->mcols - 1);
        }
        if (op & 0x40) {
            rr = 0;
        }
        if (op & 0x80) {
            cc = 0;
        }
        const unsigned bop = (op & 3) == 3 ? (unsigned)(raw & 1) : (op & 3);
        const uint64_t bits = cell_value(m, op >> 2, raw);
        if (n < 5) {
            if (m->kind == K_BIT) {
                vf_desc(rep, " %s(%zu,%zu)",
                        bop == OP_SET ? "set" : bop == OP_CLEAR ? "clr" : "tgl",
                        rr, cc);
            } else {
                vf_desc(rep, " (%zu,%zu)=0x%llx", rr, cc, U(bits));
            }
        } else if (n == 5) {
            vf_desc(rep, " ...");
        }
        if (rr == m->Ra - 1 && m->Ra > 1) {
            vf_class("cell.lastrow");
        }
        if (cc == m->colsDecl - 1 && m->colsDecl > 1) {
            vf_class("cell.lastcol");
        }
        if (rr == 0) {
            vf_class("cell.row0");
        }
        if (m->sparse && rr >= 1) {
            vf_class("cell.sparse.row1+");
        }
        if (m->kind == K_BIT) {
            vf_class(bop == OP_SET     ? "bit.set"
                     : bop == OP_CLEAR ? "bit.clear"
                                       : "bit.toggle");
        }
        if (mx_write(m, bop, rr, cc, bits, (unsigned)(raw >> 61))) {
            return;
        }
        n++;
        if (n > 1) {
            vf_evals(1);
        }
    } while (n < 30 && vf_left(r) > 0);
    if (m->ncell > 64) {
        mx_scan(m, "final", 0, 0);
    }
}

static ckind pick_kind(unsigned b, unsigned wb, unsigned *w) {
    ckind k = (ckind)(b % K_COUNT);
    *w = 1 + wb % 8;
    if (k == K_F16 && !HAVE_HALF) {
        vf_class("mx.half.unavailable");
        k = K_UNS;
        *w = 2;
    }
    return k;
}

/* ------------------------------------------------------------------- driver */
void vf_run(vf_rd *r, vf_report *rep) {
    const unsigned kind = vf_u8(r) % 8;
    if (kind <= 2) {
        unsigned n = 0;
        vf_desc(rep, "pair headers:");
        do {
            const unsigned rw = vf_u8(r) % 9;
            const unsigned cw = 1 + vf_u8(r) % 8;
            const unsigned sel = vf_u8(r);
            const uint64_t xr = vf_raw64(r), xc = vf_raw64(r);
            const uint64_t rows = value_of_width(rw, sel & 15, xr);
            const uint64_t cols = value_of_width(cw, sel >> 4, xc);
            vf_desc(rep, " (%llu,%llu)", U(rows), U(cols));
            {
                char cls[32];
                snprintf(cls, sizeof(cls), "hdr.rw%u", rw);
                vf_class(cls);
                snprintf(cls, sizeof(cls), "hdr.cw%u", cw);
                vf_class(cls);
            }
            if (rw >= 3 || cw >= 3) {
                vf_nontrivial(vf_mix(vf_mix(0x4844, rows), cols));
            }
            if (check_header(rep, rows, cols, (uint8_t)(xr >> 56) ^ (uint8_t)sel)) {
                return;
            }
            n++;
            if (n > 1) {
                vf_evals(1);
            }
        } while (n < 8 && vf_left(r) > 0);
        return;
    }
    if (kind == 3) {
        unsigned n = 0;
        vf_desc(rep, "packed pairs:");
        do {
            const unsigned lv = vf_u8(r) % 10;
            const unsigned sel = vf_u8(r);
            const uint64_t a = vf_raw64(r), b = vf_raw64(r);
            uint64_t mxv, other;
            if (lv < 8) {
                const unsigned L = lv + 1;
                const uint64_t lo = L == 1 ? 0 : 1ULL << (4 * (L - 1));
                const uint64_t hi = (1ULL << (4 * L)) - 1;
                switch ((sel >> 1) & 7) {
                case 0:
                    mxv = lo;
                    break;
                case 1:
                    mxv = hi;
                    break;
                case 2:
                    mxv = lo + 1;
                    break;
                case 3:
                    mxv = hi - 1;
                    break;
                default:
                    mxv = lo + a % (hi - lo + 1);
                    break;
                }
                char cls[32];
                snprintf(cls, sizeof(cls), "packed.level%u", nibbles(mxv));
                vf_class(cls);
            } else {
                switch ((sel >> 1) & 7) {
                case 0:
                    mxv = 1ULL << 32;
                    break;
                case 1:
                    mxv = (1ULL << 32) + 1;
                    break;
                case 2:
                    mxv = UINT64_MAX;
                    break;
                case 3:
                    mxv = 1ULL << 63;
                    break;
                case 4:
                    mxv = 1ULL << (32 + a % 32);
                    break;
                default:
                    mxv = a | (1ULL << 32);
                    break;
                }
                vf_class("packed.reject");
            }
            switch ((sel >> 4) & 7) {
            case 0:
                other = 0;
                break;
            case 1:
                other = mxv;
                break;
            case 2:
                other = mxv ? mxv - 1 : 0;
                break;
            case 3:
                other = mxv >> 4;
                break;
            default:
                other = mxv == UINT64_MAX ? b : b % (mxv + 1);
                break;
            }
            const uint64_t row = (sel & 1) ? other : mxv;
            const uint64_t col = (sel & 1) ? mxv : other;
            vf_desc(rep, " (%llu,%llu)", U(row), U(col));
            if (mxv >= (1ULL << 8)) {
                vf_nontrivial(vf_mix(vf_mix(0x504b, row), col));
            }
            if (check_packed(rep, row, col)) {
                return;
            }
            n++;
            if (n > 1) {
                vf_evals(1);
            }
        } while (n < 8 && vf_left(r) > 0);
        return;
    }
    /* matrices */
    uint64_t rowsDecl, colsDecl;
    if (kind <= 5) {
        rowsDecl = vf_u8(r) % 41;
        /* half of the shapes narrow (dense histories), half up to 300 cols */
        const unsigned cb = vf_u16(r);
        colsDecl = (cb & 0x8000) ? 1 + (cb & 0x7fff) % 300 : 1 + cb % 24;
        vf_class("mx.small");
    } else {
        const unsigned rw = vf_u8(r) % 9;
        const unsigned cw = 1 + vf_u8(r) % 8;
        const unsigned sel = vf_u8(r);
        const uint64_t xr = vf_raw64(r), xc = vf_raw64(r);
        rowsDecl = value_of_width(rw, sel & 15, xr);
        colsDecl = value_of_width(cw, sel >> 4, xc);
        vf_class("mx.grid");
    }
    unsigned w;
    const unsigned kb = vf_u8(r), wb = vf_u8(r);
    const ckind ck = pick_kind(kb, wb, &w);
    const unsigned fillsel = vf_u8(r);
    const unsigned accb = vf_u8(r);
    const unsigned acc = 1 + (accb & 0x7f) % 40;
    mx m;
    if (mx_open(&m, rep, rowsDecl, colsDecl, ck, w, acc, fillsel,
                (accb & 0x80) != 0)) {
        mx_close(&m);
        return;
    }
    vf_desc(rep,
            "matrix %llu-by-%llu %s entry=%uB header=%uB, %s rows<%zu cols<%zu%s "
            "fill=%u:",
            U(rowsDecl), U(colsDecl), kname[ck], m.w, m.H,
            m.sparse ? "sparse mapping," : "allocated", m.Ra, m.Ca,
            m.sparse ? " and the last as many" : "",
            fillsel & 3 ? 2 + (fillsel >> 2) : fillsel & 3);
    mx_classes(&m);
    if (minw(rowsDecl) >= 3 || minw(colsDecl) >= 3) {
        vf_nontrivial(vf_mix(m.shapeh, 0x4d58));
    }
    mx_history(&m, r, rep);
    /* appended to the case (absent bytes = off): rel:1 dcols:1 then a second
     * history.  A matrix is plain caller memory behind a self-describing
     * header, so an image of ANOTHER matrix (same rows, fewer columns) may be
     * copied over the place where this one lived - a file read into a reused
     * buffer - and must behave exactly as it did where it was built.  Both
     * matrices are touched alternately first, so anything the library might
     * remember about either address is in place. */
    if (!rep->violated) {
        const unsigned rel = vf_u8(r), dc = vf_u8(r);
        if (!(rel & 1)) {
            vf_class("reloc.off");
        } else if (m.sparse || colsDecl > 300 || colsDecl < 2 || rowsDecl < 2) {
            vf_class("reloc.skip");
        } else {
            const uint64_t colsB = colsDecl - 1 - dc % (colsDecl - 1 < 8 ? colsDecl - 1 : 8);
            mx b;
            if (mx_open(&b, rep, rowsDecl, colsB, ck, w, acc, fillsel, 0)) {
                mx_close(&b);
            } else if (b.sparse || b.total > m.total) {
                vf_class("reloc.skip");
                mx_close(&b);
            } else {
                uint8_t *home = b.buf;
                /* last access to the old tenant of the address, row >= 1 */
                (void)cell_get(&m, m.Ra - 1, 0);
                memcpy(m.buf, home, b.total);
                b.buf = m.buf;
                vf_class("reloc.on");
                vf_class(b.dim == m.dim ? "reloc.same-widths"
                                        : "reloc.other-widths");
                vf_desc(rep, " | image of a %llu-by-%llu matrix copied over it:",
                        U(rowsDecl), U(colsB));
                vf_evals(1);
                vf_nontrivial(vf_mix(vf_mix(m.shapeh, b.shapeh), 0x52454c));
                mx_history(&b, r, rep);
                b.buf = home;
                mx_close(&b);
            }
        }
    }
    mx_close(&m);
}

/* ---------------------------------------------------------------- the sweep */
static int sweep_matrix(vf_report *rep, uint64_t rowsDecl, uint64_t colsDecl,
                        ckind k, unsigned w, unsigned acc, unsigned fillsel,
                        int sparse, uint64_t *evals) {
    mx m;
    if (k == K_F16 && !HAVE_HALF) {
        return 0;
    }
    if (mx_open(&m, rep, rowsDecl, colsDecl, k, w, acc, fillsel, sparse)) {
        mx_close(&m);
        return 1;
    }
    uint64_t s = 0x1234567ULL + rowsDecl * 31 + colsDecl;
    int bad = 0;
    for (unsigned pass = 0; pass < 3 && !bad; pass++) {
        for (size_t r = 0; r < m.Ra && !bad; r++) {
            for (size_t kc = 0; kc < m.mcols && !bad; kc++) {
                const size_t c = col_of(&m, kc);
                const uint64_t raw = vf_xs(&s);
                /* bits: set all, clear all, toggle all; others: three values */
                const unsigned op = k == K_BIT ? pass : 0;
                const uint64_t bits =
                    cell_value(&m, pass == 1 ? 1 : pass == 2 ? 3 : 0, raw);
                bad = mx_write(&m, op, r, c, bits, (unsigned)(raw >> 40));
                (*evals)++;
            }
        }
    }
    if (!bad) {
        bad = mx_scan(&m, "final", 0, 0);
    }
    mx_close(&m);
    return bad;
}

void vf_sweep(vf_report *rep) {
    uint64_t evals = 0;
    /* 1. the width-pair byte: all 9 x 8 x 2 combinations */
    for (unsigned x = 0; x <= 8; x++) {
        for (unsigned y = 1; y <= 8; y++) {
            for (unsigned sp = 0; sp < 2; sp++) {
                const unsigned dim = VARINT_DIMENSION_PAIR_PAIR(x, y, sp);
                unsigned gx = 99, gy = 99;
                VARINT_DIMENSION_PAIR_DEPAIR(gx, gy, dim);
                evals++;
                if (gx != x || gy != y ||
                    (unsigned)VARINT_DIMENSION_PAIR_IS_SPARSE(dim) != sp ||
                    (unsigned)VARINT_DIMENSION_PAIR_BYTE_LENGTH(dim) != x + y) {
                    vf_fail(rep, "pair.depair", "value",
                            "PAIR(%u,%u,%u) = 0x%02x de-pairs to (%u,%u), "
                            "sparse %u, byte length %u",
                            x, y, sp, dim, gx, gy,
                            (unsigned)VARINT_DIMENSION_PAIR_IS_SPARSE(dim),
                            (unsigned)VARINT_DIMENSION_PAIR_BYTE_LENGTH(dim));
                    goto done;
                }
            }
        }
    }
    /* 2. headers: every width combination x edge values */
    for (unsigned rw = 0; rw <= 8; rw++) {
        for (unsigned cw = 1; cw <= 8; cw++) {
            for (unsigned a = 0; a < 6; a++) {
                for (unsigned b = 0; b < 6; b++) {
                    const uint64_t rows =
                        value_of_width(rw, a, 0x0123456789abcdefULL * (a + 1));
                    const uint64_t cols =
                        value_of_width(cw, b, 0xfedcba9876543210ULL / (b + 1));
                    evals++;
                    if (check_header(rep, rows, cols, (uint8_t)(0x3c + a + b))) {
                        goto done;
                    }
                }
            }
        }
    }
    /* 3. packed: every level edge, and rejections */
    for (unsigned L = 1; L <= 16; L++) {
        const uint64_t lo = L == 1 ? 0 : 1ULL << (4 * (L - 1));
        const uint64_t hi = L == 16 ? UINT64_MAX : (1ULL << (4 * L)) - 1;
        const uint64_t big[4] = {lo, lo + 1, hi - 1, hi};
        for (unsigned i = 0; i < 4; i++) {
            const uint64_t small[6] = {0,          1,      big[i],
                                       big[i] - (big[i] ? 1 : 0), lo, big[i] >> 4};
            for (unsigned j = 0; j < 6; j++) {
                evals += 2;
                if (check_packed(rep, big[i], small[j]) ||
                    check_packed(rep, small[j], big[i])) {
                    goto done;
                }
            }
        }
    }
    /* 4. small matrices, every cell, every entry type */
    {
        static const unsigned shapes[][2] = {{0, 1},  {0, 13}, {1, 1}, {1, 9},
                                             {3, 5},  {2, 8},  {5, 17},
                                             {7, 7},  {2, 256}, {40, 3}};
        for (unsigned s = 0; s < sizeof(shapes) / sizeof(shapes[0]); s++) {
            for (unsigned k = 0; k < K_COUNT; k++) {
                for (unsigned w = 1; w <= (k == K_UNS ? 8u : 1u); w++) {
                    for (unsigned fill = 0; fill < 3; fill++) {
                        if (sweep_matrix(rep, shapes[s][0], shapes[s][1],
                                         (ckind)k, w, 0, fill + (s << 2), 0,
                                         &evals)) {
                            goto done;
                        }
                    }
                }
            }
        }
    }
    /* 5. every header width combination in front of a few real cells */
    for (unsigned rw = 0; rw <= 8; rw++) {
        for (unsigned cw = 1; cw <= 8; cw++) {
            static const struct {
                ckind k;
                unsigned w;
            } kinds[4] = {{K_BIT, 0}, {K_UNS, 3}, {K_F64, 8}, {K_UNS, 1}};
            for (unsigned k = 0; k < 4; k++) {
                const uint64_t rows = value_of_width(rw, k, 0);
                /* cw == 1: a real 2..40-row matrix behind a wide row count */
                const uint64_t cols = cw == 1 ? 5 : value_of_width(cw, k + 1, 0);
                if (sweep_matrix(rep, rows, cols, kinds[k].k, kinds[k].w, 11,
                                 2 + 4 * (rw + cw), 0, &evals)) {
                    goto done;
                }
            }
        }
    }
    /* 6. rows >= 1 behind huge column counts (sparse mappings) */
    {
        static const uint64_t rws[3] = {2, 3, 70000};
        static const uint64_t cls[6] = {301,
                                        70000,
                                        (1ULL << 24) + 5,
                                        1ULL << 32,
                                        (1ULL << 32) + 8,
                                        (1ULL << 33) - 1};
        static const struct {
            ckind k;
            unsigned w;
        } kinds[5] = {{K_BIT, 0}, {K_UNS, 1}, {K_UNS, 5}, {K_F64, 8}, {K_F16, 2}};
        for (unsigned a = 0; a < 3; a++) {
            for (unsigned b = 0; b < 6; b++) {
                for (unsigned k = 0; k < 5; k++) {
                    if (sweep_matrix(rep, rws[a], cls[b], kinds[k].k,
                                     kinds[k].w, 9, 2 + 4 * (a + b + k), 1,
                                     &evals)) {
                        goto done;
                    }
                }
            }
        }
    }
done:
    vf_evals(evals);
    vf_class_n("sweep.evals", evals);
}
