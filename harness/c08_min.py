#!/usr/bin/env python3
"""Record-aware reducer for C08 cases (6-byte records op:1 slot:1 a:2 b:2).

    python3 harness/c08_min.py <replay-binary> <case> <out>

Keeps a candidate only if the replay binary still reports a failure at the same
site.  Steps: drop trailing records, drop single records, then canonicalise the
fields of the remaining records (op byte -> op % 14, unused slot bits -> 0) and
try to zero a / b.  rapidcheck's byte-vector shrinking cannot delete records in
the middle of a history (the vector length is drawn first), this can."""
import os
import re
import subprocess
import sys

NOPS = 14


def main():
    binpath, case, out = sys.argv[1:4]
    env = dict(os.environ)
    env['VF_NO_SIGNALS'] = '1'
    env.setdefault('ASAN_OPTIONS', 'detect_leaks=0')
    tmp = out + '.tmp'

    def site_of(data):
        with open(tmp, 'wb') as f:
            f.write(data)
        r = subprocess.run([binpath, tmp], stdout=subprocess.PIPE,
                           stderr=subprocess.STDOUT, env=env, timeout=120)
        txt = r.stdout.decode('utf-8', 'replace')
        if r.returncode == 0:
            return None
        m = re.search(r'^FAIL \S+ site=(\S+) kind=(\S+)', txt, re.M)
        return (m.group(1), m.group(2)) if m else ('crash', '')

    data = open(case, 'rb').read()
    data += b'\0' * (-len(data) % 6)
    want = site_of(data)
    if want is None:
        print('case does not fail')
        return 1
    recs = [data[i:i + 6] for i in range(0, len(data), 6)]

    def fails(rs):
        return bool(rs) and site_of(b''.join(rs)) == want

    # the failing record is the last one that matters: cut the tail
    lo, hi = 1, len(recs)
    while lo < hi:
        mid = (lo + hi) // 2
        if fails(recs[:mid]):
            hi = mid
        else:
            lo = mid + 1
    recs = recs[:lo] if fails(recs[:lo]) else recs
    # chunks of records, then single records
    chunk = max(1, len(recs) // 2)
    while chunk >= 1:
        i = 0
        while i < len(recs):
            cand = recs[:i] + recs[i + chunk:]
            if fails(cand):
                recs = cand
            else:
                i += chunk
        chunk //= 2
    # canonical fields, one at a time, each relative to the current record
    edits = (lambda r: bytes([r[0] % NOPS]) + r[1:],
             lambda r: r[:1] + bytes([r[1] & 3]) + r[2:],
             lambda r: r[:1] + bytes([r[1] & 0x3f]) + r[2:],
             lambda r: r[:2] + b'\0\0' + r[4:],
             lambda r: r[:4] + b'\0\0',
             lambda r: r[:4] + bytes([r[4] & 15, 0]),
             lambda r: r[:5] + b'\0')
    for i in range(len(recs)):
        for e in edits:
            cand = e(recs[i])
            if cand != recs[i] and fails(recs[:i] + [cand] + recs[i + 1:]):
                recs[i] = cand
    final = b''.join(recs)
    with open(out, 'wb') as f:
        f.write(final)
    os.unlink(tmp)
    print('%d records, %d bytes, site=%s/%s' % (len(recs), len(final), *want))
    return 0


if __name__ == '__main__':
    sys.exit(main())
