#!/usr/bin/env python3
"""c09_packed_inst.py <outdir> [ntu]

Writes c09_inst_0.c .. c09_inst_<ntu-1>.c into <outdir>: every instantiation of
/repo/src/varintPacked.h the C09 property quantifies over, each with a distinct
function prefix, wrapped to one uniform signature (C09_WRAP) and registered in
one dispatch table (c09_get / c09_ninst, see harness/c09_packed.h).

Configurations (DESIGN section 3, C09):
  * every width 1..32 x explicit slot type {u8,u16,u32,u64}, default mode;
  * every width 1..32 with PACK_STORAGE_COMPACT and the slot type COMPACT
    selects itself (u8 up to 16 bits, u16 up to 32 bits);
  * the variants the tree itself instantiates (value / micro-promotion / length
    types of src/varintPackedTest.c, src/varintDimension.c, examples/);
  * PACK_MAX_ELEMENTS variants (appended LAST so that the indices of the
    configurations above, which committed corpus files refer to, never move):
    the only thing the header derives from PACK_MAX_ELEMENTS is PACKED_LEN_TYPE
    (offset / length parameters, loop counters and binary-search bounds):
    uint8_t up to 255, uint16_t up to 65535, uint32_t up to 2^32-1, uint64_t
    above.  Limits {255, 10000 (docs/modules/varintPacked.md), 65535, 70000} x
    widths {1, 7, 12, 13, 24, 32} x every slot type, the tree's 3700 with the
    wide widths (bit positions past 2^16), the documented configuration itself
    (12 bit, COMPACT, explicit uint8_t slots, 10000), two limits above 2^32
    (uint64_t length type) and two of 2*10^8 (uint32_t, enough for an element
    at bit position 2^32);
keeping only those in which an element never spans more than two slots: for
every reachable start bit s = (k*B) mod S, s + B <= 2S, i.e. B <= S + gcd(B,S).

The module is also imported by vf/propdefs/C09.py (configs() gives the class
names that must all be hit)."""
import math
import os
import sys

SLOT = {'u8': ('uint8_t', 1), 'u16': ('uint16_t', 2), 'u32': ('uint32_t', 4),
        'u64': ('uint64_t', 8)}
NTU = 4
MAXEL_WIDTHS = (1, 7, 12, 13, 24, 32)


def two_slots_max(bits, slot_bits):
    return bits <= slot_bits + math.gcd(bits, slot_bits)


def compact_default_slot(bits):
    # varintPacked.h: COMPACT without an explicit slot type
    if bits <= 16:
        return 'u8'
    if bits <= 32:
        return 'u16'
    return 'u32'


def configs():
    """list of dicts: name, bits, slot (key of SLOT: what the instantiation
    ends up with), explicit_slot (bool), compact, value, promo, maxel"""
    out = []

    def add(name, bits, slot, explicit_slot=True, compact=False, value=None,
            promo=None, maxel=0):
        assert two_slots_max(bits, SLOT[slot][1] * 8), name
        out.append(dict(name=name, bits=bits, slot=slot,
                        explicit_slot=explicit_slot, compact=compact,
                        value=value, promo=promo, maxel=maxel))

    for slot in ('u8', 'u16', 'u32', 'u64'):
        for bits in range(1, 33):
            if two_slots_max(bits, SLOT[slot][1] * 8):
                add('i.b%02d.%s.d' % (bits, slot), bits, slot)
    for bits in range(1, 33):
        slot = compact_default_slot(bits)
        if two_slots_max(bits, SLOT[slot][1] * 8):
            add('i.b%02d.%s.c' % (bits, slot), bits, slot,
                explicit_slot=False, compact=True)
    # the tree's own instantiations
    # src/varintPackedTest.c #1
    add('t.b12.u32.val16.promo32', 12, 'u32', value='uint16_t',
        promo='uint32_t')
    # src/varintPackedTest.c #2 (COMPACT picks uint8_t slots)
    add('t.b12.compact.val16.promo64', 12, 'u8', explicit_slot=False,
        compact=True, value='uint16_t', promo='uint64_t')
    # src/varintDimension.c
    add('t.b12.u8.promo16.max3700', 12, 'u8', promo='uint16_t', maxel=3700)
    # src/varintPackedTest.c #3, #4 (default uint32_t slots, 32-bit values)
    add('t.b13.default.val32', 13, 'u32', explicit_slot=False,
        value='uint32_t')
    add('t.b14.default.val32', 14, 'u32', explicit_slot=False,
        value='uint32_t')
    # examples/: plain "#define PACK_STORAGE_BITS n" (bloom_filter: 1,
    # graph_database / game_replay_system: 16)
    add('t.b01.default', 1, 'u32', explicit_slot=False)
    add('t.b16.default', 16, 'u32', explicit_slot=False)
    # ---- PACK_MAX_ELEMENTS variants: keep these at the end (see docstring)
    for maxel in (255, 10000, 65535, 70000):
        for bits in MAXEL_WIDTHS:
            for slot in ('u8', 'u16', 'u32', 'u64'):
                if two_slots_max(bits, SLOT[slot][1] * 8):
                    add('m.b%02d.%s.max%d' % (bits, slot, maxel), bits, slot,
                        maxel=maxel)
    # the tree's own limit with widths whose bit positions pass 2^16 below it
    add('m.b24.u16.max3700', 24, 'u16', maxel=3700)
    add('m.b24.u32.max3700', 24, 'u32', maxel=3700)
    add('m.b32.u32.max3700', 32, 'u32', maxel=3700)
    add('m.b32.u64.max3700', 32, 'u64', maxel=3700)
    # docs/modules/varintPacked.md, "Configuration Macros", verbatim
    add('d.b12.u8.compact.max10000', 12, 'u8', compact=True, maxel=10000)
    # limits above UINT32_MAX: uint64_t length type
    add('m.b12.u8.max5000000000', 12, 'u8', maxel=5000000000)
    add('m.b13.u32.max5000000000', 13, 'u32', maxel=5000000000)
    # uint32_t length type with room for an element at bit position 2^32 (the
    # deterministic sweep goes there through a sparse mapping)
    add('m.b32.u32.max200000000', 32, 'u32', maxel=200000000)
    add('m.b24.u16.max200000000', 24, 'u16', maxel=200000000)
    assert len(out) <= 256, 'the case format selects the configuration by one byte'
    return out


def emit_one(idx, c):
    pfx = 'c09f_%d_' % idx
    lines = ['/* %s */' % c['name'],
             '#define PACK_STORAGE_BITS %d' % c['bits']]
    if c['explicit_slot']:
        lines.append('#define PACK_STORAGE_SLOT_STORAGE_TYPE %s'
                     % SLOT[c['slot']][0])
    if c['compact']:
        lines.append('#define PACK_STORAGE_COMPACT')
    if c['value']:
        lines.append('#define PACK_STORAGE_VALUE_TYPE %s' % c['value'])
    if c['promo']:
        lines.append('#define PACK_STORAGE_MICRO_PROMOTION_TYPE %s' % c['promo'])
    if c['maxel']:
        lines.append('#define PACK_MAX_ELEMENTS %d%s'
                     % (c['maxel'], 'ULL' if c['maxel'] > 0xffffffff else ''))
    lines += ['#define PACK_FUNCTION_PREFIX %s' % pfx,
              '#define PACK_STATIC',
              '#include "varintPacked.h"',
              'C09_WRAP(%d, %s%d)' % (idx, pfx, c['bits']), '']
    return '\n'.join(lines)


def main(argv):
    outdir = argv[1]
    ntu = int(argv[2]) if len(argv) > 2 else NTU
    cfgs = configs()
    parts = [[] for _ in range(ntu)]
    for idx, c in enumerate(cfgs):
        parts[idx % ntu].append((idx, c))
    for k, part in enumerate(parts):
        src = ['/* generated by c09_packed_inst.py - do not edit */',
               '#include "c09_packed.h"', '']
        for idx, c in part:
            src.append(emit_one(idx, c))
        src.append('const c09_inst c09_part_%d[] = {' % k)
        for idx, c in part:
            src.append('    C09_ENTRY(%d, "%s", %d, %d, %d, %dULL),'
                       % (idx, c['name'], c['bits'], SLOT[c['slot']][1],
                          1 if c['compact'] else 0, c['maxel']))
        src.append('};')
        src.append('const unsigned c09_part_%d_n = %d;' % (k, len(part)))
        if k == 0:
            # instantiation idx lives in part idx % ntu at position idx / ntu
            src.append('')
            for j in range(1, ntu):
                src.append('extern const c09_inst c09_part_%d[];' % j)
            src.append('const unsigned c09_ninst = %d;' % len(cfgs))
            src.append('const c09_inst *c09_get(unsigned idx) {')
            src.append('    static const c09_inst *const parts[%d] = {%s};'
                       % (ntu, ', '.join('c09_part_%d' % j
                                         for j in range(ntu))))
            src.append('    return &parts[idx %% %d][idx / %d];' % (ntu, ntu))
            src.append('}')
        path = os.path.join(outdir, 'c09_inst_%d.c' % k)
        with open(path + '.tmp', 'w') as f:
            f.write('\n'.join(src) + '\n')
        os.replace(path + '.tmp', path)
    return 0


if __name__ == '__main__':
    sys.exit(main(sys.argv))
