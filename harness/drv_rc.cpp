// drv_rc.cpp - rapidcheck driver.  A case is a std::vector<uint8_t>; all random
// choices are rapidcheck's, so seeds (RC_PARAMS="seed=N ...") reproduce runs and
// failures shrink as byte vectors (decoders map 0 to the simplest choice).
// Contains no code from /repo: compiled once by setup, linked against each
// property's freshly built objects.
#include <rapidcheck.h>

#include <cstdint>
#include <cstdio>
#include <cstdlib>
#include <string>
#include <vector>

#include "vf.h"

static rc::Gen<std::vector<uint8_t>> genCase(size_t maxlen) {
    using namespace rc;
    // byte: mostly uniform, with extra mass on 0x00 / 0xff / small
    auto byteGen = gen::resize(
        100, gen::weightedOneOf<uint8_t>(
                 {{12, gen::map(gen::inRange<int>(0, 256),
                                [](int v) { return (uint8_t)v; })},
                  {1, gen::element<uint8_t>(0, 0xff, 1, 0x7f, 0x80)},
                  {1, gen::map(gen::inRange<int>(0, 16),
                               [](int v) { return (uint8_t)v; })}}));
    // length class: short cases dominate, long ones stay present
    return gen::mapcat(
        gen::resize(100, gen::inRange<int>(0, 100)),
        [=](int cls) {
            size_t hi;
            if (cls < 35) {
                hi = maxlen / 8;
            } else if (cls < 70) {
                hi = maxlen / 3;
            } else {
                hi = maxlen;
            }
            if (hi < 8) {
                hi = maxlen < 8 ? maxlen : 8;
            }
            return gen::mapcat(
                gen::resize(100, gen::inRange<size_t>(0, hi + 1)),
                [=](size_t len) {
                    return gen::container<std::vector<uint8_t>>(len, byteGen);
                });
        });
}

int main(int argc, char **argv) {
    (void)argc;
    (void)argv;
    vf_init("rapidcheck");
    size_t maxlen = 64;
    if (&vf_case_maxlen) {
        maxlen = vf_case_maxlen;
    }
    if (const char *e = getenv("VF_MAXLEN")) {
        maxlen = (size_t)strtoull(e, nullptr, 10);
    }
    const char *failPath = getenv("VF_FAIL");
    auto g = genCase(maxlen);
    bool ok = rc::check(std::string("property ") + vf_prop_id, [&] {
        const auto bytes = *g;
        vf_report rep;
        if (vf_run_case(bytes.data(), bytes.size(), &rep)) {
            // the last failing case written is the shrunk one
            if (failPath) {
                vf_save_case(failPath, bytes.data(), bytes.size());
                std::string w = std::string(failPath) + ".why";
                std::string msg = std::string("site=") + rep.site +
                                  " kind=" + rep.kind + " :: " + rep.detail +
                                  "\n  case: " + rep.desc + "\n";
                vf_save_case(w.c_str(), (const uint8_t *)msg.data(),
                             msg.size());
            }
            RC_FAIL(std::string(rep.site) + " " + rep.kind + " :: " +
                    rep.detail);
        }
    });
    vf_finish();
    return ok ? 0 : 1;
}
