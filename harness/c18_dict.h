/* c18_dict.h - dictionary scenarios of the C18 harness */
#ifndef C18_DICT_H
#define C18_DICT_H
#include "c18_common.h"

static size_t dict_cap(size_t n) {
    return 64 + 20 * n;
}

/* dict must hold exactly the sorted distinct values u[0..nu), as its public
 * interface shows it: the documented `size` member (there is no accessor),
 * varintDictLookup for every index and varintDictFind for every value, plus
 * the out-of-range answers.  How the object stores this (capacity, index
 * width, layout of `values`) is not looked at: a dictionary whose internals
 * are inconsistent shows when it is used (dict_use: encode + decode round
 * trip, rebuilds; ASan watches the accesses). */
static int dict_matches(const varintDict *d, const uint64_t *u, size_t nu,
                        char *why, size_t whyn) {
    if (d->size != nu) {
        snprintf(why, whyn, "dict->size=%u, model %zu", d->size, nu);
        return 0;
    }
    for (size_t i = 0; i < nu; i++) {
        uint64_t got = varintDictLookup(d, (uint32_t)i);
        if (got != u[i]) {
            snprintf(why, whyn, "varintDictLookup(%zu)=%llu, model %llu", i,
                     (unsigned long long)got, (unsigned long long)u[i]);
            return 0;
        }
        int32_t at = varintDictFind(d, u[i]);
        if (at != (int32_t)i) {
            snprintf(why, whyn, "varintDictFind(%llu)=%d, model %zu",
                     (unsigned long long)u[i], (int)at, i);
            return 0;
        }
    }
    if (varintDictLookup(d, (uint32_t)nu) != 0) {
        snprintf(why, whyn, "varintDictLookup(size=%zu) is not 0", nu);
        return 0;
    }
    /* a value that is not an entry (u is sorted and duplicate-free) */
    uint64_t absent = 0;
    int have = nu == 0 || u[0] > 0;
    for (size_t i = 0; i < nu && !have; i++) {
        if (i + 1 == nu ? u[i] != UINT64_MAX : u[i] + 1 != u[i + 1]) {
            absent = u[i] + 1;
            have = 1;
        }
    }
    if (have && varintDictFind(d, absent) != -1) {
        snprintf(why, whyn, "varintDictFind(%llu)=%d for a value that is not an "
                            "entry", (unsigned long long)absent,
                 (int)varintDictFind(d, absent));
        return 0;
    }
    return 1;
}

/* round trip of what a dictionary encoder reported as its output against src:
 * the length-taking decoder gets exactly the reported bytes in an exact-size
 * block */
static int dict_roundtrip(ctx *c, const uint8_t *out, size_t len, size_t cap,
                          const uint64_t *src, size_t n, const char *what) {
    if (len > cap) {
        return bad(c, "length", "%s returned %zu > buffer %zu", what, len, cap);
    }
    uint8_t *cp = exact_copy(out, len);
    size_t cnt = 0;
    uint64_t *dec = varintDictDecode(cp, len, &cnt);
    int r = 0;
    size_t at;
    if (!dec) {
        r = bad(c, "value", "%s returned %zu bytes that varintDictDecode rejects",
                what, len);
    } else if (cnt != n) {
        r = bad(c, "value", "%s output decodes to %zu values, input has %zu", what,
                cnt, n);
    } else if (first_diff_u64(dec, src, n, &at)) {
        r = bad(c, "value", "%s output decodes [%zu]=%llu, input %llu", what, at,
                (unsigned long long)dec[at], (unsigned long long)src[at]);
    }
    vf_lib_free(dec);
    vf_exact_free(cp);
    return r;
}

/* use a dictionary that must describe src: lookups + encode/decode */
static int dict_use(ctx *c, varintDict *d, const uint64_t *src, size_t n,
                    const uint64_t *u, size_t nu) {
    for (size_t i = 0; i < nu; i += (nu > 64 ? nu / 32 : 1)) {
        if (varintDictFind(d, u[i]) != (int32_t)i ||
            varintDictLookup(d, (uint32_t)i) != u[i]) {
            return bad(c, "state", "dictionary lookup of entry %zu disagrees", i);
        }
    }
    size_t cap = dict_cap(n);
    uint8_t *buf = (uint8_t *)xmalloc(cap);
    memset(buf, 0xA5, cap);
    size_t len = varintDictEncodeWithDict(buf, d, src, n);
    int r;
    if (len == 0) {
        r = bad(c, "state", "varintDictEncodeWithDict fails with the dictionary "
                            "left behind");
    } else {
        r = dict_roundtrip(c, buf, len, cap, src, n, "varintDictEncodeWithDict");
    }
    free(buf);
    return r;
}

/* --------------------------------------------------------------- create */
static void f_dict_create(ctx *c) {
    const uint64_t *x = c->a.v;
    size_t n = c->a.n;
    call_begin(c);
    varintDict *d = varintDictCreate();
    call_end(c);
    if (!d) {
        reported_failure(c, "NULL");
        return;
    }
    uint64_t *u = NULL;
    size_t nu = uniq_sorted(x, n, &u);
    char why[160];
    if (d->size != 0) {
        bad(c, "state", "fresh dictionary has size %u", d->size);
    } else if (varintDictBuild(d, x, n) != 0) {
        bad(c, "state", "varintDictBuild fails on the fresh dictionary");
    } else if (!dict_matches(d, u, nu, why, sizeof(why))) {
        bad(c, "state", "after build: %s", why);
    } else {
        dict_use(c, d, x, n, u, nu);
    }
    free(u);
    varintDictFree(d);
}

/* ---------------------------------------------------------------- build */
/* state bit 0: dictionary already built from another array y (pre-state) */
static void f_dict_build(ctx *c) {
    const uint64_t *x = c->a.v;
    size_t n = c->a.n;
    uint64_t *y = NULL, *uy = NULL, *ux = NULL;
    size_t ny = 0, nuy = 0;
    size_t nux = uniq_sorted(x, n, &ux);
    varintDict *d = varintDictCreate();
    if (!d) {
        bad(c, "failure", "varintDictCreate failed without a fault");
        free(ux);
        return;
    }
    if (c->st & 1) {
        ny = 1 + c->p2 % 48;
        y = (uint64_t *)xmalloc(ny * sizeof(uint64_t));
        uint64_t s = 0x1234567ULL + c->p1;
        for (size_t i = 0; i < ny; i++) {
            y[i] = (c->st & 2) ? (vf_xs(&s) % 7) : (vf_xs(&s) >> (c->p3 & 63));
        }
        nuy = uniq_sorted(y, ny, &uy);
        if (varintDictBuild(d, y, ny) != 0) {
            bad(c, "failure", "pre-state varintDictBuild failed without a fault");
            goto out;
        }
    }
    call_begin(c);
    int rc = varintDictBuild(d, x, n);
    call_end(c);
    char why[160];
    if (rc == 0) {
        if (!dict_matches(d, ux, nux, why, sizeof(why))) {
            bad(c, "state", "build returned 0 but %s", why);
            goto out;
        }
        dict_use(c, d, x, n, ux, nux);
    } else if (rc == -1) {
        if (reported_failure(c, "-1")) {
            goto out;
        }
        /* the dictionary must still be the one it was */
        if (!dict_matches(d, uy, nuy, why, sizeof(why))) {
            bad(c, "state", "build returned -1 and the dictionary changed: %s",
                why);
            goto out;
        }
        if (ny && dict_use(c, d, y, ny, uy, nuy)) {
            goto out;
        }
        /* and building again works */
        if (varintDictBuild(d, x, n) != 0) {
            bad(c, "state", "rebuild after the failed build fails");
        } else if (!dict_matches(d, ux, nux, why, sizeof(why))) {
            bad(c, "state", "rebuild after the failed build: %s", why);
        } else {
            dict_use(c, d, x, n, ux, nux);
        }
    } else {
        bad(c, "value", "varintDictBuild returned %d", rc);
    }
out:
    varintDictFree(d);
    free(y);
    free(uy);
    free(ux);
}

/* --------------------------------------------------------------- encode */
static void f_dict_encode(ctx *c) {
    size_t n = c->a.n, cap = dict_cap(n);
    uint8_t *buf = (uint8_t *)xmalloc(cap);
    memset(buf, 0xA5, cap);
    call_begin(c);
    size_t len = varintDictEncode(buf, c->a.v, n);
    call_end(c);
    if (len == 0) {
        reported_failure(c, "0");
    } else {
        dict_roundtrip(c, buf, len, cap, c->a.v, n, "varintDictEncode");
    }
    free(buf);
}

/* fault-free encoding kept in c->enc (input of the decoders, reference size) */
static int dict_prepare(ctx *c) {
    if (c->enc) {
        return 1;
    }
    size_t n = c->a.n, cap = dict_cap(n);
    uint8_t *buf = (uint8_t *)xmalloc(cap);
    memset(buf, 0xA5, cap);
    size_t len = varintDictEncode(buf, c->a.v, n);
    if (len == 0 || len > cap) {
        free(buf);
        bad(c, "failure", "fault-free varintDictEncode returned %zu", len);
        return 0;
    }
    if (dict_roundtrip(c, buf, len, cap, c->a.v, n, "varintDictEncode")) {
        free(buf);
        return 0;
    }
    c->enc = padded_copy(buf, len, 64);
    c->enclen = len;
    free(buf);
    return 1;
}

static void f_dict_size(ctx *c) {
    if (!dict_prepare(c)) {
        return;
    }
    call_begin(c);
    size_t sz = varintDictEncodedSize(c->a.v, c->a.n);
    call_end(c);
    if (sz == 0) {
        reported_failure(c, "0");
    } else if (sz != c->enclen) {
        bad(c, "value", "varintDictEncodedSize=%zu, the encoder writes %zu", sz,
            c->enclen);
    }
}

static void f_dict_decode(ctx *c) {
    if (!dict_prepare(c)) {
        return;
    }
    size_t n = c->a.n, cnt = (size_t)0xA5A5A5A5A5A5A5A5ULL, at;
    call_begin(c);
    uint64_t *dec = varintDictDecode(c->enc, c->enclen, &cnt);
    call_end(c);
    if (!dec) {
        reported_failure(c, "NULL");
        return;
    }
    if (cnt != n) {
        bad(c, "value", "varintDictDecode count=%zu, expected %zu", cnt, n);
    } else if (first_diff_u64(dec, c->a.v, n, &at)) {
        bad(c, "value", "varintDictDecode [%zu]=%llu, expected %llu", at,
            (unsigned long long)dec[at], (unsigned long long)c->a.v[at]);
    }
    vf_lib_free(dec);
}

static void f_dict_decode_into(ctx *c) {
    if (!dict_prepare(c)) {
        return;
    }
    size_t n = c->a.n, at;
    size_t room = n + ((c->st & 1) ? 0 : 5);
    uint64_t *out = (uint64_t *)xmalloc(room * sizeof(uint64_t));
    memset(out, 0xA5, room * sizeof(uint64_t));
    call_begin(c);
    size_t got = varintDictDecodeInto(c->enc, c->enclen, out, room);
    call_end(c);
    if (got == 0) {
        reported_failure(c, "0");
    } else if (got != n) {
        bad(c, "value", "varintDictDecodeInto returned %zu, expected %zu", got, n);
    } else if (first_diff_u64(out, c->a.v, n, &at)) {
        bad(c, "value", "varintDictDecodeInto [%zu]=%llu, expected %llu", at,
            (unsigned long long)out[at], (unsigned long long)c->a.v[at]);
    }
    free(out);
}

static void f_dict_stats(ctx *c) {
    if (!dict_prepare(c)) {
        return;
    }
    size_t n = c->a.n;
    uint64_t *u = NULL;
    size_t nu = uniq_sorted(c->a.v, n, &u);
    free(u);
    varintDictStats s;
    memset(&s, 0xA5, sizeof(s));
    call_begin(c);
    int rc = varintDictGetStats(c->a.v, n, &s);
    call_end(c);
    if (rc == -1) {
        reported_failure(c, "-1");
    } else if (rc != 0) {
        bad(c, "value", "varintDictGetStats returned %d", rc);
    } else if (s.uniqueCount != nu || s.totalCount != n ||
               s.totalBytes != c->enclen || s.originalBytes != n * 8) {
        /* facts about the data, and the size the encoder itself wrote */
        bad(c, "value",
            "stats unique=%zu total=%zu totalBytes=%zu originalBytes=%zu; "
            "expected %zu %zu %zu %zu",
            s.uniqueCount, s.totalCount, s.totalBytes, s.originalBytes, nu, n,
            c->enclen, n * 8);
    } else if (c->k == 0) {
        c->ds0 = s;
    } else if (s.dictBytes != c->ds0.dictBytes ||
               s.indexBytes != c->ds0.indexBytes ||
               memcmp(&s.compressionRatio, &c->ds0.compressionRatio,
                      sizeof(float)) != 0 ||
               memcmp(&s.spaceReduction, &c->ds0.spaceReduction,
                      sizeof(float)) != 0) {
        /* how the total splits into sections is the codec's layout: compared
         * with the fault-free answer for the same input, not with a model */
        bad(c, "value",
            "stats dictBytes=%zu indexBytes=%zu ratio=%g; the fault-free call "
            "gave %zu %zu %g",
            s.dictBytes, s.indexBytes, (double)s.compressionRatio,
            c->ds0.dictBytes, c->ds0.indexBytes, (double)c->ds0.compressionRatio);
    }
}

#endif
