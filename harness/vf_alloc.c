#define VF_ALLOC_NO_RENAME 1
#include "vf_alloc.h"

#include <stdio.h>

#define LIVE_CAP (1u << 16)
static struct {
    void *p;
    size_t n;
} g_live[LIVE_CAP];
static size_t g_nlive, g_livebytes;
static uint64_t g_count, g_fail_at, g_fail_from;
static size_t g_maxreq;
static int g_fill = -1;
static char g_sites[128][48];
static char g_failed[48];
static int g_failed_set;
static int g_seen_lib_call;

#define TOMB ((void *)1)

static size_t slot_of(void *p) {
    return (size_t)(((uintptr_t)p >> 4) * 0x9e3779b97f4a7c15ULL) & (LIVE_CAP - 1);
}

static void live_add(void *p, size_t n) {
    size_t i = slot_of(p);
    for (size_t k = 0; k < LIVE_CAP; k++, i = (i + 1) & (LIVE_CAP - 1)) {
        if (g_live[i].p == NULL || g_live[i].p == TOMB) {
            g_live[i].p = p;
            g_live[i].n = n;
            g_nlive++;
            g_livebytes += n;
            return;
        }
    }
    fprintf(stderr, "vf_alloc: live table full\n");
    abort();
}

static int live_del(void *p) {
    size_t i = slot_of(p);
    for (size_t k = 0; k < LIVE_CAP; k++, i = (i + 1) & (LIVE_CAP - 1)) {
        if (g_live[i].p == NULL) {
            return 0;
        }
        if (g_live[i].p == p) {
            g_live[i].p = TOMB;
            g_nlive--;
            g_livebytes -= g_live[i].n;
            return 1;
        }
    }
    return 0;
}

static int should_fail(size_t n, const char *fn, int line) {
    g_seen_lib_call = 1;
    g_count++;
    if (n > g_maxreq) {
        g_maxreq = n;
    }
    if (g_count <= 128) {
        snprintf(g_sites[g_count - 1], sizeof(g_sites[0]), "%s:%d", fn, line);
    }
    if ((g_fail_at && g_count == g_fail_at) ||
        (g_fail_from && g_count >= g_fail_from)) {
        if (!g_failed_set) {
            snprintf(g_failed, sizeof(g_failed), "%s:%d", fn, line);
            g_failed_set = 1;
        }
        return 1;
    }
    return 0;
}

void *vf_malloc(size_t n, const char *fn, int line) {
    if (should_fail(n, fn, line)) {
        return NULL;
    }
    void *p = malloc(n);
    if (p) {
        if (g_fill >= 0) {
            memset(p, g_fill, n);
        }
        live_add(p, n);
    }
    return p;
}

void *vf_calloc(size_t a, size_t b, const char *fn, int line) {
    size_t n = a * b;
    if (a && n / a != b) {
        n = (size_t)-1;
    }
    if (should_fail(n, fn, line)) {
        return NULL;
    }
    void *p = calloc(a, b);
    if (p) {
        live_add(p, n);
    }
    return p;
}

void *vf_realloc(void *old, size_t n, const char *fn, int line) {
    if (should_fail(n, fn, line)) {
        return NULL; /* old block stays valid and live, as with realloc */
    }
    size_t oldn = 0;
    int found = 0;
    if (old) {
        size_t i = slot_of(old);
        for (size_t k = 0; k < LIVE_CAP; k++, i = (i + 1) & (LIVE_CAP - 1)) {
            if (g_live[i].p == NULL) {
                break;
            }
            if (g_live[i].p == old) {
                oldn = g_live[i].n;
                found = 1;
                break;
            }
        }
        if (!found) {
            /* not ours (allocated outside the renamed code): plain realloc */
            return realloc(old, n);
        }
    }
    /* always move, so stale pointers into the old block are caught by ASan */
    void *p = malloc(n ? n : 1);
    if (!p) {
        return NULL;
    }
    if (g_fill >= 0) {
        memset(p, g_fill, n ? n : 1);
    }
    if (old) {
        memcpy(p, old, oldn < n ? oldn : n);
        live_del(old);
        free(old);
    }
    live_add(p, n);
    return p;
}

void vf_free(void *p) {
    if (!p) {
        return;
    }
    live_del(p);
    free(p);
}

void vf_lib_free(void *p) {
    vf_free(p);
}

void vf_alloc_reset(void) {
    g_count = 0;
    g_fail_at = 0;
    g_fail_from = 0;
    g_maxreq = 0;
    g_failed_set = 0;
    g_failed[0] = 0;
}
void vf_alloc_fail_at(uint64_t k) {
    g_fail_at = k ? g_count + k : 0;
    g_fail_from = 0;
    g_failed_set = 0;
}
void vf_alloc_fail_from(uint64_t k) {
    g_fail_from = k ? g_count + k : 0;
    g_fail_at = 0;
    g_failed_set = 0;
}
uint64_t vf_alloc_count(void) {
    return g_count;
}
size_t vf_alloc_live(void) {
    return g_nlive;
}
size_t vf_alloc_live_bytes(void) {
    return g_livebytes;
}
size_t vf_alloc_max_request(void) {
    return g_maxreq;
}
const char *vf_alloc_site(uint64_t k) {
    if (k < 1 || k > 128 || k > g_count) {
        return "?";
    }
    return g_sites[k - 1];
}
const char *vf_alloc_failed_site(void) {
    return g_failed_set ? g_failed : NULL;
}
void vf_alloc_fill(int byte) {
    g_fill = byte;
}
int vf_alloc_active(void) {
#ifdef VF_OOM
    return 1;
#else
    return g_seen_lib_call;
#endif
}
