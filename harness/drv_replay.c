/* drv_replay.c - plain C driver: replays case files (and the deterministic
 * sweep) through the property harness.  Bypasses rapidcheck and libFuzzer.
 *
 *   replay [--sweep] [--quiet] [--list FILE] file...
 *
 * Output per file:  "OK <path>"  or  "FAIL <path> site=<s> kind=<k> :: detail"
 * Exit status: 0 all OK, 1 at least one FAIL. */
#include "vf.h"

static uint8_t *slurp(const char *path, size_t *len) {
    FILE *f = fopen(path, "rb");
    if (!f) {
        return NULL;
    }
    fseek(f, 0, SEEK_END);
    long n = ftell(f);
    fseek(f, 0, SEEK_SET);
    uint8_t *b = (uint8_t *)malloc(n > 0 ? (size_t)n : 1);
    if (n > 0 && fread(b, 1, (size_t)n, f) != (size_t)n) {
        fclose(f);
        free(b);
        return NULL;
    }
    fclose(f);
    *len = (size_t)n;
    return b;
}

static int run_file(const char *path, int quiet, int verbose) {
    size_t len = 0;
    uint8_t *b = slurp(path, &len);
    if (!b) {
        printf("ERROR %s unreadable\n", path);
        return 2;
    }
    /* exact-size copy so over-reads of the case itself are visible too */
    uint8_t *c = (uint8_t *)malloc(len ? len : 1);
    memcpy(c, b, len);
    free(b);
    vf_report rep;
    int bad = vf_run_case(c, len, &rep);
    if (bad) {
        printf("FAIL %s site=%s kind=%s :: %s\n", path, rep.site, rep.kind,
               rep.detail);
        printf("  case: %s\n", rep.desc);
    } else if (!quiet) {
        printf("OK %s\n", path);
        if (verbose) {
            printf("  case: %s\n", rep.desc);
        }
    }
    fflush(stdout);
    free(c);
    return bad ? 1 : 0;
}

int main(int argc, char **argv) {
    int rc = 0, quiet = 0, verbose = 0, sweep = 0;
    vf_init("replay");
    for (int i = 1; i < argc; i++) {
        if (strcmp(argv[i], "--sweep") == 0) {
            sweep = 1;
        } else if (strcmp(argv[i], "--quiet") == 0) {
            quiet = 1;
        } else if (strcmp(argv[i], "--verbose") == 0) {
            verbose = 1;
        } else if (strcmp(argv[i], "--dump") == 0 && i + 1 < argc) {
            /* [u32 length][bytes]* as written by VF_DUMP_CASES */
            FILE *d = fopen(argv[++i], "rb");
            uint32_t n;
            unsigned long idx = 0;
            while (d && fread(&n, sizeof(n), 1, d) == 1) {
                uint8_t *c = (uint8_t *)malloc(n ? n : 1);
                if (n && fread(c, 1, n, d) != n) {
                    free(c);
                    break;
                }
                vf_report rep;
                if (vf_run_case(c, n, &rep)) {
                    printf("FAIL %s#%lu site=%s kind=%s :: %s\n  case: %s\n",
                           argv[i], idx, rep.site, rep.kind, rep.detail,
                           rep.desc);
                    const char *fp = getenv("VF_FAIL");
                    if (fp) {
                        vf_save_case(fp, c, n);
                    }
                    rc |= 1;
                    free(c);
                    break;
                }
                free(c);
                idx++;
            }
            if (d) {
                fclose(d);
            }
        } else if (strcmp(argv[i], "--list") == 0 && i + 1 < argc) {
            FILE *l = fopen(argv[++i], "r");
            char line[4096];
            while (l && fgets(line, sizeof(line), l)) {
                line[strcspn(line, "\r\n")] = 0;
                if (line[0]) {
                    rc |= run_file(line, quiet, verbose);
                }
            }
            if (l) {
                fclose(l);
            }
        } else {
            rc |= run_file(argv[i], quiet, verbose);
        }
    }
    if (sweep) {
        vf_report rep;
        if (vf_run_sweep(&rep)) {
            printf("FAIL <sweep> site=%s kind=%s :: %s\n", rep.site, rep.kind,
                   rep.detail);
            rc |= 1;
        } else if (!quiet) {
            printf("OK <sweep>\n");
        }
    }
    vf_finish();
    return rc ? 1 : 0;
}
