#!/usr/bin/env python3
"""Writes the committed seed corpus for C14 into corpus/C14/.

Case layout (see c14_hostile.c):  entry:1 cap:1 mode:1  then raw bytes
(mode 0) or an array descriptor + trunc:2 + mode specific bytes.

The raw-mode seeds carry small well-formed-looking byte strings for every
entry point, written here from the layouts documented at the time of writing
(tagged varint table of varintTagged.c, dictionary / RLE / bitmap layouts of
the header comments, textbook Elias codes), so that the fuzzer starts from
inputs that get past the first header checks.  They are INPUTS ONLY: a raw-mode
case carries no expectation about what decoding gives (mode 0 of c14_hostile.c
passes no `expect`), so a seed that stops being a valid encoding after a
format change merely becomes a less useful starting point - no oracle is keyed
on "this seed is valid".  The structured seeds are short descriptors for modes
1-3 (there the encoding is produced by the library's own encoder at run time),
and the `w-*` files are hand-built inputs for the individual hostile-input
defects of DESIGN section 6 #20-#23.
"""
import os
import struct
import sys

E_TAGGED, E_DICT, E_DICTINTO, E_GAMMA, E_DELTA, E_BITMAP, E_RLE = range(7)
M_RAW, M_TRUNC, M_MUT, M_HOSTILE = range(4)
# vf_arr.h shapes
SH_EXPLICIT, SH_CONST, SH_RAMP_UP, SH_RAMP_DOWN = 0, 1, 2, 3
SH_FEW_UNIQUE = 7


def tagged(v):
    if v <= 240:
        return bytes([v])
    if v <= 2287:
        return bytes([(v - 240) // 256 + 241, (v - 240) % 256])
    if v <= 67823:
        return bytes([249, (v - 2288) // 256, (v - 2288) % 256])
    n = (v.bit_length() + 7) // 8
    n = max(n, 3)
    return bytes([247 + n]) + v.to_bytes(n, 'big')


def dict_encode(vals):
    uniq = sorted(set(vals))
    w = max(1, ((len(uniq) - 1).bit_length() + 7) // 8)
    out = tagged(len(uniq)) + b''.join(tagged(u) for u in uniq)
    out += tagged(len(vals))
    for v in vals:
        out += uniq.index(v).to_bytes(w, 'little')
    return out


def gamma_bits(v):
    n = v.bit_length() - 1
    return '0' * n + format(v, 'b')


def delta_bits(v):
    n = v.bit_length() - 1
    return gamma_bits(n + 1) + (format(v, 'b')[1:] if n else '')


def pack_bits(s):
    pad = (-len(s)) % 8
    s2 = s + '0' * pad
    return bytes(int(s2[i:i + 8], 2) for i in range(0, len(s2), 8)), pad


def bitmap_array(members):
    return bytes([0]) + struct.pack('<I', len(members)) + \
        b''.join(struct.pack('<H', m) for m in members)


def bitmap_runs(start, length):
    return bytes([2]) + struct.pack('<I', length) + struct.pack('<I', 1) + \
        struct.pack('<HH', start, length)


def rle(vals):
    out = b''
    i = 0
    while i < len(vals):
        j = i
        while j < len(vals) and vals[j] == vals[i]:
            j += 1
        out += tagged(j - i) + tagged(vals[i])
        i = j
    return out


def hdr(entry, cap, mode, slack=0, sizecls=0):
    return bytes([entry, cap, mode | (slack << 2) | (sizecls << 5)])


# array descriptors (vf_take_array byte format)
D_ONE = bytes([0, 0, 0, SH_CONST, 2, 5])
D_FIVE = bytes([0, 4, 0, SH_RAMP_UP, 2, 1, 1, 1])
D_FEW = bytes([0, 11, 0, SH_FEW_UNIQUE, 1, 2, 7, 2, 9, 1, 0, 0, 0])
D_257 = bytes([2, 15, 0, SH_RAMP_UP, 2, 1, 1, 1])
D_BIG = bytes([0, 2, 0, SH_RAMP_UP, 6, 0, 0, 0, 0, 0, 0, 0, 0x80, 1, 1])
B_SIX = bytes([0, 5, 0, 0, 0xf0, 0xff, 3, 1, 0, 0, 0])
B_4224 = bytes([3, 0, 33, 0, 7, 0, 2, 5, 0, 0, 0])


def main():
    out = os.path.join(os.path.dirname(os.path.dirname(os.path.abspath(__file__))),
                       'corpus', 'C14')
    if len(sys.argv) > 1:
        out = sys.argv[1]
    os.makedirs(out, exist_ok=True)
    files = {}

    files['empty'] = b''
    # ---- raw, well-formed by the present layouts (inputs, not oracles) ---
    for i, v in enumerate([0, 240, 241, 2287, 2288, 67823, 67824, 1 << 32,
                           (1 << 64) - 1]):
        files['raw-tagged-%d' % i] = hdr(E_TAGGED, 0, M_RAW) + tagged(v)
    small = [5, 5, 7, 5, 9, 7]
    wide = list(range(257))  # 257 entries: two-byte indices
    for e, name in ((E_DICT, 'dict'), (E_DICTINTO, 'dictinto')):
        files['raw-%s-small' % name] = hdr(e, 0, M_RAW) + dict_encode(small)
        files['raw-%s-width2' % name] = hdr(e, 0, M_RAW) + dict_encode(wide)
        files['raw-%s-big-values' % name] = hdr(e, 0, M_RAW) + \
            dict_encode([1 << 63, 3, 1 << 63, 70000])
    ev = [1, 2, 3, 10, 100, 1000, 1, 1 << 40]
    for e, name, fn in ((E_GAMMA, 'gamma', gamma_bits),
                        (E_DELTA, 'delta', delta_bits)):
        b, pad = pack_bits(''.join(fn(v) for v in ev))
        files['raw-%s' % name] = hdr(e, 0, M_RAW, slack=pad) + b
        b, pad = pack_bits(fn((1 << 64) - 1) + fn(1))
        files['raw-%s-max' % name] = hdr(e, 0, M_RAW, slack=pad) + b
    files['raw-bitmap-array'] = hdr(E_BITMAP, 0, M_RAW) + bitmap_array([1, 5, 9, 65535])
    files['raw-bitmap-empty'] = hdr(E_BITMAP, 0, M_RAW) + bitmap_array([])
    files['raw-bitmap-runs'] = hdr(E_BITMAP, 0, M_RAW) + bitmap_runs(10, 5000)
    files['raw-rle'] = hdr(E_RLE, 0, M_RAW) + rle([7] * 3 + [9] * 2 + [1000] + [0] * 300)
    files['raw-rle-big'] = hdr(E_RLE, 0, M_RAW) + rle([(1 << 64) - 1] * 70000)

    # ---- structured seeds: every entry x modes 1..3 ---------------------
    names = ['tagged', 'dict', 'dictinto', 'gamma', 'delta', 'bitmap', 'rle']
    for e in range(1, 7):
        d = B_SIX if e == E_BITMAP else D_FEW
        files['trunc-%s' % names[e]] = hdr(e, 0, M_TRUNC) + d + b'\0\0'
        files['mut-%s' % names[e]] = hdr(e, 0, M_MUT) + d + b'\0\0' + \
            bytes([1, 3, 0, 0, 1, 0, 4])
        files['hostile-%s' % names[e]] = hdr(e, 0, M_HOSTILE) + d + b'\0\0' + \
            bytes([1, 11, 0, 0, 0])
    files['trunc-bitmap-dense'] = hdr(E_BITMAP, 0, M_TRUNC, sizecls=3) + B_4224 + b'\0\0'
    files['trunc-bitmap-runs'] = hdr(E_BITMAP, 3, M_TRUNC) + B_SIX[:4] + \
        bytes([9, 0, 3, 1, 0, 0, 0]) + b'\0\0'
    files['trunc-dict-257'] = hdr(E_DICT, 0, M_TRUNC) + D_257 + b'\0\0'
    files['trunc-gamma-big'] = hdr(E_GAMMA, 3, M_TRUNC) + D_BIG + b'\0\0'
    files['trunc-delta-big'] = hdr(E_DELTA, 8, M_TRUNC) + D_BIG + b'\0\0'
    # tagged: value selector [6 = raw 8 bytes], trunc=0
    files['trunc-tagged'] = hdr(E_TAGGED, 0, M_TRUNC) + bytes([6]) + \
        (0x0123456789abcdef).to_bytes(8, 'little') + b'\0\0'
    files['mut-tagged'] = hdr(E_TAGGED, 0, M_MUT) + bytes([3, 0x34, 0x12]) + \
        b'\0\0' + bytes([0, 0, 0, 3])
    files['hostile-tagged'] = hdr(E_TAGGED, 0, M_HOSTILE) + bytes([0, 0, 0]) + \
        b'\0\0' + bytes([14, 5, 1, 2, 3, 4, 5])

    # ---- inputs for the individual defects of DESIGN section 6 ----------
    # #20 one-byte dictionary input: the count varint is read behind it
    files['w-dict-decode-1byte'] = hdr(E_DICT, 0, M_RAW) + b'\0'
    files['w-dict-into-1byte'] = hdr(E_DICTINTO, 0, M_RAW) + b'\0'
    # #20 announced 9-byte dictionary size in a 1-byte buffer
    files['w-dict-decode-ff'] = hdr(E_DICT, 0, M_RAW) + b'\xff'
    # #20 count = 2^63+1 with 2-byte indices: count*2 wraps to 2, 8-byte output
    files['w-dict-decode-count-wrap'] = hdr(E_DICT, 0, M_HOSTILE) + D_257 + \
        b'\0\0' + bytes([1, 21, 0])
    # #20 count = 2^64-2: ptr + count*width wraps below end, 16 EiB request
    files['w-dict-decode-count-ptrwrap'] = hdr(E_DICT, 0, M_HOSTILE) + D_257 + \
        b'\0\0' + bytes([1, 23, 0])
    files['w-dict-decode-count-ptrwrap-w1'] = hdr(E_DICT, 0, M_HOSTILE) + D_ONE + \
        b'\0\0' + bytes([1, 23, 0])
    # dictionary size at / around the 1 Mi cap
    for i, hs in enumerate((10, 11, 12)):
        files['w-dict-size-cap-%d' % i] = hdr(E_DICT, 0, M_HOSTILE) + D_FIVE + \
            b'\0\0' + bytes([0, hs, 0])
        files['w-dictinto-size-cap-%d' % i] = hdr(E_DICTINTO, 0, M_HOSTILE) + D_FIVE + \
            b'\0\0' + bytes([0, hs, 0])
    # #21 zero run that continues behind the declared bits
    files['w-gamma-zero-run'] = hdr(E_GAMMA, 0, M_RAW) + b'\0'
    files['w-delta-zero-run'] = hdr(E_DELTA, 0, M_RAW) + b'\0'
    # #21 payload cut short inside the budget (63 zeros, 1, 5 payload bits)
    files['w-gamma-short-payload'] = hdr(E_GAMMA, 0, M_HOSTILE) + D_ONE + \
        b'\0\0' + bytes([2, 62, 0, 5])
    # #21 declared bit count ends inside the last byte of a valid encoding
    files['w-gamma-budget-in-byte'] = hdr(E_GAMMA, 8, M_TRUNC) + D_FIVE + b'\x0b\0'
    # #21 delta code announcing 66 bits (length > 64)
    files['w-delta-length-66'] = hdr(E_DELTA, 0, M_HOSTILE) + D_ONE + \
        b'\0\0' + bytes([3, 2, 0, 79])
    files['w-delta-length-2p32'] = hdr(E_DELTA, 0, M_HOSTILE) + D_ONE + \
        b'\0\0' + bytes([3, 6, 0, 79])
    # #22 bitmap input shorter than its 5-byte header / its payload
    files['w-bitmap-len0'] = hdr(E_BITMAP, 0, M_RAW)
    files['w-bitmap-len4'] = hdr(E_BITMAP, 0, M_RAW) + b'\0\1\0\0'
    files['w-bitmap-array-short'] = hdr(E_BITMAP, 0, M_RAW) + bytes([0]) + \
        struct.pack('<I', 3) + struct.pack('<HH', 1, 2)
    files['w-bitmap-bitmap-short'] = hdr(E_BITMAP, 0, M_RAW) + bytes([1]) + \
        struct.pack('<I', 8) + b'\xff' * 64
    files['w-bitmap-runs-short'] = hdr(E_BITMAP, 0, M_RAW) + bytes([2]) + \
        struct.pack('<I', 8) + struct.pack('<I', 3) + struct.pack('<HH', 1, 8)
    # #22 cardinality 2^32-1: 8 GiB request
    files['w-bitmap-cardinality-max'] = hdr(E_BITMAP, 0, M_HOSTILE) + B_SIX + \
        b'\0\0' + bytes([1, 22, 0])
    # #22 unknown container type
    files['w-bitmap-type-3'] = hdr(E_BITMAP, 0, M_HOSTILE) + B_SIX + \
        b'\0\0' + bytes([0, 0, 0])
    # #23 run whose value lies behind encodedSize
    files['w-rle-length-only'] = hdr(E_RLE, 0, M_RAW) + b'\x05'
    files['w-rle-value-cut'] = hdr(E_RLE, 0, M_RAW) + b'\x05\xff\x01'
    files['w-rle-len0'] = hdr(E_RLE, 0, M_HOSTILE) + D_FEW + b'\0\0' + bytes([0, 0, 1])

    for name, data in sorted(files.items()):
        with open(os.path.join(out, name + '.case'), 'wb') as f:
            f.write(data)
    print('%d files written to %s' % (len(files), out))


if __name__ == '__main__':
    main()
