/* c11_bitstream_inst.h - body of one instantiation.  The including file
 * defines C11_TAG (u64/u32/u16/u8), C11_BITS, C11_SIGNED (the signed type of
 * the word width) and, except for the default instantiation, VBITS and
 * VBITSVAL exactly as docs/modules/varintBitstream.md shows. */
#include "c11_bitstream.h"

#include "varintBitstream.h"

#define C11_CAT2(a, b) a##b
#define C11_CAT(a, b) C11_CAT2(a, b)
#define C11_FN(name) C11_CAT(C11_CAT(c11_, C11_TAG), _##name)
#define C11_STR2(x) #x
#define C11_STR(x) C11_STR2(x)

_Static_assert(sizeof(vbits) * 8 == C11_BITS, "word type");
_Static_assert(sizeof(vbitsVal) * 8 == C11_BITS, "value type");

static void C11_FN(set)(void *stream, size_t bitOffset, size_t bits,
                        uint64_t value) {
    varintBitstreamSet((vbits *)stream, bitOffset, bits, (vbitsVal)value);
}

static uint64_t C11_FN(get)(const void *stream, size_t bitOffset, size_t bits) {
    return (uint64_t)varintBitstreamGet((const vbits *)stream, bitOffset, bits);
}

static uint64_t C11_FN(prepare)(int64_t negative, unsigned bits) {
    vbitsVal x = (vbitsVal)negative;
    _varintBitstreamPrepareSigned(x, bits);
    return (uint64_t)x;
}

static int64_t C11_FN(restore)(uint64_t stored, unsigned bits) {
    vbitsVal y = (vbitsVal)stored;
    _varintBitstreamRestoreSigned(y, bits);
    return (int64_t)(C11_SIGNED)y;
}

const c11_ops C11_CAT(c11_ops_, C11_TAG) = {
    C11_STR(C11_TAG), C11_BITS,         C11_FN(set),
    C11_FN(get),      C11_FN(prepare), C11_FN(restore),
};
