/* vf.h - common interface between property harnesses and the three drivers
 * (rapidcheck, libFuzzer, replay).  A property harness is one translation unit
 * that defines
 *
 *     const char *vf_prop_id;                       e.g. "C01"
 *     void vf_run(vf_rd *r, vf_report *rep);        bytes -> verdict
 *     void vf_sweep(vf_report *rep);                optional deterministic sweep
 *
 * A harness never calls an RNG, the clock, or depends on addresses: a case is a
 * pure function of its bytes. */
#ifndef VF_H
#define VF_H

#include <stdbool.h>
#include <stddef.h>
#include <stdint.h>
#include <stdio.h>
#include <stdlib.h>
#include <string.h>

#ifdef __cplusplus
extern "C" {
#endif

/* ------------------------------------------------------------------ reader */
typedef struct vf_rd {
    const uint8_t *p;
    size_t n;
    size_t pos;
} vf_rd;

static inline size_t vf_left(const vf_rd *r) {
    return r->n - r->pos;
}
static inline uint8_t vf_u8(vf_rd *r) {
    return r->pos < r->n ? r->p[r->pos++] : 0;
}
static inline uint16_t vf_u16(vf_rd *r) {
    uint16_t a = vf_u8(r);
    return (uint16_t)(a | ((uint16_t)vf_u8(r) << 8));
}
static inline uint32_t vf_u32(vf_rd *r) {
    uint32_t a = vf_u16(r);
    return a | ((uint32_t)vf_u16(r) << 16);
}
static inline uint64_t vf_raw64(vf_rd *r) {
    uint64_t a = vf_u32(r);
    return a | ((uint64_t)vf_u32(r) << 32);
}
/* value in [lo, hi] using as few bytes as the span needs; exhausted -> lo */
uint64_t vf_range(vf_rd *r, uint64_t lo, uint64_t hi);
/* boundary-biased 64-bit value (DESIGN 2.2); exhausted -> 0 */
uint64_t vf_u64(vf_rd *r);
/* boundary-biased value that fits in `bits` bits (1..64) */
uint64_t vf_ubits(vf_rd *r, unsigned bits);
/* the boundary table used by vf_u64 (for sweeps) */
extern const uint64_t *vf_boundaries(size_t *count);
/* deterministic expansion of bulk content from a seed (pure function) */
static inline uint64_t vf_xs(uint64_t *s) {
    uint64_t x = *s;
    x ^= x << 13;
    x ^= x >> 7;
    x ^= x << 17;
    return *s = x;
}

/* ------------------------------------------------------------------ report */
typedef struct vf_report {
    int violated;
    char site[64];    /* sub-check that fired, e.g. "tagged.put64"   */
    char kind[32];    /* oracle that fired, e.g. "value", "length"   */
    char detail[512]; /* human-readable witness                       */
    char desc[768];   /* decoded case (for samples / replay output)   */
    size_t desclen;
} vf_report;

/* record a violation (first one wins); returns 1 so `return vf_fail(...)` works
 * in int functions */
int vf_fail(vf_report *rep, const char *site, const char *kind, const char *fmt,
            ...) __attribute__((format(printf, 4, 5)));
/* append to the decoded-case description */
void vf_desc(vf_report *rep, const char *fmt, ...)
    __attribute__((format(printf, 2, 3)));

/* ---------------------------------------------------------------- counters */
/* named class counter (generator health / distribution) */
void vf_class(const char *name);
void vf_class_n(const char *name, uint64_t n);
/* number of oracle evaluations performed by this case (default: 1 per case,
 * harnesses that evaluate several sub-cases per case add the extra ones) */
void vf_evals(uint64_t n);
/* a sub-case that is non-trivial by the property's rule; `h` identifies the
 * *decoded* sub-case so distinct ones can be counted */
void vf_nontrivial(uint64_t h);
/* precondition discard (counted, should stay small) */
void vf_discard(const char *why);
/* hash helper */
static inline uint64_t vf_mix(uint64_t h, uint64_t v) {
    h ^= v + 0x9e3779b97f4a7c15ULL + (h << 6) + (h >> 2);
    h *= 0xff51afd7ed558ccdULL;
    h ^= h >> 33;
    return h;
}
uint64_t vf_hash_bytes(uint64_t h, const void *p, size_t n);

/* known findings: returns true when finding `id` is listed as "known" for this
 * run, in which case the caller skips the sub-case; the skip is counted */
bool vf_known(const char *id);

/* ------------------------------------------------------------- environment */
/* tier: 0 quick, 1 thorough (from VERIF_TIER / VF_TIER) */
int vf_tier(void);
/* build configuration name ("asan", "rel", "dbg", ...) */
const char *vf_config(void);
/* 1 when built with AddressSanitizer */
int vf_have_asan(void);

/* exact-size heap buffers: under ASan the redzone is the guard; otherwise a
 * canary tail is appended and checked by vf_guard_check() */
void *vf_exact_alloc(size_t n);
/* returns 0 if intact; otherwise offset (>=1) of first damaged tail byte */
size_t vf_exact_check(const void *p);
void vf_exact_free(void *p);

/* named, partitioned sweeps (thorough tier): vf_sweep() is called once per
 * (name, part); name "" is the default cheap sweep that always runs */
const char *vf_sweep_name(void);
void vf_sweep_part(uint64_t *part, uint64_t *parts);

/* ----------------------------------------------------------------- drivers */
extern const char *vf_prop_id;
void vf_run(vf_rd *r, vf_report *rep);
void vf_sweep(vf_report *rep) __attribute__((weak));
/* optional: default maximum case length in bytes for generated cases */
extern const size_t vf_case_maxlen __attribute__((weak));

/* driver-side (vf_core.c) */
void vf_init(const char *engine);
/* run one case with bookkeeping; returns rep->violated */
int vf_run_case(const uint8_t *data, size_t size, vf_report *rep);
int vf_run_sweep(vf_report *rep);
void vf_finish(void);      /* write the stats file */
void vf_save_case(const char *path, const uint8_t *data, size_t size);

#ifdef __cplusplus
}
#endif
#endif
