/* C11 instantiation: 16-bit words and values, configured as in
 * docs/modules/varintBitstream.md ("Type Configuration") */
#include <stdint.h>
#define VBITS uint16_t
#define VBITSVAL uint16_t
#define C11_TAG u16
#define C11_BITS 16
#define C11_SIGNED int16_t
#include "c11_bitstream_inst.h"
