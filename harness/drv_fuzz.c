/* drv_fuzz.c - libFuzzer entry point: the same bytes -> verdict function as the
 * other drivers; a semantic violation traps after saving the case. */
#include "vf.h"

static int g_init;

static void at_exit_finish(void) {
    vf_finish();
}

int LLVMFuzzerTestOneInput(const uint8_t *data, size_t size) {
    if (!g_init) {
        g_init = 1;
        vf_init("libfuzzer");
        atexit(at_exit_finish);
    }
    vf_report rep;
    if (vf_run_case(data, size, &rep)) {
        fprintf(stderr, "VF-VIOLATION site=%s kind=%s :: %s\n  case: %s\n",
                rep.site, rep.kind, rep.detail, rep.desc);
        const char *path = getenv("VF_CRASH");
        if (path) {
            vf_save_case(path, data, size);
        }
        vf_finish();
        __builtin_trap();
    }
    return 0;
}
