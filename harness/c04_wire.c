/* C04 - scalar wire formats are byte-exact, canonical and length-monotone.
 *
 * case layout:  kind:1 align:1 fill:1 then up to 8 records.
 *   kind % 12 = 0..8  family (vf_ref order): record = { pairmode:1, v:u64,
 *                     wextra:1, [second value: u64] }
 *                       pairmode % 4 = 0 single value
 *                                      1 adjacent pair (v, v+1); bit 2 set:
 *                                        v = documented maximum of length
 *                                        minlen + (pairmode >> 3) % (nlen - 1)
 *                                      2 pair (v, v+delta), delta:u64 biased
 *                                      3 independent pair (a, b), sorted
 *   kind % 12 = 9     Elias gamma: record = { prefixbits:1, n:1, n x u64 }
 *   kind % 12 = 10    Elias delta: same record
 *   kind % 12 = 11    zig-zag:     record = { neg:1, u64 }
 *
 * oracle: vf_ref (encoders written from the documents).  Every forward put
 * entry point of the family (functions and macros) must produce exactly the
 * reference bytes and the reference length; the length predictors must agree;
 * len(a) <= len(b) whenever a < b; the documented per-length maxima take
 * exactly that many bytes and maximum+1 takes more; the exported constants
 * equal the documented tables.  The reference is validated per value by
 * decoding its own output with the reference decoder (site harness.selfcheck:
 * that would be a harness bug, not a library defect). */
#include "vf.h"
#include "vf_ref.h"

#include "varint.h"
#include "varintChained.h"
#include "varintChainedSimple.h"
#include "varintDelta.h"
#include "varintElias.h"
#include "varintExternal.h"
#include "varintExternalBigEndian.h"
#include "varintSplit.h"
#include "varintSplitFull.h"
#include "varintSplitFull16.h"
#include "varintSplitFullNoZero.h"
#include "varintTagged.h"

const char *vf_prop_id = "C04";
const size_t vf_case_maxlen = 96;

/* the header declares Put32, the .c file defines PutVarint32 */
varintWidth varintTaggedPut32(uint8_t *p, uint32_t v) __attribute__((weak));
varintWidth varintTaggedPutVarint32(uint8_t *p, uint32_t v)
    __attribute__((weak));

#define ARENA 64
#define BASE 20

typedef struct ctx {
    vf_report *rep;
    uint8_t arena[ARENA];
    uint8_t fill;
    unsigned align;
    int classes; /* emit class counters (off in the sweep's inner loop) */
} ctx;

static uint8_t *dst_reset(ctx *c) {
    memset(c->arena, c->fill, ARENA);
    return c->arena + BASE + c->align;
}

static void hex(char *o, size_t cap, const uint8_t *p, unsigned n) {
    size_t k = 0;
    o[0] = 0;
    for (unsigned i = 0; i < n && k + 3 < cap; i++) {
        k += (size_t)snprintf(o + k, cap - k, "%02x", p[i]);
    }
}

/* compare what one entry point produced with the reference */
static int cmp_bytes(ctx *c, const char *fam, const char *entry, uint64_t v,
                     const uint8_t *got, unsigned gotlen, const uint8_t *want,
                     unsigned wantlen) {
    char site[64];
    if (gotlen != wantlen) {
        snprintf(site, sizeof(site), "%s.length", fam);
        vf_fail(c->rep, site, "length",
                "%s %s v=%llu: library length %u, documented (shortest) "
                "length %u",
                fam, entry, (unsigned long long)v, gotlen, wantlen);
        return 0;
    }
    if (memcmp(got, want, wantlen) != 0) {
        char a[40], b[40];
        hex(a, sizeof(a), got, gotlen);
        hex(b, sizeof(b), want, wantlen);
        snprintf(site, sizeof(site), "%s.bytes", fam);
        vf_fail(c->rep, site, "bytes",
                "%s %s v=%llu: library wrote %s, documented format is %s", fam,
                entry, (unsigned long long)v, a, b);
        return 0;
    }
    return 1;
}

static int cmp_len(ctx *c, const char *fam, const char *what, uint64_t v,
                   unsigned got, unsigned want) {
    if (got != want) {
        char site[64];
        snprintf(site, sizeof(site), "%s.length", fam);
        vf_fail(c->rep, site, "length",
                "%s v=%llu: %s = %u, documented (shortest) length %u", fam,
                (unsigned long long)v, what, got, want);
        return 0;
    }
    return 1;
}

/* reference validated against its own decoder */
static int selfcheck(ctx *c, enum vf_family f, uint64_t v, const uint8_t *ref,
                     unsigned reflen) {
    uint64_t back = ~v;
    uint8_t tmp[24];
    memset(tmp, 0x5a, sizeof(tmp));
    memcpy(tmp, ref, reflen);
    unsigned dl = vf_ref_decode(f, tmp, reflen, &back);
    if (dl != reflen || back != v || reflen < vf_ref_minlen(f) ||
        reflen > vf_ref_maxlen(f) || vf_ref_len(f, v) != reflen) {
        vf_fail(c->rep, "harness.selfcheck", "reference",
                "%s v=%llu: reference encoder/decoder disagree (len %u/%u, "
                "value %llu)",
                vf_family_name[f], (unsigned long long)v, reflen, dl,
                (unsigned long long)back);
        return 0;
    }
    return 1;
}

static int tagged_width_legal(uint64_t v, unsigned w) {
    switch (w) {
    case 1:
        return v <= 240;
    case 2:
        return v >= 240 && v <= 2287;
    case 3:
        return v >= 2288 && v <= 67823;
    case 9:
        return 1;
    default:
        return w >= 4 && w <= 8 && (v >> (8 * (w - 1))) == 0;
    }
}

/* ---------------------------------------------------------------- families */
/* each returns the library's length of the canonical encoding (0 on failure) */

static unsigned chk_tagged(ctx *c, uint64_t v, unsigned wextra,
                           const uint8_t *ref, unsigned rl) {
    const char *fam = "tagged";
    uint8_t *dst = dst_reset(c);
    unsigned len = varintTaggedPut64(dst, v);
    if (!cmp_bytes(c, fam, "Put64", v, dst, len, ref, rl)) {
        return 0;
    }
    dst = dst_reset(c);
    unsigned l2 = varintTaggedPut64FixedWidth(dst, v, (varintWidth)rl);
    if (!cmp_bytes(c, fam, "Put64FixedWidth(minimal)", v, dst, l2, ref, rl)) {
        return 0;
    }
    dst = dst_reset(c);
    varintTaggedPut64FixedWidthQuick_(dst, v, rl);
    if (!cmp_bytes(c, fam, "Put64FixedWidthQuick_(minimal)", v, dst, rl, ref,
                   rl)) {
        return 0;
    }
    if (v <= 0xffffffffULL) {
        dst = dst_reset(c);
        if (varintTaggedPutVarint32) {
            l2 = varintTaggedPutVarint32(dst, (uint32_t)v);
        } else if (varintTaggedPut32) {
            l2 = varintTaggedPut32(dst, (uint32_t)v);
        } else {
            l2 = varintTaggedPut64(dst, v);
        }
        if (!cmp_bytes(c, fam, "PutVarint32", v, dst, l2, ref, rl)) {
            return 0;
        }
    }
    if (!cmp_len(c, fam, "varintTaggedLen", v, varintTaggedLen(v), rl) ||
        !cmp_len(c, fam, "varintTaggedLenQuick", v, varintTaggedLenQuick(v),
                 rl)) {
        return 0;
    }
    /* a wider legal fixed width is still the documented format: the sqlite4
     * DECODE paragraph must read it back (type byte 247+payload bytes,
     * big-endian payload) */
    {
        unsigned w = rl;
        for (unsigned t = 0; t < 9; t++) {
            unsigned cand = rl + (wextra + t) % (10 - rl);
            if (tagged_width_legal(v, cand)) {
                w = cand;
                break;
            }
        }
        if (w != rl) {
            for (int macro = 0; macro < 2; macro++) {
                dst = dst_reset(c);
                if (macro) {
                    varintTaggedPut64FixedWidthQuick_(dst, v, w);
                } else {
                    varintTaggedPut64FixedWidth(dst, v, (varintWidth)w);
                }
                uint64_t back = ~v;
                unsigned dl = vf_ref_decode(VF_TAGGED, dst, 0, &back);
                if (dl != w || back != v) {
                    char a[40];
                    hex(a, sizeof(a), dst, w);
                    vf_fail(c->rep, "tagged.fixedwidth", "bytes",
                            "tagged %s v=%llu width %u wrote %s, which the "
                            "documented DECODE rule reads as %llu in %u bytes",
                            macro ? "Put64FixedWidthQuick_" : "Put64FixedWidth",
                            (unsigned long long)v, w, a,
                            (unsigned long long)back, dl);
                    return 0;
                }
            }
            if (c->classes) {
                vf_class("tagged.fixedwidth.wider");
            }
        }
    }
    return len;
}

static unsigned chk_external(ctx *c, int be, uint64_t v, unsigned wextra,
                             const uint8_t *ref, unsigned rl) {
    const char *fam = be ? "externalBE" : "externalLE";
    uint8_t *dst = dst_reset(c);
    unsigned len = be ? varintExternalBigEndianPut(dst, v)
                      : varintExternalPut(dst, v);
    if (!cmp_bytes(c, fam, "Put", v, dst, len, ref, rl)) {
        return 0;
    }
    {
        varintWidth e;
        if (be) {
            varintExternalBigEndianUnsignedEncoding(v, e);
        } else {
            varintExternalUnsignedEncoding(v, e);
        }
        if (!cmp_len(c, fam, "UnsignedEncoding", v, e, rl)) {
            return 0;
        }
        if (v <= (uint64_t)INT64_MAX &&
            !cmp_len(c, fam, "varintExternalSignedEncoding", v,
                     varintExternalSignedEncoding((int64_t)v), rl)) {
            return 0;
        }
    }
    /* fixed widths: the minimal one and one wider one; the documented slice is
     * byte i = v >> 8i (LE) or the mirror image (BE) */
    unsigned widths[2] = {rl, rl + wextra % (9 - rl)};
    for (unsigned k = 0; k < 2; k++) {
        unsigned w = widths[k];
        if (k == 1 && w == rl) {
            break;
        }
        uint8_t want[8];
        for (unsigned i = 0; i < w; i++) {
            uint8_t b = (uint8_t)(v >> (8 * i));
            want[be ? w - 1 - i : i] = b;
        }
        unsigned nentry = be ? 2 : 4;
        for (unsigned e = 0; e < nentry; e++) {
            const char *name;
            dst = dst_reset(c);
            if (be) {
                if (e == 0) {
                    name = "PutFixedWidth";
                    varintExternalBigEndianPutFixedWidth(dst, v,
                                                         (varintWidth)w);
                } else {
                    name = "PutFixedWidthQuick_";
                    varintExternalBigEndianPutFixedWidthQuick_(dst, v, w);
                }
            } else {
                switch (e) {
                case 0:
                    name = "PutFixedWidth";
                    varintExternalPutFixedWidth(dst, v, (varintWidth)w);
                    break;
                case 1:
                    name = "PutFixedWidthQuick_";
                    varintExternalPutFixedWidthQuick_(dst, v, w);
                    break;
                case 2:
                    name = "PutFixedWidthQuickMedium_";
                    varintExternalPutFixedWidthQuickMedium_(dst, v, w);
                    break;
                default:
                    name = "PutFixedWidthBig";
                    varintExternalPutFixedWidthBig(dst, (__uint128_t)v,
                                                   (varintWidth)w);
                    break;
                }
            }
            if (!cmp_bytes(c, fam, name, v, dst, w, want, w)) {
                return 0;
            }
        }
        if (k == 1 && c->classes) {
            vf_class(be ? "externalBE.fixedwidth.wider"
                        : "externalLE.fixedwidth.wider");
        }
    }
    return len;
}

static unsigned chk_chained(ctx *c, uint64_t v, const uint8_t *ref,
                            unsigned rl) {
    const char *fam = "chained";
    uint8_t *dst = dst_reset(c);
    unsigned len = varintChainedPutVarint(dst, v);
    if (!cmp_bytes(c, fam, "PutVarint", v, dst, len, ref, rl)) {
        return 0;
    }
    if (v <= 0xffffffffULL) {
        dst = dst_reset(c);
        uint32_t v32 = (uint32_t)v;
        unsigned l2 = varintChained_putVarint32(dst, v32);
        if (!cmp_bytes(c, fam, "_putVarint32", v, dst, l2, ref, rl)) {
            return 0;
        }
    }
    if (!cmp_len(c, fam, "varintChainedVarintLen", v,
                 varintChainedVarintLen(v), rl)) {
        return 0;
    }
    return len;
}

static unsigned chk_csimple(ctx *c, uint64_t v, const uint8_t *ref,
                            unsigned rl) {
    const char *fam = "chainedSimple";
    uint8_t *dst = dst_reset(c);
    unsigned len = varintChainedSimpleEncode64(dst, v);
    if (!cmp_bytes(c, fam, "Encode64", v, dst, len, ref, rl)) {
        return 0;
    }
    if (v <= 0xffffffffULL) {
        dst = dst_reset(c);
        unsigned l2 = varintChainedSimpleEncode32(dst, (uint32_t)v);
        if (!cmp_bytes(c, fam, "Encode32", v, dst, l2, ref, rl)) {
            return 0;
        }
    }
    if (!cmp_len(c, fam, "varintChainedSimpleLength", v,
                 varintChainedSimpleLength(v), rl)) {
        return 0;
    }
    return len;
}

#define CHK_SPLIT(FN, PFX, NAME)                                               \
    static unsigned FN(ctx *c, uint64_t v, const uint8_t *ref, unsigned rl) {  \
        uint8_t *dst = dst_reset(c);                                           \
        unsigned len = 0;                                                      \
        PFX##Put_(dst, len, v);                                                \
        if (!cmp_bytes(c, NAME, "Put_", v, dst, len, ref, rl)) {               \
            return 0;                                                          \
        }                                                                      \
        unsigned pl = 0;                                                       \
        PFX##Length_(pl, v);                                                   \
        if (!cmp_len(c, NAME, "Length_", v, pl, rl)) {                         \
            return 0;                                                          \
        }                                                                      \
        return len;                                                            \
    }

CHK_SPLIT(chk_split, varintSplit, "split")
CHK_SPLIT(chk_sfull, varintSplitFull, "splitFull")
CHK_SPLIT(chk_snz, varintSplitFullNoZero, "splitFullNoZero")
CHK_SPLIT(chk_s16, varintSplitFull16, "splitFull16")

/* byte-exact + canonical for one value; returns the library length, 0 after a
 * violation */
static unsigned check_value(ctx *c, enum vf_family f, uint64_t v,
                            unsigned wextra) {
    uint8_t ref[16];
    memset(ref, 0, sizeof(ref));
    unsigned rl = vf_ref_encode(f, v, ref);
    if (!selfcheck(c, f, v, ref, rl)) {
        return 0;
    }
    unsigned len;
    switch (f) {
    case VF_TAGGED:
        len = chk_tagged(c, v, wextra, ref, rl);
        break;
    case VF_EXTERNAL_LE:
        len = chk_external(c, 0, v, wextra, ref, rl);
        break;
    case VF_EXTERNAL_BE:
        len = chk_external(c, 1, v, wextra, ref, rl);
        break;
    case VF_CHAINED:
        len = chk_chained(c, v, ref, rl);
        break;
    case VF_CHAINED_SIMPLE:
        len = chk_csimple(c, v, ref, rl);
        break;
    case VF_SPLIT:
        len = chk_split(c, v, ref, rl);
        break;
    case VF_SPLIT_FULL:
        len = chk_sfull(c, v, ref, rl);
        break;
    case VF_SPLIT_FULL_NO_ZERO:
        len = chk_snz(c, v, ref, rl);
        break;
    default:
        len = chk_s16(c, v, ref, rl);
        break;
    }
    if (len && c->classes && rl <= 9) {
        static char cls[VF_NFAMILY][10][40];
        if (!cls[f][rl][0]) {
            snprintf(cls[f][rl], sizeof(cls[f][rl]), "%s.len%u",
                     vf_family_name[f], rl);
        }
        vf_class(cls[f][rl]);
    }
    return len;
}

static int check_monotone(ctx *c, enum vf_family f, uint64_t a, unsigned la,
                          uint64_t b, unsigned lb) {
    /* a < b */
    if (la > lb) {
        char site[64];
        snprintf(site, sizeof(site), "%s.monotone", vf_family_name[f]);
        vf_fail(c->rep, site, "monotone",
                "%s: %llu encodes in %u bytes but the larger %llu in %u",
                vf_family_name[f], (unsigned long long)a, la,
                (unsigned long long)b, lb);
        return 0;
    }
    return 1;
}

static int near_boundary(uint64_t v) {
    size_t nb;
    const uint64_t *b = vf_boundaries(&nb);
    for (size_t i = 0; i < nb; i++) {
        if (v - b[i] + 2 <= 4) {
            return 1;
        }
    }
    return 0;
}

/* ------------------------------------------------------------------- Elias */
#define ELIAS_CAP 80 /* 7 prefix bits + 4 x 127 bits = 515 bits = 65 bytes */

static int elias_case(ctx *c, int delta, unsigned prefix, unsigned n,
                      const uint64_t *vals) {
    const char *name = delta ? "eliasDelta" : "eliasGamma";
    char site[64];
    char want[8 + 4 * 140 + 1];
    size_t total = 0;
    uint8_t buf[ELIAS_CAP + 8];
    memset(buf, 0xEE, sizeof(buf));
    varintBitWriter w;
    varintBitWriterInit(&w, buf, ELIAS_CAP);
    /* prefix: alternating bits 1,0,1,... so the codes start unaligned */
    for (unsigned i = 0; i < prefix; i++) {
        want[total++] = (i & 1) ? '0' : '1';
    }
    if (prefix) {
        uint64_t pat = 0;
        for (unsigned i = 0; i < prefix; i++) {
            pat = (pat << 1) | ((i & 1) ? 0 : 1);
        }
        varintBitWriterWrite(&w, pat, prefix);
    }
    for (unsigned k = 0; k < n; k++) {
        char code[160];
        unsigned nb = delta ? vf_ref_delta_bits(vals[k], code)
                            : vf_ref_gamma_bits(vals[k], code);
        /* reference self-check: textbook length formulas and prefix shape */
        {
            unsigned lg = 0;
            for (uint64_t t = vals[k]; t > 1; t >>= 1) {
                lg++;
            }
            unsigned lglen = 0;
            for (uint64_t t = (uint64_t)lg + 1; t > 1; t >>= 1) {
                lglen++;
            }
            unsigned expect = delta ? (2 * lglen + 1 + lg) : (2 * lg + 1);
            if (nb != expect || strlen(code) != nb) {
                vf_fail(c->rep, "harness.selfcheck", "reference",
                        "%s v=%llu: reference code has %u bits, formula says "
                        "%u",
                        name, (unsigned long long)vals[k], nb, expect);
                return 0;
            }
        }
        size_t got = delta ? varintEliasDeltaEncode(&w, vals[k])
                           : varintEliasGammaEncode(&w, vals[k]);
        size_t pred =
            delta ? varintEliasDeltaBits(vals[k]) : varintEliasGammaBits(vals[k]);
        if (got != nb || pred != nb) {
            snprintf(site, sizeof(site), "%s.length", name);
            vf_fail(c->rep, site, "length",
                    "%s v=%llu: encoder returned %zu bits, Bits() says %zu, "
                    "the definition gives %u",
                    name, (unsigned long long)vals[k], got, pred, nb);
            return 0;
        }
        memcpy(want + total, code, nb);
        total += nb;
    }
    want[total] = 0;
    if (w.bitPos != total || varintBitWriterBytes(&w) != (total + 7) / 8) {
        snprintf(site, sizeof(site), "%s.length", name);
        vf_fail(c->rep, site, "length",
                "%s: writer at bit %zu (%zu bytes) after codes totalling %zu "
                "bits",
                name, w.bitPos, varintBitWriterBytes(&w), total);
        return 0;
    }
    /* bit i of the stream is bit (7 - i%8) of byte i/8 (MSB first). Only the
     * code bits are compared: what the writer leaves in the padding bits of
     * the last byte and in the bytes behind it is not specified (a writer that
     * does not pre-clear its buffer is as correct as one that does). */
    for (size_t i = 0; i < total; i++) {
        int bit = (buf[i / 8] >> (7 - (i % 8))) & 1;
        int exp = (want[i] == '1');
        if (bit != exp) {
            snprintf(site, sizeof(site), "%s.bytes", name);
            vf_fail(c->rep, site, "bytes",
                    "%s values[0]=%llu n=%u prefix=%u: stream bit %zu is %d, "
                    "the definition gives %d (expected bits %.80s%s)",
                    name, (unsigned long long)vals[0], n, prefix, i, bit, exp,
                    want, total > 80 ? "..." : "");
            return 0;
        }
    }
    /* array entry point: same bits from bit 0, byte count = ceil(bits/8) */
    {
        uint8_t abuf[80];
        size_t cap =
            delta ? varintEliasDeltaMaxBytes(n) : varintEliasGammaMaxBytes(n);
        if (cap > sizeof(abuf)) {
            vf_fail(c->rep, "harness.selfcheck", "reference",
                    "array buffer too small (%zu)", cap);
            return 0;
        }
        memset(abuf, 0xEE, sizeof(abuf));
        varintEliasMeta meta;
        memset(&meta, 0, sizeof(meta));
        size_t bytes = delta ? varintEliasDeltaEncodeArray(abuf, vals, n, &meta)
                             : varintEliasGammaEncodeArray(abuf, vals, n, &meta);
        size_t abits = total - prefix;
        if (bytes != (abits + 7) / 8 || meta.totalBits != abits ||
            meta.encodedBytes != bytes || meta.count != n) {
            snprintf(site, sizeof(site), "%s.length", name);
            vf_fail(c->rep, site, "length",
                    "%s EncodeArray n=%u values[0]=%llu: returned %zu bytes, "
                    "meta {count %zu, bits %zu, bytes %zu}; the definition "
                    "gives %zu bits",
                    name, n, (unsigned long long)vals[0], bytes, meta.count,
                    meta.totalBits, meta.encodedBytes, abits);
            return 0;
        }
        for (size_t i = 0; i < abits; i++) {
            int bit = (abuf[i / 8] >> (7 - (i % 8))) & 1;
            int exp = (want[prefix + i] == '1');
            if (bit != exp) {
                snprintf(site, sizeof(site), "%s.bytes", name);
                vf_fail(c->rep, site, "bytes",
                        "%s EncodeArray n=%u values[0]=%llu: stream bit %zu is "
                        "%d, the definition gives %d",
                        name, n, (unsigned long long)vals[0], i, bit, exp);
                return 0;
            }
        }
    }
    return 1;
}

/* ----------------------------------------------------------------- zig-zag */
static int zigzag_case(ctx *c, int64_t n) {
    uint64_t want = vf_ref_zigzag(n);
    if (vf_ref_unzigzag(want) != n ||
        (n >= 0 ? (want & 1) != 0 : (want & 1) != 1)) {
        vf_fail(c->rep, "harness.selfcheck", "reference",
                "zig-zag reference does not invert for %lld", (long long)n);
        return 0;
    }
    uint64_t got = varintDeltaZigZag(n);
    if (got != want) {
        vf_fail(c->rep, "zigzag.encode", "value",
                "varintDeltaZigZag(%lld) = %llu, the definition (n>=0 ? 2n : "
                "-2n-1) gives %llu",
                (long long)n, (unsigned long long)got,
                (unsigned long long)want);
        return 0;
    }
    int64_t back = varintDeltaZigZagDecode(want);
    if (back != n) {
        vf_fail(c->rep, "zigzag.decode", "value",
                "varintDeltaZigZagDecode(%llu) = %lld, the definition gives "
                "%lld",
                (unsigned long long)want, (long long)back, (long long)n);
        return 0;
    }
    return 1;
}

/* ------------------------------------------------------------------ driver */
enum { K_GAMMA = VF_NFAMILY, K_DELTA, K_ZIGZAG, K_COUNT };

static uint64_t fix_domain(enum vf_family f, uint64_t v) {
    if (f == VF_SPLIT_FULL_NO_ZERO && v == 0) {
        return 1; /* documented domain: v >= 1 */
    }
    return v;
}

static void family_record(ctx *c, vf_rd *r, enum vf_family f) {
    unsigned pmb = vf_u8(r);
    unsigned pm = pmb & 3;
    uint64_t a = fix_domain(f, vf_u64(r));
    if (pm == 1 && (pmb & 4)) {
        /* adjacent pair exactly at a documented per-length maximum */
        unsigned lo = vf_ref_minlen(f), hi = vf_ref_maxlen(f);
        a = vf_ref_max_for_len(f, lo + (pmb >> 3) % (hi - lo));
    }
    unsigned wextra = vf_u8(r);
    uint64_t b = a;
    const char *fam = vf_family_name[f];
    char cls[64];
    switch (pm) {
    case 0:
        break;
    case 1:
        b = a + 1;
        break;
    case 2:
        b = a + vf_u64(r);
        break;
    default:
        b = vf_u64(r);
        break;
    }
    b = fix_domain(f, b);
    if (b < a) {
        uint64_t t = a;
        a = b;
        b = t;
    }
    unsigned la = check_value(c, f, a, wextra);
    if (!la) {
        vf_desc(c->rep, " {v=%llu}", (unsigned long long)a);
        return;
    }
    if (pm == 0 || a == b) {
        vf_desc(c->rep, " {v=%llu len=%u}", (unsigned long long)a, la);
        if (la >= 2 || near_boundary(a)) {
            vf_nontrivial(vf_mix(vf_mix(f, a), 0));
        }
        return;
    }
    unsigned lb = check_value(c, f, b, wextra);
    if (!lb) {
        vf_desc(c->rep, " {a=%llu b=%llu}", (unsigned long long)a,
                (unsigned long long)b);
        return;
    }
    vf_evals(1);
    vf_desc(c->rep, " {a=%llu len=%u b=%llu len=%u}", (unsigned long long)a, la,
            (unsigned long long)b, lb);
    check_monotone(c, f, a, la, b, lb);
    snprintf(cls, sizeof(cls), "%s.pair.%s", fam,
             pm == 1 ? "adjacent" : pm == 2 ? "delta" : "random");
    vf_class(cls);
    if (la != lb) {
        vf_class(b - a == 1 ? "pair.boundary.adjacent" : "pair.crosses.length");
    }
    if (la >= 2 || lb >= 2 || (b - a == 1 && la != lb)) {
        vf_nontrivial(vf_mix(vf_mix(f, a), b));
    }
}

static void elias_record(ctx *c, vf_rd *r, int delta) {
    unsigned prefix = vf_u8(r) & 7;
    unsigned n = 1 + (vf_u8(r) & 3);
    uint64_t vals[4];
    uint64_t h = vf_mix(delta ? 77 : 76, prefix);
    int nontriv = 0;
    vf_desc(c->rep, " {%s prefix=%u", delta ? "delta" : "gamma", prefix);
    for (unsigned k = 0; k < n; k++) {
        vals[k] = vf_u64(r);
        if (vals[k] == 0) {
            vals[k] = 1; /* documented domain: N >= 1 */
        }
        h = vf_mix(h, vals[k]);
        if (vals[k] > 1) {
            nontriv = 1;
        }
        if (vals[k] >> 63) {
            vf_class("elias.bits64");
        }
        vf_desc(c->rep, " %llu", (unsigned long long)vals[k]);
    }
    vf_desc(c->rep, "}");
    vf_class(delta ? "elias.delta" : "elias.gamma");
    if (prefix) {
        vf_class("elias.unaligned");
    }
    elias_case(c, delta, prefix, n, vals);
    if (nontriv) {
        vf_nontrivial(h);
    }
}

static void zigzag_record(ctx *c, vf_rd *r) {
    unsigned neg = vf_u8(r) & 1;
    uint64_t u = vf_u64(r);
    if (neg) {
        u = ~u + 1; /* two's complement negation, no signed overflow */
    }
    int64_t n = (int64_t)u;
    vf_desc(c->rep, " {zigzag %lld}", (long long)n);
    vf_class(n < 0 ? "zigzag.neg" : "zigzag.nonneg");
    if (n == INT64_MIN) {
        vf_class("zigzag.int64min");
    }
    if (n == INT64_MAX) {
        vf_class("zigzag.int64max");
    }
    zigzag_case(c, n);
    if (n != 0) {
        vf_nontrivial(vf_mix(78, (uint64_t)n));
    }
}

void vf_run(vf_rd *r, vf_report *rep) {
    ctx c;
    memset(&c, 0, sizeof(c));
    c.rep = rep;
    c.classes = 1;
    unsigned kind = vf_u8(r) % K_COUNT;
    c.align = vf_u8(r) & 15;
    c.fill = vf_u8(r);
    vf_desc(rep, "kind=%s align=%u fill=0x%02x",
            kind < VF_NFAMILY ? vf_family_name[kind]
            : kind == K_GAMMA ? "eliasGamma"
            : kind == K_DELTA ? "eliasDelta"
                              : "zigzag",
            c.align, c.fill);
    unsigned n = 0;
    do {
        if (kind < VF_NFAMILY) {
            family_record(&c, r, (enum vf_family)kind);
        } else if (kind == K_ZIGZAG) {
            zigzag_record(&c, r);
        } else {
            elias_record(&c, r, kind == K_DELTA);
        }
        n++;
        if (n > 1) {
            vf_evals(1);
        }
    } while (!rep->violated && n < 8 && vf_left(r) > 0);
}

/* ------------------------------------------------------------------- sweep */
static int constants_check(vf_report *rep) {
    /* VARINT_TAGGED_MAX_n: the SUMMARY table of the sqlite4 description */
    const uint64_t tmax[10] = {0,
                               VARINT_TAGGED_MAX_1,
                               VARINT_TAGGED_MAX_2,
                               VARINT_TAGGED_MAX_3,
                               VARINT_TAGGED_MAX_4,
                               VARINT_TAGGED_MAX_5,
                               VARINT_TAGGED_MAX_6,
                               VARINT_TAGGED_MAX_7,
                               VARINT_TAGGED_MAX_8,
                               VARINT_TAGGED_MAX_9};
    for (unsigned n = 1; n <= 9; n++) {
        if (tmax[n] != vf_ref_max_for_len(VF_TAGGED, n)) {
            return vf_fail(rep, "constants.tagged", "table",
                           "VARINT_TAGGED_MAX_%u = %llu, documented %u-byte "
                           "maximum is %llu",
                           n, (unsigned long long)tmax[n], n,
                           (unsigned long long)vf_ref_max_for_len(VF_TAGGED, n));
        }
    }
    /* VARINT_SPLIT_FULL_STORAGE_n / ..._NO_ZERO_STORAGE_n.  STORAGE_1, _2 and
     * _4.._9 are the n-byte maxima of the README "Storage Overview".  STORAGE_3
     * is used by varint.h as the base of the second level, i.e. the README's
     * "first level, 3 byte max" (4,210,749 / 4,210,750), which is not the
     * largest 3-byte value (4,276,284 / 4,276,285): both documented readings
     * are accepted for n = 3. */
    const uint64_t sf[10] = {0,
                             VARINT_SPLIT_FULL_STORAGE_1,
                             VARINT_SPLIT_FULL_STORAGE_2,
                             VARINT_SPLIT_FULL_STORAGE_3,
                             VARINT_SPLIT_FULL_STORAGE_4,
                             VARINT_SPLIT_FULL_STORAGE_5,
                             VARINT_SPLIT_FULL_STORAGE_6,
                             VARINT_SPLIT_FULL_STORAGE_7,
                             VARINT_SPLIT_FULL_STORAGE_8,
                             VARINT_SPLIT_FULL_STORAGE_9};
    const uint64_t nz[10] = {0,
                             VARINT_SPLIT_FULL_NO_ZERO_STORAGE_1,
                             VARINT_SPLIT_FULL_NO_ZERO_STORAGE_2,
                             VARINT_SPLIT_FULL_NO_ZERO_STORAGE_3,
                             VARINT_SPLIT_FULL_NO_ZERO_STORAGE_4,
                             VARINT_SPLIT_FULL_NO_ZERO_STORAGE_5,
                             VARINT_SPLIT_FULL_NO_ZERO_STORAGE_6,
                             VARINT_SPLIT_FULL_NO_ZERO_STORAGE_7,
                             VARINT_SPLIT_FULL_NO_ZERO_STORAGE_8,
                             VARINT_SPLIT_FULL_NO_ZERO_STORAGE_9};
    for (unsigned n = 1; n <= 9; n++) {
        uint64_t wantF = vf_ref_max_for_len(VF_SPLIT_FULL, n);
        uint64_t wantN = vf_ref_max_for_len(VF_SPLIT_FULL_NO_ZERO, n);
        int okF = sf[n] == wantF || (n == 3 && sf[n] == 4210749ULL);
        int okN = nz[n] == wantN || (n == 3 && nz[n] == 4210750ULL);
        if (!okF) {
            return vf_fail(rep, "constants.splitFull", "table",
                           "VARINT_SPLIT_FULL_STORAGE_%u = %llu, documented "
                           "%u-byte maximum is %llu",
                           n, (unsigned long long)sf[n], n,
                           (unsigned long long)wantF);
        }
        if (!okN) {
            return vf_fail(rep, "constants.splitFullNoZero", "table",
                           "VARINT_SPLIT_FULL_NO_ZERO_STORAGE_%u = %llu, "
                           "documented %u-byte maximum is %llu",
                           n, (unsigned long long)nz[n], n,
                           (unsigned long long)wantN);
        }
    }
    return 0;
}

/* documented per-length maxima: max(L) takes L bytes, max(L)+1 takes more */
static void maxima_check(ctx *c) {
    for (unsigned f = 0; f < VF_NFAMILY && !c->rep->violated; f++) {
        enum vf_family fam = (enum vf_family)f;
        for (unsigned L = vf_ref_minlen(fam);
             L <= vf_ref_maxlen(fam) && !c->rep->violated; L++) {
            uint64_t m = vf_ref_max_for_len(fam, L);
            char site[64];
            snprintf(site, sizeof(site), "%s.maxima", vf_family_name[f]);
            if (vf_ref_len(fam, m) != L ||
                (m != UINT64_MAX && vf_ref_len(fam, m + 1) != L + 1) ||
                (L == vf_ref_maxlen(fam)) != (m == UINT64_MAX)) {
                vf_fail(c->rep, "harness.selfcheck", "reference",
                        "%s: reference encoder disagrees with the documented "
                        "%u-byte maximum %llu",
                        vf_family_name[f], L, (unsigned long long)m);
                return;
            }
            unsigned lm = check_value(c, fam, m, L);
            if (!lm) {
                return;
            }
            if (lm != L) {
                vf_fail(c->rep, site, "table",
                        "%s: documented %u-byte maximum %llu takes %u bytes",
                        vf_family_name[f], L, (unsigned long long)m, lm);
                return;
            }
            if (m != UINT64_MAX) {
                unsigned ln = check_value(c, fam, m + 1, L);
                if (!ln) {
                    return;
                }
                if (ln <= L) {
                    vf_fail(c->rep, site, "table",
                            "%s: %llu is one more than the documented %u-byte "
                            "maximum but takes %u bytes",
                            vf_family_name[f], (unsigned long long)(m + 1), L,
                            ln);
                    return;
                }
            }
            vf_class("sweep.maxima");
        }
    }
}

void vf_sweep(vf_report *rep) {
    ctx c;
    memset(&c, 0, sizeof(c));
    c.rep = rep;
    c.fill = 0xAA;
    uint64_t evals = 0;
    if (constants_check(rep)) {
        return;
    }
    maxima_check(&c);
    if (rep->violated) {
        return;
    }
    /* every value within +-300 of every table boundary, every family; the
     * neighbours give all adjacent pairs for the monotonicity oracle */
    size_t nb;
    const uint64_t *b = vf_boundaries(&nb);
    for (unsigned f = 0; f < VF_NFAMILY && !rep->violated; f++) {
        enum vf_family fam = (enum vf_family)f;
        for (size_t i = 0; i < nb && !rep->violated; i++) {
            uint64_t pv = 0;
            unsigned pl = 0;
            for (int d = -300; d <= 300 && !rep->violated; d++) {
                uint64_t v = b[i] + (uint64_t)(int64_t)d;
                if (fam == VF_SPLIT_FULL_NO_ZERO && v == 0) {
                    pl = 0;
                    continue;
                }
                c.align = (unsigned)(v & 15);
                unsigned l = check_value(&c, fam, v, (unsigned)(d + 300) % 9);
                evals++;
                if (!l) {
                    break;
                }
                if (pl && pv < v) {
                    check_monotone(&c, fam, pv, pl, v, l);
                }
                pv = v;
                pl = l;
            }
        }
    }
    /* Elias: 1..4096, every power of two +-2, all-ones patterns; every prefix */
    for (int delta = 0; delta < 2 && !rep->violated; delta++) {
        for (uint64_t v = 1; v <= 4096 && !rep->violated; v++) {
            uint64_t vals[4] = {v, 1, v + 1, 4097 - v};
            elias_case(&c, delta, (unsigned)(v & 7), 1 + (unsigned)(v & 3),
                       vals);
            evals++;
        }
        for (unsigned k = 1; k <= 64 && !rep->violated; k++) {
            uint64_t p = k == 64 ? 0 : (1ULL << k);
            for (int d = -2; d <= 2 && !rep->violated; d++) {
                uint64_t v = p + (uint64_t)(int64_t)d;
                if (v == 0) {
                    continue;
                }
                uint64_t vals[4] = {v, v, UINT64_MAX, 1};
                for (unsigned prefix = 0; prefix < 8 && !rep->violated;
                     prefix++) {
                    elias_case(&c, delta, prefix, 1 + (prefix & 3), vals);
                    evals++;
                }
            }
        }
    }
    /* zig-zag: +-4096 around 0, INT64 edges, every power of two +-2 */
    for (int64_t n = -4096; n <= 4096 && !rep->violated; n++) {
        zigzag_case(&c, n);
        zigzag_case(&c, (int64_t)((uint64_t)INT64_MIN + (uint64_t)(n + 4096)));
        zigzag_case(&c, (int64_t)((uint64_t)INT64_MAX - (uint64_t)(n + 4096)));
        evals += 3;
    }
    for (unsigned k = 0; k < 64 && !rep->violated; k++) {
        for (int d = -2; d <= 2 && !rep->violated; d++) {
            uint64_t u = (1ULL << k) + (uint64_t)(int64_t)d;
            zigzag_case(&c, (int64_t)u);
            zigzag_case(&c, (int64_t)(~u + 1));
            evals += 2;
        }
    }
    vf_evals(evals);
    vf_class_n("sweep.evals", evals);
}
