/* vf_ref.h - reference encoders written from the *documents* (sqlite4 varint
 * description, the A/B/C table of the chained format, LEB128, header "Data
 * Layout" comments, README maxima table, textbook Elias codes), in the most
 * literal style available.  Nothing here includes or calls /repo code. */
#ifndef VF_REF_H
#define VF_REF_H
#include <stddef.h>
#include <stdint.h>

enum vf_family {
    VF_TAGGED = 0,
    VF_EXTERNAL_LE,
    VF_EXTERNAL_BE,
    VF_CHAINED,
    VF_CHAINED_SIMPLE,
    VF_SPLIT,
    VF_SPLIT_FULL,
    VF_SPLIT_FULL_NO_ZERO,
    VF_SPLIT_FULL_16,
    VF_NFAMILY
};
extern const char *const vf_family_name[VF_NFAMILY];

/* encode v (v >= 1 for NO_ZERO) into out[>=9]; returns length */
unsigned vf_ref_encode(enum vf_family f, uint64_t v, uint8_t *out);
/* decode; returns length consumed, 0 on malformed */
unsigned vf_ref_decode(enum vf_family f, const uint8_t *in, unsigned extlen,
                       uint64_t *v);
unsigned vf_ref_len(enum vf_family f, uint64_t v);
/* largest value representable in `len` bytes for the family per the docs
 * (README "Storage Overview" + header comments); len in the family's range */
uint64_t vf_ref_max_for_len(enum vf_family f, unsigned len);
unsigned vf_ref_minlen(enum vf_family f);
unsigned vf_ref_maxlen(enum vf_family f);

/* minimal external byte width of v (1..8) */
unsigned vf_ref_extwidth(uint64_t v);

/* Elias codes as '0'/'1' strings (textbook definitions); v >= 1.
 * out must hold >= 140 chars. returns number of bits */
unsigned vf_ref_gamma_bits(uint64_t v, char *out);
unsigned vf_ref_delta_bits(uint64_t v, char *out);
/* zig-zag: n >= 0 -> 2n ; n < 0 -> -2n-1 */
uint64_t vf_ref_zigzag(int64_t n);
int64_t vf_ref_unzigzag(uint64_t u);

#endif
