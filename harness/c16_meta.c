/* C16 - reported metadata and header accessors tell the truth.
 *
 * case layout:  codec:1 param:1 lensel:1  array-descriptor
 *               then ((param >> 4) & 3) further array descriptors: the records
 *               of the walking test (same codec, encoded back to back).
 *               param & 15 selects the codec variant (PFOR threshold, float
 *               precision/mode).
 *
 * No property fixes the byte layout of the array codecs (only the scalar
 * families have a pinned wire format, C04), so this harness never parses a
 * header or payload itself.  Its oracles are
 *  (1) semantic truth computable from the INPUT alone: count, minimum,
 *      maximum/range, the number of maximal runs (lower bound on run counts),
 *      the normalised width 1/2/4/8 of a group field, the mathematical Elias
 *      code lengths, BP128 block structure from VARINT_BP128_BLOCK_SIZE, the
 *      bit width of the largest packed number;
 *  (2) the encoder's return value against every reported encoded size and
 *      against the extent of the bytes it really modified (two destinations
 *      with complementary fill);
 *  (3) agreement between sources for quantities that are the encoder's own
 *      choice (FOR/PFOR width, PFOR exception count and marker, RLE run
 *      count, adaptive encoding type): encoder meta == header reader (the
 *      decoders' in/out PFOR metadata is neither and is not looked at; of a
 *      decode-side varintAdaptiveMeta only originalCount and encodingType
 *      are), plus plausibility from the input (1 <= width <= 8,
 *      the range fits the width, marker == all-ones of `width` bytes, every
 *      value whose offset cannot be stored in `width` bytes is an exception,
 *      exceptionCount <= count, maximal runs <= runCount <= count);
 *  (4) decoding: the reported count equals the number of elements decoding
 *      yields; RLE runs are walked with the library's own varintRLEDecodeRun;
 *      k records back to back are re-found from the reported sizes alone.
 * Deliberately NOT compared: varintRLEMeta.uniqueValues, varintBP128GetCount
 * on formats without a count header, the PFOR size predictor behind
 * varintAdaptiveReadMeta (only required to be >= the bytes written), the
 * "header bytes" returned by varintPFORReadMeta / varintAdaptiveReadMeta
 * beyond 0 < header <= bytes written, fields the readers document as
 * "computed if needed" / "not easily extractable", varintFloatReadMeta/Analyze
 * (declared, not defined). */
#include "c13_codecs.h"
#include "varintFloat.h"

const char *vf_prop_id = "C16";
const size_t vf_case_maxlen = 200;

enum {
    M_FOR,
    M_FOR_BATCH,
    M_PFOR,
    M_GROUP,
    M_RLE,
    M_RLE_HDR,
    M_GAMMA,
    M_EDELTA,
    M_BP32,
    M_BP64,
    M_BPD32,
    M_BPD64,
    M_AD_AUTO,
    M_AD_DELTA,
    M_AD_FOR,
    M_AD_PFOR,
    M_AD_DICT,
    M_AD_BITMAP,
    M_AD_TAGGED,
    M_FLOAT,
    M_COUNT
};

static const char *const m_name[M_COUNT] = {
    "for",        "for.batch",   "pfor",         "group",         "rle",
    "rle.header", "elias.gamma", "elias.delta",  "bp128.32",      "bp128.64",
    "bp128.delta32", "bp128.delta64", "adaptive.auto", "adaptive.DELTA",
    "adaptive.FOR", "adaptive.PFOR", "adaptive.DICT", "adaptive.BITMAP",
    "adaptive.TAGGED", "float"};

static int m_is32(unsigned k) {
    return k == M_BP32 || k == M_BPD32;
}
static int m_is_adaptive(unsigned k) {
    return k >= M_AD_AUTO && k <= M_AD_TAGGED;
}
static unsigned m_flags(unsigned k) {
    switch (k) {
    case M_GAMMA:
    case M_EDELTA:
        return VF_ARR_GE1;
    case M_BP32:
        return VF_ARR_U32;
    case M_BPD32:
        return VF_ARR_U32 | VF_ARR_SORTED;
    case M_BPD64:
        return VF_ARR_SORTED;
    case M_AD_BITMAP:
        return VF_ARR_STRICT16;
    default:
        return 0;
    }
}

#define POISON 0xA5

typedef struct metas {
    varintFORMeta f;
    varintPFORMeta p;
    varintRLEMeta r;
    varintEliasMeta e;
    varintBP128Meta b;
    varintAdaptiveMeta a;
} metas;

typedef struct rec {
    unsigned k, param;
    const uint64_t *v;
    size_t n;
    uint32_t *v32; /* 32-bit view (BP128 32-bit codecs) */
    double *dv;    /* double view (float codec) */
    /* results of the encode + check */
    size_t written;  /* encoder return value */
    size_t reported; /* size a caller would use to step over the record */
    size_t bits;     /* Elias: reported totalBits (needed to decode) */
    void *dec;       /* first decode of the record */
    size_t decbytes;
} rec;

static const varintAdaptiveEncodingType ad_type[] = {
    VARINT_ADAPTIVE_DELTA, VARINT_ADAPTIVE_FOR,    VARINT_ADAPTIVE_PFOR,
    VARINT_ADAPTIVE_DICT,  VARINT_ADAPTIVE_BITMAP, VARINT_ADAPTIVE_TAGGED};
static const uint32_t pfor_thr[3] = {VARINT_PFOR_THRESHOLD_95,
                                     VARINT_PFOR_THRESHOLD_90,
                                     VARINT_PFOR_THRESHOLD_99};

static double mk_double(uint64_t x) {
    uint64_t sign = x & 1;
    uint64_t mant = ((x >> 12) ^ (x << 40)) & ((1ULL << 52) - 1);
    switch ((x >> 5) & 7) {
    case 0:
        mant = 0;
        break;
    case 1:
        mant = (1ULL << 52) - 1; /* rounding carries in every lossy mode */
        break;
    case 2:
        mant |= 0xFFFFFF0000000ULL;
        break;
    default:
        break;
    }
    uint64_t e;
    switch ((x >> 1) & 15) {
    case 0:
        e = 0; /* zero / subnormal */
        break;
    case 1:
        e = 2047; /* inf / NaN */
        break;
    case 2:
        e = 1;
        break;
    case 3:
        e = 2046;
        break;
    case 4:
    case 5:
        e = 1023;
        break;
    case 15:
        e = 1 + (x >> 9) % 2046; /* spread beyond 255 binades */
        break;
    default:
        e = 983 + (x >> 9) % 80;
        break;
    }
    uint64_t bits = (sign << 63) | (e << 52) | mant;
    double d;
    memcpy(&d, &bits, sizeof(d));
    return d;
}

/* just the encoder call; metas are prepared as documented (FOR/PFOR) or
 * poisoned so that unwritten fields are visible */
static size_t raw_encode(const rec *R, uint8_t *dst, metas *m) {
    const uint64_t *v = R->v;
    const size_t n = R->n;
    memset(m, POISON, sizeof(*m));
    memset(&m->f, 0, sizeof(m->f)); /* documented: count != n, width 0 */
    memset(&m->p, 0, sizeof(m->p));
    switch (R->k) {
    case M_FOR:
        return varintFOREncode(dst, v, n, &m->f);
    case M_FOR_BATCH:
        return varintFORBatchEncode(dst, v, n, &m->f);
    case M_PFOR:
        return varintPFOREncode(dst, v, (uint32_t)n, pfor_thr[(R->param & 15) % 3],
                                &m->p);
    case M_GROUP:
        return varintGroupEncode(dst, v, (uint8_t)n);
    case M_RLE:
        return varintRLEEncode(dst, v, n, &m->r);
    case M_RLE_HDR:
        return varintRLEEncodeWithHeader(dst, v, n, &m->r);
    case M_GAMMA:
        return varintEliasGammaEncodeArray(dst, v, n, &m->e);
    case M_EDELTA:
        return varintEliasDeltaEncodeArray(dst, v, n, &m->e);
    case M_BP32:
        return varintBP128Encode32(dst, R->v32, n, &m->b);
    case M_BP64:
        return varintBP128Encode64(dst, v, n, &m->b);
    case M_BPD32:
        return varintBP128DeltaEncode32(dst, R->v32, n, &m->b);
    case M_BPD64:
        return varintBP128DeltaEncode64(dst, v, n, &m->b);
    case M_AD_AUTO:
        c13_paint_stack();
        return varintAdaptiveEncode(dst, v, n, &m->a);
    case M_FLOAT:
        return varintFloatEncode(dst, R->dv, n,
                                 (varintFloatPrecision)(R->param & 3),
                                 (varintFloatEncodingMode)(((R->param >> 2) & 3) % 3));
    default:
        c13_paint_stack();
        return varintAdaptiveEncodeWith(dst, v, n, ad_type[R->k - M_AD_DELTA],
                                        &m->a);
    }
}

#define CHK(site, kind, what, got, want)                                       \
    do {                                                                       \
        uint64_t got_ = (uint64_t)(got), want_ = (uint64_t)(want);             \
        if (got_ != want_) {                                                   \
            vf_fail(rep, site, kind,                                           \
                    "%s n=%zu%s: %s = %llu (0x%llx), ground truth %llu",       \
                    m_name[R->k], R->n, where, what,                           \
                    (unsigned long long)got_, (unsigned long long)got_,        \
                    (unsigned long long)want_);                                \
            return 0;                                                          \
        }                                                                      \
    } while (0)

/* agreement between two sources that report the same quantity */
#define AGREE(site, kind, what, got, other, want)                              \
    do {                                                                       \
        uint64_t got_ = (uint64_t)(got), want_ = (uint64_t)(want);             \
        if (got_ != want_) {                                                   \
            vf_fail(rep, site, kind,                                           \
                    "%s n=%zu%s: %s = %llu (0x%llx) but %s = %llu (0x%llx)",   \
                    m_name[R->k], R->n, where, what,                           \
                    (unsigned long long)got_, (unsigned long long)got_, other, \
                    (unsigned long long)want_, (unsigned long long)want_);     \
            return 0;                                                          \
        }                                                                      \
    } while (0)

/* decode the record at `src` with exactly its own capacity; returns count (for
 * float: bytes consumed); output in *out (malloc'd, *outbytes long) */
static size_t raw_decode(const rec *R, const uint8_t *src, void **out,
                         size_t *outbytes, varintAdaptiveMeta *am,
                         uint8_t *fields) {
    const size_t n = R->n;
    const size_t esz = m_is32(R->k) ? 4 : 8;
    void *o = vf_exact_alloc(n * esz);
    memset(o, 0xCD, n * esz);
    *out = o;
    *outbytes = n * esz;
    switch (R->k) {
    case M_FOR:
        return varintFORDecode(src, (uint64_t *)o, n);
    case M_FOR_BATCH:
        return varintFORBatchDecode(src, (uint64_t *)o, n);
    case M_PFOR: {
        /* width == 0 => the decoder reads the header itself.  Whether it
         * writes anything back into this struct is not documented (only the
         * return value is), so nothing is read from it afterwards. */
        varintPFORMeta dm;
        memset(&dm, 0, sizeof(dm));
        return varintPFORDecode(src, (uint64_t *)o, &dm);
    }
    case M_GROUP:
        return varintGroupDecode(src, (uint64_t *)o, fields, n);
    case M_RLE:
        return varintRLEDecode(src, (uint64_t *)o, n);
    case M_RLE_HDR:
        return varintRLEDecodeWithHeader(src, (uint64_t *)o, n);
    case M_GAMMA:
        return varintEliasGammaDecodeArray(src, R->bits, (uint64_t *)o, n);
    case M_EDELTA:
        return varintEliasDeltaDecodeArray(src, R->bits, (uint64_t *)o, n);
    case M_BP32:
        return varintBP128Decode32(src, (uint32_t *)o, n);
    case M_BP64:
        return varintBP128Decode64(src, (uint64_t *)o, n);
    case M_BPD32:
        return varintBP128DeltaDecode32(src, (uint32_t *)o, n);
    case M_BPD64:
        return varintBP128DeltaDecode64(src, (uint64_t *)o, n);
    case M_FLOAT:
        return varintFloatDecode(src, n, (double *)o);
    default:
        return varintAdaptiveDecode(src, (uint64_t *)o, n, am);
    }
}

/* ---- ground truth helpers (from the input alone) -------------------------- */
/* number of maximal runs: no encoder can describe the array with fewer */
static size_t truth_maxruns(const uint64_t *v, size_t n) {
    size_t r = 1;
    for (size_t i = 1; i < n; i++) {
        if (v[i] != v[i - 1]) {
            r++;
        }
    }
    return r;
}

static uint64_t all_ones(unsigned w) {
    return w >= 8 ? UINT64_MAX : (1ULL << (8 * w)) - 1;
}

/* PFOR.  Which width the encoder chooses and which values it patches are its
 * own business (percentile range, marker-collision handling), and so is the
 * way it stores them.  What the input fixes: min, count, 1 <= width <= 8, the
 * marker is the all-ones value of `width` bytes (the documented concept of the
 * marker), every value whose offset from min does not fit `width` bytes must
 * be an exception, and there cannot be more exceptions than values. */
static int pfor_plausible(vf_report *rep, const rec *R, const char *where,
                          const char *site, const char *src,
                          const varintPFORMeta *A, uint64_t mn) {
    char l[96];
    snprintf(l, sizeof(l), "%s.min", src);
    CHK(site, "field", l, A->min, mn);
    snprintf(l, sizeof(l), "%s.count", src);
    CHK(site, "count", l, A->count, R->n);
    unsigned w = (unsigned)A->width;
    if (w < 1 || w > 8) {
        vf_fail(rep, site, "field", "%s n=%zu%s: %s.width = %u is not 1..8",
                m_name[R->k], R->n, where, src, w);
        return 0;
    }
    snprintf(l, sizeof(l), "%s.exceptionMarker", src);
    AGREE(site, "field", l, A->exceptionMarker,
          "the all-ones value of the reported width", all_ones(w));
    size_t need = 0;
    if (w < 8) {
        for (size_t i = 0; i < R->n; i++) {
            if (R->v[i] - mn > all_ones(w)) {
                need++;
            }
        }
    }
    if (A->exceptionCount < need || A->exceptionCount > R->n) {
        vf_fail(rep, site, "count",
                "%s n=%zu%s: %s.exceptionCount = %u with %s.width = %u, but "
                "%zu of the %zu values have an offset from the minimum that "
                "does not fit %u bytes",
                m_name[R->k], R->n, where, src, (unsigned)A->exceptionCount,
                src, w, need, R->n, w);
        return 0;
    }
    if (need > 0) {
        vf_class("pfor.unrepresentable");
    }
    return 1;
}

/* a second source (the header reader) against the first (the encoder) */
static int pfor_agree(vf_report *rep, const rec *R, const char *where,
                      const char *site, const char *srcB,
                      const varintPFORMeta *B, const char *srcA,
                      const varintPFORMeta *A, uint64_t mn) {
    char l[96], o[96];
    snprintf(l, sizeof(l), "%s.min", srcB);
    CHK(site, "field", l, B->min, mn);
    snprintf(l, sizeof(l), "%s.count", srcB);
    CHK(site, "count", l, B->count, R->n);
    snprintf(l, sizeof(l), "%s.width", srcB);
    snprintf(o, sizeof(o), "%s.width", srcA);
    AGREE(site, "field", l, B->width, o, A->width);
    snprintf(l, sizeof(l), "%s.exceptionCount", srcB);
    snprintf(o, sizeof(o), "%s.exceptionCount", srcA);
    AGREE(site, "count", l, B->exceptionCount, o, A->exceptionCount);
    snprintf(l, sizeof(l), "%s.exceptionMarker", srcB);
    snprintf(o, sizeof(o), "%s.exceptionMarker", srcA);
    AGREE(site, "field", l, B->exceptionMarker, o, A->exceptionMarker);
    return 1;
}

/* FOR: the offset width is the encoder's choice; the input fixes 1..8 and
 * that the range fits it */
static int for_width_plausible(vf_report *rep, const rec *R, const char *where,
                               const char *site, const char *what, unsigned w,
                               uint64_t range) {
    if (w < 1 || w > 8 || range > all_ones(w)) {
        vf_fail(rep, site, "field",
                "%s n=%zu%s: %s = %u cannot hold the range %llu of the input "
                "(needs 1..8 bytes, at least %u)",
                m_name[R->k], R->n, where, what, w, (unsigned long long)range,
                c13_extwidth(range));
        return 0;
    }
    return 1;
}

/* RLE, on a headerless encoding pb[0..plain) of the array: the runs are walked
 * with the library's own varintRLEDecodeRun; their number is the truth for
 * every reported run count (encoder meta `rc`, Analyze, GetRunCount) */
static int rle_plain_check(vf_report *rep, const rec *R, const char *where,
                           const char *S_meta, const char *S_acc,
                           const uint8_t *pb, size_t plain, size_t rc,
                           size_t rc_plain) {
    const size_t n = R->n;
    size_t pos = 0, runs = 0, total = 0;
    while (pos < plain && total < n) {
        size_t rl = 0;
        uint64_t val = 0;
        size_t c = varintRLEDecodeRun(pb + pos, &rl, &val);
        if (c == 0 || rl == 0 || rl > n - total || c > plain - pos) {
            vf_fail(rep, S_acc, "walk",
                    "%s n=%zu%s: varintRLEDecodeRun at offset %zu of the %zu "
                    "bytes the headerless encoder returned: %zu bytes, run "
                    "length %zu, after %zu runs covering %zu elements",
                    m_name[R->k], n, where, pos, plain, c, rl, runs, total);
            return 0;
        }
        pos += c;
        total += rl;
        runs++;
    }
    CHK(S_acc, "count", "elements covered by the runs varintRLEDecodeRun finds",
        total, n);
    size_t lo = truth_maxruns(R->v, n);
    if (runs < lo) {
        vf_fail(rep, S_acc, "count",
                "%s n=%zu%s: %zu runs found with varintRLEDecodeRun, the input "
                "has %zu maximal runs",
                m_name[R->k], n, where, runs, lo);
        return 0;
    }
    const char *truth = "runs found with varintRLEDecodeRun";
    AGREE(S_meta, "count", "meta.runCount", rc, truth, runs);
    AGREE(S_meta, "count", "meta.runCount of the headerless encoder", rc_plain,
          truth, runs);
    AGREE(S_acc, "count", "varintRLEGetRunCount(encoded, size)",
          varintRLEGetRunCount(pb, plain), truth, runs);
    varintRLEMeta an;
    memset(&an, POISON, sizeof(an));
    (void)varintRLEAnalyze(R->v, n, &an);
    CHK(S_meta, "count", "Analyze.count", an.count, n);
    AGREE(S_meta, "count", "Analyze.runCount", an.runCount, truth, runs);
    AGREE(S_meta, "size", "Analyze.encodedSize", an.encodedSize,
          "bytes written by varintRLEEncode", plain);
    return 1;
}

/* measured extent of an encode: 1 + index of the last byte the encoder
 * stores, seen through two destinations with complementary fill */
static int check_extent(vf_report *rep, const rec *R, const char *where) {
    char site[64];
    snprintf(site, sizeof(site), "%s.extent", m_name[R->k]);
    size_t cap = c13_bound(R->n);
    uint8_t *b0 = c13_dst(R->n, 0x00), *b1 = c13_dst(R->n, 0xFF);
    metas m0, m1;
    size_t w0 = raw_encode(R, b0, &m0);
    size_t w1 = raw_encode(R, b1, &m1);
    size_t ext = cap;
    while (ext > 0 && b0[ext - 1] == 0x00 && b1[ext - 1] == 0xFF) {
        ext--;
    }
    free(b0);
    free(b1);
    CHK(site, "size", "encoder return (0x00-filled destination)", w0,
        R->written);
    CHK(site, "size", "encoder return (0xFF-filled destination)", w1,
        R->written);
    CHK(site, "size", "encoder return vs. bytes actually stored", R->written,
        ext);
    return 1;
}

/* encode record R at dst, compare everything reported with the truth, decode
 * it once.  `where` is appended to messages (" @walk[2]+1234"). */
static int rec_check(vf_report *rep, rec *R, uint8_t *dst, const char *where,
                     int extent) {
    const uint64_t *v = R->v;
    const size_t n = R->n;
    const unsigned k = R->k;
    char S_meta[64], S_read[64], S_acc[64], S_dec[64];
    snprintf(S_meta, sizeof(S_meta), "%s.meta", m_name[k]);
    snprintf(S_read, sizeof(S_read), "%s.readmeta", m_name[k]);
    snprintf(S_acc, sizeof(S_acc), "%s.accessor", m_name[k]);
    snprintf(S_dec, sizeof(S_dec), "%s.decode", m_name[k]);

    metas m;
    R->written = raw_encode(R, dst, &m);
    R->reported = 0;
    R->bits = 0;
    if (R->written == 0) {
        /* no allocation failure is injected here and the input is inside the
         * codec's documented domain: "0 bytes written" is not the truth */
        vf_fail(rep, S_meta, "size",
                "%s n=%zu%s: encoder returned 0 for an array inside its "
                "documented domain",
                m_name[k], n, where);
        return 0;
    }
    if (R->written > c13_bound(n) - 64) {
        vf_fail(rep, S_meta, "size",
                "%s n=%zu%s: encoder returned %zu, more than the harness's "
                "generous destination",
                m_name[k], n, where, R->written);
        return 0;
    }

    uint64_t mn = v[0], mx = v[0];
    for (size_t i = 1; i < n; i++) {
        if (v[i] < mn) {
            mn = v[i];
        }
        if (v[i] > mx) {
            mx = v[i];
        }
    }

    switch (k) {
    case M_FOR:
    case M_FOR_BATCH: {
        CHK(S_meta, "field", "meta.minValue", m.f.minValue, mn);
        CHK(S_meta, "field", "meta.maxValue", m.f.maxValue, mx);
        CHK(S_meta, "field", "meta.range", m.f.range, mx - mn);
        CHK(S_meta, "count", "meta.count", m.f.count, n);
        CHK(S_meta, "size", "meta.encodedSize", m.f.encodedSize, R->written);
        if (!for_width_plausible(rep, R, where, S_meta, "meta.offsetWidth",
                                 (unsigned)m.f.offsetWidth, mx - mn)) {
            return 0;
        }
        varintFORMeta rm;
        memset(&rm, POISON, sizeof(rm));
        varintFORReadMetadata(dst, &rm);
        CHK(S_read, "field", "ReadMetadata.minValue", rm.minValue, mn);
        CHK(S_read, "count", "ReadMetadata.count", rm.count, n);
        AGREE(S_read, "field", "ReadMetadata.offsetWidth", rm.offsetWidth,
              "the encoder's meta.offsetWidth", m.f.offsetWidth);
        CHK(S_read, "size", "ReadMetadata.encodedSize", rm.encodedSize,
            R->written);
        CHK(S_acc, "count", "varintFORGetCount", varintFORGetCount(dst), n);
        CHK(S_acc, "field", "varintFORGetMinValue", varintFORGetMinValue(dst),
            mn);
        AGREE(S_acc, "field", "varintFORGetOffsetWidth",
              varintFORGetOffsetWidth(dst), "the encoder's meta.offsetWidth",
              m.f.offsetWidth);
        R->reported = rm.encodedSize;
        break;
    }
    case M_PFOR: {
        if (!pfor_plausible(rep, R, where, S_meta, "meta", &m.p, mn)) {
            return 0;
        }
        varintPFORMeta rm;
        memset(&rm, 0, sizeof(rm));
        size_t hb = varintPFORReadMeta(dst, &rm);
        if (hb == 0 || hb > R->written) {
            vf_fail(rep, S_read, "size",
                    "%s n=%zu%s: ReadMeta returned %zu header bytes for a "
                    "record of %zu bytes",
                    m_name[k], n, where, hb, R->written);
            return 0;
        }
        if (!pfor_agree(rep, R, where, S_read, "ReadMeta", &rm,
                        "the encoder's meta", &m.p, mn)) {
            return 0;
        }
        if (m.p.exceptionCount > 0) {
            vf_class("pfor.exceptions");
        }
        break;
    }
    case M_GROUP: {
        for (size_t i = 0; i < n; i++) {
            unsigned ew = c13_extwidth(v[i]);
            unsigned w = ew <= 1 ? 1 : ew <= 2 ? 2 : ew <= 4 ? 4 : 8;
            varintWidth gw = varintGroupGetFieldWidth(dst, (uint8_t)i);
            if ((unsigned)gw != w) {
                vf_fail(rep, S_acc, "field",
                        "%s n=%zu%s: GetFieldWidth(%zu) = %u, value %llu "
                        "needs the normalised width %u",
                        m_name[k], n, where, i, (unsigned)gw,
                        (unsigned long long)v[i], w);
                return 0;
            }
        }
        CHK(S_acc, "size", "varintGroupGetSize", varintGroupGetSize(dst),
            R->written);
        CHK(S_acc, "count", "varintGroupGetFieldCount",
            varintGroupGetFieldCount(dst), n);
        CHK(S_acc, "size", "varintGroupSize", varintGroupSize(v, (uint8_t)n),
            R->written);
        R->reported = varintGroupGetSize(dst);
        break;
    }
    case M_RLE:
    case M_RLE_HDR: {
        CHK(S_meta, "count", "meta.count", m.r.count, n);
        CHK(S_meta, "size", "meta.encodedSize", m.r.encodedSize, R->written);
        if (m.r.runCount > n) {
            vf_fail(rep, S_meta, "count",
                    "%s n=%zu%s: meta.runCount = %zu, more runs than elements",
                    m_name[k], n, where, m.r.runCount);
            return 0;
        }
        int ok;
        if (k == M_RLE) {
            ok = rle_plain_check(rep, R, where, S_meta, S_acc, dst, R->written,
                                 m.r.runCount, m.r.runCount);
        } else {
            /* Analyze, GetRunCount and DecodeRun speak about the headerless
             * form: encode the same array once more without the header */
            CHK(S_acc, "count", "varintRLEGetCount", varintRLEGetCount(dst), n);
            uint8_t *pb = c13_dst(n, 0x5A);
            varintRLEMeta pm;
            memset(&pm, POISON, sizeof(pm));
            size_t plain = varintRLEEncode(pb, v, n, &pm);
            if (plain == 0 || plain > c13_bound(n) - 64) {
                vf_fail(rep, S_meta, "size",
                        "%s n=%zu%s: the headerless encoder returned %zu",
                        m_name[k], n, where, plain);
                ok = 0;
            } else {
                ok = rle_plain_check(rep, R, where, S_meta, S_acc, pb, plain,
                                     m.r.runCount, pm.runCount);
            }
            free(pb);
        }
        if (!ok) {
            return 0;
        }
        if (truth_maxruns(v, n) >= 2) {
            vf_class("rle.runs>=2");
        }
        R->reported = m.r.encodedSize;
        break;
    }
    case M_GAMMA:
    case M_EDELTA: {
        size_t bits = 0;
        for (size_t i = 0; i < n; i++) {
            bits += k == M_GAMMA ? c13_gamma_len(v[i]) : c13_edelta_len(v[i]);
        }
        CHK(S_meta, "count", "meta.count", m.e.count, n);
        CHK(S_meta, "size", "meta.totalBits", m.e.totalBits, bits);
        CHK(S_meta, "size", "meta.encodedBytes", m.e.encodedBytes, R->written);
        /* varintElias.h documents the field as "Ceiling of totalBits/8" */
        CHK(S_meta, "size", "meta.encodedBytes vs. ceil(meta.totalBits/8)",
            m.e.encodedBytes, (m.e.totalBits + 7) / 8);
        R->bits = m.e.totalBits;
        R->reported = m.e.encodedBytes;
        break;
    }
    case M_BP32:
    case M_BP64:
    case M_BPD32:
    case M_BPD64: {
        /* the numbers that get packed: the values, or for the delta formats
         * the n-1 differences; blocks of VARINT_BP128_BLOCK_SIZE of them */
        int delta = k == M_BPD32 || k == M_BPD64;
        size_t cnt = delta ? n - 1 : n;
        uint64_t pmax = 0;
        for (size_t i = 0; i < cnt; i++) {
            uint64_t d = delta ? v[i + 1] - v[i] : v[i];
            if (d > pmax) {
                pmax = d;
            }
        }
        const size_t B = VARINT_BP128_BLOCK_SIZE;
        size_t bl = (cnt + B - 1) / B;
        size_t la = cnt ? (cnt - 1) % B + 1 : 0;
        CHK(S_meta, "count", "meta.count", m.b.count, n);
        CHK(S_meta, "count", "meta.blockCount", m.b.blockCount, bl);
        CHK(S_meta, "size", "meta.encodedBytes", m.b.encodedBytes, R->written);
        CHK(S_meta, "field", "meta.maxBitWidth", m.b.maxBitWidth,
            c13_bits(pmax));
        if (bl > 0) {
            /* "values in last (partial) block"; without any block (delta
             * format, one value) there is nothing to compare with */
            CHK(S_meta, "count", "meta.lastBlockSize", m.b.lastBlockSize, la);
        }
        if (k == M_BP64) {
            CHK(S_acc, "count", "varintBP128GetCount",
                varintBP128GetCount(dst, R->written), n);
        }
        if (cnt % B == 0) {
            vf_class("bp128.lastBlockFull");
        }
        R->reported = m.b.encodedBytes;
        break;
    }
    case M_FLOAT:
        break;
    default: { /* adaptive */
        unsigned type = (unsigned)varintAdaptiveGetEncodingType(dst);
        if (type > VARINT_ADAPTIVE_TAGGED) {
            vf_fail(rep, S_acc, "field",
                    "%s n=%zu%s: varintAdaptiveGetEncodingType = %u is not "
                    "one of the six encodings",
                    m_name[k], n, where, type);
            return 0;
        }
        if (k != M_AD_AUTO) {
            CHK(S_acc, "field",
                "varintAdaptiveGetEncodingType vs. requested encoding", type,
                ad_type[k - M_AD_DELTA]);
        } else {
            char cls[64];
            snprintf(cls, sizeof(cls), "adaptive.auto.%s",
                     varintAdaptiveEncodingName(
                         (varintAdaptiveEncodingType)type));
            vf_class(cls);
        }
        AGREE(S_meta, "field", "meta.encodingType", m.a.encodingType,
              "varintAdaptiveGetEncodingType", type);
        CHK(S_meta, "count", "meta.originalCount", m.a.originalCount, n);
        CHK(S_meta, "size", "meta.encodedSize", m.a.encodedSize, R->written);
        varintAdaptiveMeta rm;
        memset(&rm, POISON, sizeof(rm));
        size_t hb = varintAdaptiveReadMeta(dst, &rm);
        if (hb == 0 || hb > R->written) {
            vf_fail(rep, S_read, "size",
                    "%s n=%zu%s: ReadMeta returned %zu header bytes for a "
                    "record of %zu bytes",
                    m_name[k], n, where, hb, R->written);
            return 0;
        }
        AGREE(S_read, "field", "ReadMeta.encodingType", rm.encodingType,
              "varintAdaptiveGetEncodingType", type);
        if (type == VARINT_ADAPTIVE_FOR) {
            const varintFORMeta *ef = &m.a.encodingMeta.forMeta;
            const varintFORMeta *rf = &rm.encodingMeta.forMeta;
            CHK(S_read, "count", "ReadMeta.originalCount (FOR)",
                rm.originalCount, n);
            CHK(S_read, "size", "ReadMeta.encodedSize (FOR)", rm.encodedSize,
                R->written);
            CHK(S_meta, "field", "meta.encodingMeta.forMeta.minValue",
                ef->minValue, mn);
            CHK(S_meta, "count", "meta.encodingMeta.forMeta.count", ef->count,
                n);
            if (!for_width_plausible(rep, R, where, S_meta,
                                     "meta.encodingMeta.forMeta.offsetWidth",
                                     (unsigned)ef->offsetWidth, mx - mn)) {
                return 0;
            }
            CHK(S_read, "field", "ReadMeta.encodingMeta.forMeta.minValue",
                rf->minValue, mn);
            CHK(S_read, "count", "ReadMeta.encodingMeta.forMeta.count",
                rf->count, n);
            AGREE(S_read, "field", "ReadMeta.encodingMeta.forMeta.offsetWidth",
                  rf->offsetWidth, "the encoder's forMeta.offsetWidth",
                  ef->offsetWidth);
        } else if (type == VARINT_ADAPTIVE_PFOR) {
            CHK(S_read, "count", "ReadMeta.originalCount (PFOR)",
                rm.originalCount, n);
            if (rm.encodedSize < R->written) {
                vf_fail(rep, S_read, "size",
                        "%s n=%zu%s: ReadMeta.encodedSize (PFOR worst-case "
                        "predictor) = %zu is less than the %zu bytes written",
                        m_name[k], n, where, rm.encodedSize, R->written);
                return 0;
            }
            if (!pfor_plausible(rep, R, where, S_meta,
                                "meta.encodingMeta.pforMeta",
                                &m.a.encodingMeta.pforMeta, mn) ||
                !pfor_agree(rep, R, where, S_read,
                            "ReadMeta.encodingMeta.pforMeta",
                            &rm.encodingMeta.pforMeta,
                            "the encoder's pforMeta",
                            &m.a.encodingMeta.pforMeta, mn)) {
                return 0;
            }
        }
        R->reported = m.a.encodedSize;
        break;
    }
    }

    /* the reported count equals the number of elements decoding yields */
    varintAdaptiveMeta dm;
    memset(&dm, POISON, sizeof(dm));
    uint8_t fields = 0xEE;
    size_t r = raw_decode(R, dst, &R->dec, &R->decbytes, &dm, &fields);
    if (vf_exact_check(R->dec)) {
        vf_fail(rep, S_dec, "canary",
                "%s n=%zu%s: decoding with capacity n wrote behind the output",
                m_name[k], n, where);
        return 0;
    }
    if (k == M_FLOAT) {
        CHK(S_dec, "size", "bytes consumed by varintFloatDecode", r,
            R->written);
        R->reported = r;
    } else if (k == M_GROUP) {
        CHK(S_dec, "size", "bytes read by varintGroupDecode", r, R->written);
        CHK(S_dec, "count", "field count from varintGroupDecode", fields, n);
    } else {
        CHK(S_dec, "count", "elements yielded by the decoder", r, n);
        if (m_is_adaptive(k)) {
            unsigned type = (unsigned)varintAdaptiveGetEncodingType(dst);
            CHK(S_dec, "count", "decode-side meta.originalCount",
                dm.originalCount, r);
            /* only these two are documented outputs of a decode; the
             * encoding-specific union is not compared */
            AGREE(S_dec, "field", "decode-side meta.encodingType",
                  dm.encodingType, "varintAdaptiveGetEncodingType", type);
        }
    }
    if (extent && k != M_GAMMA && k != M_EDELTA) {
        /* the Elias encoders zero their whole worst-case area first */
        if (!check_extent(rep, R, where)) {
            return 0;
        }
    }
    return 1;
}

static void rec_free(rec *R) {
    free(R->v32);
    free(R->dv);
    vf_exact_free(R->dec);
    R->v32 = NULL;
    R->dv = NULL;
    R->dec = NULL;
}

static void rec_init(rec *R, unsigned k, unsigned param, const uint64_t *v,
                     size_t n) {
    memset(R, 0, sizeof(*R));
    R->k = k;
    R->param = param;
    R->v = v;
    R->n = n;
    if (m_is32(k)) {
        R->v32 = c13_u32(v, n);
    }
    if (k == M_FLOAT) {
        R->dv = (double *)malloc(n * sizeof(double));
        if (!R->dv) {
            abort();
        }
        for (size_t i = 0; i < n; i++) {
            R->dv[i] = mk_double(v[i]);
        }
    }
}

/* does the codec report an exact size a caller can step by? */
static int m_walkable(unsigned k) {
    return k != M_PFOR;
}

#define MAXREC 4

/* records[0..nrec): standalone check of record 0 (with extent measurement),
 * then the walking test over all records */
static void run_records(vf_report *rep, rec *R, size_t nrec) {
    /* standalone */
    uint8_t *dst = c13_dst(R[0].n, 0x5A);
    int ok = rec_check(rep, &R[0], dst, "", 1);
    free(dst);
    if (!ok || rep->violated) {
        return;
    }
    if (nrec < 2 || !m_walkable(R[0].k)) {
        return;
    }
    /* walking: encode back to back, stepping by the reported sizes only */
    size_t total = 64;
    for (size_t j = 0; j < nrec; j++) {
        total += c13_bound(R[j].n);
    }
    uint8_t *w = (uint8_t *)malloc(total);
    if (!w) {
        abort();
    }
    memset(w, 0x5A, total);
    size_t offs[MAXREC];
    size_t off = 0;
    char site[64];
    snprintf(site, sizeof(site), "%s.walk", m_name[R[0].k]);
    for (size_t j = 0; j < nrec && ok; j++) {
        char where[48];
        snprintf(where, sizeof(where), " @walk[%zu]+%zu", j, off);
        vf_exact_free(R[j].dec);
        R[j].dec = NULL;
        offs[j] = off;
        ok = rec_check(rep, &R[j], w + off, where, 0);
        off += R[j].reported;
    }
    /* re-find every record from the reported sizes alone */
    /* one metadata struct serves all the decodes of the walk, as in a caller
     * that steps through records: each decode sees what the previous one (of
     * another record) left in it */
    varintAdaptiveMeta dm;
    memset(&dm, 0, sizeof(dm));
    for (size_t j = 0; j < nrec && ok && !rep->violated; j++) {
        rec *Q = &R[j];
        void *out = NULL;
        size_t outbytes = 0;
        uint8_t fields = 0;
        size_t r = raw_decode(Q, w + offs[j], &out, &outbytes, &dm, &fields);
        size_t want = Q->k == M_FLOAT || Q->k == M_GROUP ? Q->written : Q->n;
        if (r != want || outbytes != Q->decbytes ||
            memcmp(out, Q->dec, outbytes) != 0) {
            size_t bad = 0;
            while (bad < outbytes && bad < Q->decbytes &&
                   ((uint8_t *)out)[bad] == ((uint8_t *)Q->dec)[bad]) {
                bad++;
            }
            vf_fail(rep, site, "walk",
                    "%s: record %zu of %zu (n=%zu) re-found at offset %zu "
                    "(sum of reported sizes) decodes to %zu (expected %zu), "
                    "first differing output byte %zu; it decoded correctly "
                    "before the following records were written",
                    m_name[Q->k], j, nrec, Q->n, offs[j], r, want, bad);
            ok = 0;
        }
        vf_exact_free(out);
    }
    free(w);
}

static size_t codec_maxlen(unsigned k, unsigned lensel) {
    int big = (lensel & 7) == 7;
    size_t bigmax = vf_tier() == 1 ? 70000 : 20000;
    switch (k) {
    case M_GROUP:
        return VARINT_GROUP_MAX_FIELDS;
    case M_AD_AUTO:
        /* the exact unique count of the analysis is quadratic below 10001 */
        return (lensel & 15) == 15 ? bigmax : 2300;
    default:
        return big ? bigmax : 4200;
    }
}

static void classes_for(const rec *R) {
    vf_class(m_name[R->k]);
    size_t n = R->n;
    vf_class(n <= 240 ? "count<=240" : n <= 2287 ? "count241-2287"
                                                 : "count>=2288");
    if (n % 128 == 0) {
        vf_class("count%128==0");
    } else if (n % 128 == 1) {
        vf_class("count%128==1");
    }
    if (n >= 2) {
        vf_nontrivial(vf_mix(vf_mix(vf_mix(16, R->k), R->param & 15),
                             vf_hash_bytes(7, R->v, n * sizeof(uint64_t))));
    }
}

void vf_run(vf_rd *r, vf_report *rep) {
    unsigned k = vf_u8(r) % M_COUNT;
    unsigned param = vf_u8(r);
    unsigned lensel = vf_u8(r);
    size_t nrec = 1 + ((param >> 4) & 3);
    vf_arr a[MAXREC];
    rec R[MAXREC];
    vf_desc(rep, "codec=%s param=%u records=%zu", m_name[k], param & 15, nrec);
    for (size_t j = 0; j < nrec; j++) {
        size_t maxlen = j == 0 ? codec_maxlen(k, lensel)
                        : k == M_GROUP ? VARINT_GROUP_MAX_FIELDS
                                       : 300;
        vf_take_array(r, &a[j], maxlen, m_flags(k));
        rec_init(&R[j], k, param, a[j].v, a[j].n);
        if (j < 2) {
            vf_desc(rep, " array%zu{%s}", j, a[j].desc);
        } else {
            vf_desc(rep, " array%zu{n=%zu}", j, a[j].n);
        }
        classes_for(&R[j]);
    }
    vf_arr_classes(&a[0], "arr");
    if (nrec > 1) {
        char cls[32];
        snprintf(cls, sizeof(cls), "walk.records%zu", nrec);
        vf_class(m_walkable(k) ? cls : "walk.notapplicable");
        vf_evals(nrec - 1);
    }
    run_records(rep, R, nrec);
    for (size_t j = 0; j < nrec; j++) {
        rec_free(&R[j]);
        vf_arr_free(&a[j]);
    }
}

/* deterministic sweep: every codec, every length 1..300 and the lengths around
 * 384/512 (block multiples), 2287/2288 (three-byte tagged count) and 4096, two
 * value shapes; plus a three-record walk per codec */
static void sweep_fill(unsigned k, unsigned shape, uint64_t *v, size_t n) {
    uint64_t s = 0x9E3779B97F4A7C15ULL ^ (n * 2654435761u);
    uint64_t acc = 5;
    for (size_t i = 0; i < n; i++) {
        if (m_flags(k) & VF_ARR_STRICT16) {
            acc += 1 + (shape ? (i % 3 == 0) : 0);
            v[i] = acc;
        } else if (shape == 0) {
            /* small ramp with runs and one outlier */
            if (i % 4 != 0) {
                acc += 3;
            }
            v[i] = acc;
            if (i == n / 2 && !(m_flags(k) & VF_ARR_SORTED)) {
                v[i] = 0xFFFFFFFFu - 7;
            }
        } else {
            uint64_t x = vf_xs(&s) >> (i % 61);
            if (m_is32(k)) {
                x &= 0xFFFFFFFFu;
            }
            if (m_flags(k) & VF_ARR_SORTED) {
                acc += x >> (m_is32(k) ? 14 : 13);
                x = m_is32(k) ? (uint32_t)acc : acc;
            }
            v[i] = x;
        }
        if ((m_flags(k) & VF_ARR_GE1) && v[i] == 0) {
            v[i] = 1;
        }
    }
    if (m_flags(k) & VF_ARR_SORTED) {
        for (size_t i = 1; i < n; i++) {
            if (v[i] < v[i - 1]) {
                v[i] = v[i - 1];
            }
        }
    }
}

void vf_sweep(vf_report *rep) {
    static const size_t extra[] = {383, 384, 385, 386, 511, 512,  513,
                                   514, 2286, 2287, 2288, 2289, 4095, 4096,
                                   4097};
    uint64_t evals = 0;
    uint64_t *buf[3];
    for (int i = 0; i < 3; i++) {
        buf[i] = (uint64_t *)malloc(4100 * sizeof(uint64_t));
        if (!buf[i]) {
            abort();
        }
    }
    for (unsigned k = 0; k < M_COUNT && !rep->violated; k++) {
        for (size_t li = 0; li < 300 + sizeof(extra) / sizeof(extra[0]) &&
                            !rep->violated;
             li++) {
            size_t n = li < 300 ? li + 1 : extra[li - 300];
            if (k == M_GROUP && n > VARINT_GROUP_MAX_FIELDS) {
                continue;
            }
            for (unsigned shape = 0; shape < 2 && !rep->violated; shape++) {
                sweep_fill(k, shape, buf[0], n);
                rec R[3];
                rec_init(&R[0], k, shape + (unsigned)n, buf[0], n);
                size_t nrec = 1;
                if (n == 129 || n == 241 || n == 2288 ||
                    (k == M_GROUP && n == 33)) {
                    size_t n1 = k == M_GROUP ? 7 : 128, n2 = k == M_GROUP ? 64
                                                                        : 241;
                    sweep_fill(k, 1 - shape, buf[1], n1);
                    sweep_fill(k, shape, buf[2], n2);
                    rec_init(&R[1], k, shape + (unsigned)n, buf[1], n1);
                    rec_init(&R[2], k, shape + (unsigned)n, buf[2], n2);
                    nrec = 3;
                }
                run_records(rep, R, nrec);
                for (size_t j = 0; j < nrec; j++) {
                    rec_free(&R[j]);
                }
                evals += nrec;
            }
        }
    }
    for (int i = 0; i < 3; i++) {
        free(buf[i]);
    }
    vf_evals(evals);
    vf_class_n("sweep.evals", evals);
}
