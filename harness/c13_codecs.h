/* c13_codecs.h - helpers shared by the C13 (capacity) and C16 (metadata)
 * harnesses: generous encoder destinations, 32-bit views of arrays, a stack
 * painter, small reference functions written from the documented formats. */
#ifndef C13_CODECS_H
#define C13_CODECS_H
#include "vf.h"
#include "vf_arr.h"

#include "varintAdaptive.h"
#include "varintBP128.h"
#include "varintElias.h"
#include "varintGroup.h"
#include "varintRLE.h"

/* Encoder destinations.  Size-bound defects belong to C03 (several published
 * bounds are too small in the pinned tree), so every encoder gets a buffer
 * that exceeds each codec's max-size function by far more than 64 bytes:
 *   tagged/RLE/delta   <= 10..18 bytes per value
 *   PFOR               <= 8 + 18 bytes per value
 *   Elias gamma        16 bytes per value (its encoder zeroes MaxBytes(count))
 *   dictionary         <= 9 + 4 bytes per value
 *   bitmap             <= 8192 + 4 bytes per value
 */
static inline size_t c13_bound(size_t n) {
    return 8192 + 256 + n * 32;
}

static inline uint8_t *c13_dst(size_t n, int fill) {
    size_t sz = c13_bound(n);
    uint8_t *p = (uint8_t *)malloc(sz);
    if (!p) {
        abort();
    }
    memset(p, fill, sz);
    return p;
}

static inline uint32_t *c13_u32(const uint64_t *v, size_t n) {
    uint32_t *p = (uint32_t *)malloc((n ? n : 1) * sizeof(uint32_t));
    if (!p) {
        abort();
    }
    for (size_t i = 0; i < n; i++) {
        p[i] = (uint32_t)v[i];
    }
    return p;
}

/* varintAdaptiveEncodeWith(FOR) passes an uninitialised varintFORMeta to
 * varintFOREncode in the pinned tree (DESIGN section 6 #24, property C15): if
 * the stack residue in its `count` field equals the array length the encoder
 * skips its analysis and aborts or crashes.  That defect is not what C13/C16
 * are about, so the stack below the caller is zeroed before every adaptive
 * encode: residue 0 never equals a count >= 1 and the encoder behaves as
 * documented.  (Pure function of nothing; no effect on a repaired tree.)
 *
 * The typical residue is deterministic: the previous adaptive FOR encode from
 * the same call depth leaves its own count in that very slot, so two
 * consecutive encodes of equal length reuse the first array's min/width.  A
 * painter with a local array does not reach the top of the callee's frame
 * (its own saved registers and redzones land there), hence the words below
 * the stack pointer are cleared directly. */
#if defined(__x86_64__)
static __attribute__((noinline)) __attribute__((no_sanitize("address")))
__attribute__((no_sanitize("undefined"))) void
c13_paint_stack(void) {
    __asm__ volatile("lea -8192(%%rsp), %%rdi\n\t"
                     "mov $1024, %%ecx\n\t"
                     "xor %%eax, %%eax\n\t"
                     "rep stosq\n\t"
                     :
                     :
                     : "rdi", "rcx", "rax", "memory", "cc");
}
#else
static __attribute__((noinline)) void c13_paint_stack(void) {
    volatile uint64_t pad[1024];
    for (size_t i = 0; i < sizeof(pad) / sizeof(pad[0]); i++) {
        pad[i] = 0;
    }
    __asm__ volatile("" : : "r"(pad) : "memory");
}
#endif

/* ---- reference functions (documented formats, no /repo code) ------------- */
/* sqlite4-style tagged varint length */
static inline unsigned c13_taglen(uint64_t v) {
    if (v <= 240) {
        return 1;
    }
    if (v <= 2287) {
        return 2;
    }
    if (v <= 67823) {
        return 3;
    }
    unsigned bytes = 3;
    while (bytes < 8 && (v >> (8 * bytes)) != 0) {
        bytes++;
    }
    return 1 + bytes;
}
/* minimal little-endian byte width 1..8 */
static inline unsigned c13_extwidth(uint64_t v) {
    unsigned w = 1;
    while (w < 8 && (v >> (8 * w)) != 0) {
        w++;
    }
    return w;
}
/* bits needed to represent v (0 for 0) */
static inline unsigned c13_bits(uint64_t v) {
    return v ? 64u - (unsigned)__builtin_clzll(v) : 0u;
}
/* textbook Elias code lengths, v >= 1 */
static inline size_t c13_gamma_len(uint64_t v) {
    return 2 * (size_t)(c13_bits(v) - 1) + 1;
}
static inline size_t c13_edelta_len(uint64_t v) {
    unsigned n = c13_bits(v) - 1; /* floor(log2 v) */
    return c13_gamma_len((uint64_t)n + 1) + n;
}

#endif
