/* vf_arr.h - shared integer-array generator (DESIGN 2.2): an array is decoded
 * from a *descriptor* (length class + shape + shape arguments), so a few bytes
 * produce arrays of any length with the structure the codecs branch on. */
#ifndef VF_ARR_H
#define VF_ARR_H
#include "vf.h"

enum {
    VF_ARR_GE1 = 1,      /* every value >= 1 (Elias) */
    VF_ARR_U32 = 2,      /* every value < 2^32 */
    VF_ARR_SORTED = 4,   /* non-decreasing (BP128 delta) */
    VF_ARR_STRICT16 = 8, /* strictly increasing, < 65536 (bitmap) */
    VF_ARR_SDELTA = 16,  /* |v| <= 2^62 as int64 so that signed differences
                            are representable (signed delta) */
};

enum vf_shape {
    VF_SH_EXPLICIT = 0,
    VF_SH_CONST,
    VF_SH_RAMP_UP,
    VF_SH_RAMP_DOWN,
    VF_SH_SORTED_RANDOM,
    VF_SH_PERIODIC,
    VF_SH_CLUSTER_OUTLIERS,
    VF_SH_FEW_UNIQUE,
    VF_SH_RUNS,
    VF_SH_ONE_EXTREME,
    VF_SH_STRICT16,
    VF_SH_RANDOM_WIDTH,
    VF_SH_SAMPLER_FOOL,
    VF_SH_DESC_RANDOM, /* sorted random, descending */
    VF_SH_COUNT
};
extern const char *const vf_shape_name[VF_SH_COUNT];

typedef struct vf_arr {
    uint64_t *v; /* malloc'd, n elements (n >= 1) */
    size_t n;
    unsigned shape;
    unsigned lenclass; /* 0 short, 1 table, 2 blocks */
    char desc[200];    /* compact description for samples */
} vf_arr;

/* decode an array of 1..maxlen elements; never fails */
void vf_take_array(vf_rd *r, vf_arr *a, size_t maxlen, unsigned flags);
void vf_arr_free(vf_arr *a);
/* the table lengths (for class counters / "count within +-1 of a table
 * length") */
int vf_len_is_table(size_t n);
uint64_t vf_arr_hash(const vf_arr *a);
uint64_t vf_arr_max(const vf_arr *a);
/* generic biased bit width 1..64 from one byte */
unsigned vf_take_bits(vf_rd *r);
/* record the shape / length class counters under a prefix */
void vf_arr_classes(const vf_arr *a, const char *prefix);

#endif
