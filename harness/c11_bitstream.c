/* C11 - bitstream writes are exact and isolated.
 *
 * case layout:  word_type:1 fill:1  then up to 30 records
 *               { offset:2 width:1 value:8 }
 *   word_type  bits 0-1: 0 = default (uint64_t,uint64_t), 1 = u32, 2 = u16,
 *              3 = u8;  bit 2: the records are signed-helper cases;
 *              bits 3-5 all set (1 case in 8): "huge offset" case, see below
 *              (bits 6-7 zero: with the final scan of resident pages)
 *   fill       prior contents: 0 zeros, 1 ones, else pseudo-random (seeded)
 *   offset     low byte: bit position inside the word (mod W); high byte:
 *              bits 0-2 word index (mod 6), bits 3-4 position class (as is,
 *              W-1, W-width, W-width+1), bits 5-7 value class
 *   width      1 + b mod W (b >= 0xC0: W, W-1, 1, W/2+1)
 *
 * The stream is 6 words that end exactly at the end of an exact-size
 * allocation (ASan redzone / canary tail), preceded by 2 guard words.
 *
 * oracle: reference bit vector, bit i of the stream is bit (W-1 - i mod W) of
 * word i / W ("we write in order": the first bit written is the most
 * significant bit of the first word; verified against the default uint64_t
 * instantiation); after every write the guard words and all 6 words equal the
 * reference, and a read of the same range returns the value written.
 *
 * Which bit of a word a stream bit is kept in is what the header documents,
 * not what the property states (it speaks of read-back at the same offset and
 * width, of "no bit outside that range" and of the words overlapping the
 * range).  The word model above is therefore used only while the library
 * under test stores bits in the documented order, which a probe of each
 * instantiation decides once per process (layout_documented()).  Otherwise
 * the same cases are judged through the API alone: words that do not overlap
 * the range (guards included) are byte-identical before and after; inside the
 * overlapping words the bits before and after the range, read with
 * varintBitstreamGet before and after the write, are unchanged; a read of the
 * range returns the value.
 *
 * huge offset case (c11_bitstream_huge.h): same record layout, the stream is a
 * sparse mapping of 2^33 + 2^19 bits; offset high byte: bits 0-2 anchor (2^32,
 * 2^33, 2^31, 3*2^31, random word, random word >= 2^32, one of the first 64
 * words, 2^32 +- 1024 words), bits 3-4 position relative to the anchor
 * (anchor + low byte - 128, straddling the anchor, straddling a word boundary
 * 1-4 words later, ending / starting exactly at a word boundary), bits 5-7
 * value class; oracle: read-back, word model of the watched windows (first
 * 64 words, 4 words either side of the range and of every place a narrowed
 * offset would alias to), split re-read, and a final scan of all resident
 * pages for stray non-zero words.  Signed-helper bit ignored. */
#include "vf.h"

#include "c11_bitstream.h"

const char *vf_prop_id = "C11";
const size_t vf_case_maxlen = 340;

#define NW 6
#define GW 2
#define MAXBITS (NW * 64)
#define U(x) ((unsigned long long)(x))

static const c11_ops *const g_types[4] = {&c11_ops_u64, &c11_ops_u32,
                                          &c11_ops_u16, &c11_ops_u8};

typedef struct bs {
    vf_report *rep;
    const c11_ops *o;
    unsigned W, wb;
    uint8_t *alloc;
    uint8_t *stream;
    uint8_t ref[MAXBITS]; /* one byte per stream bit */
    uint64_t guard[GW];
} bs;

static uint64_t ldw(const uint8_t *p, unsigned wb) {
    switch (wb) {
    case 1:
        return *p;
    case 2: {
        uint16_t v;
        memcpy(&v, p, 2);
        return v;
    }
    case 4: {
        uint32_t v;
        memcpy(&v, p, 4);
        return v;
    }
    default: {
        uint64_t v;
        memcpy(&v, p, 8);
        return v;
    }
    }
}
static void stw(uint8_t *p, unsigned wb, uint64_t x) {
    switch (wb) {
    case 1:
        *p = (uint8_t)x;
        break;
    case 2: {
        const uint16_t v = (uint16_t)x;
        memcpy(p, &v, 2);
        break;
    }
    case 4: {
        const uint32_t v = (uint32_t)x;
        memcpy(p, &v, 4);
        break;
    }
    default:
        memcpy(p, &x, 8);
        break;
    }
}
static uint64_t maskbits(unsigned n) {
    return n >= 64 ? UINT64_MAX : (1ULL << n) - 1;
}

static void bs_open(bs *s, vf_report *rep, const c11_ops *o, unsigned fillsel) {
    memset(s, 0, sizeof(*s));
    s->rep = rep;
    s->o = o;
    s->W = o->W;
    s->wb = o->W / 8;
    s->alloc = (uint8_t *)vf_exact_alloc((size_t)(GW + NW) * s->wb);
    s->stream = s->alloc + (size_t)GW * s->wb;
    uint64_t seed = 0x243f6a8885a308d3ULL ^ ((uint64_t)fillsel << 32);
    for (unsigned j = 0; j < GW + NW; j++) {
        uint64_t x;
        if (fillsel == 0) {
            x = 0;
        } else if (fillsel == 1) {
            x = UINT64_MAX;
        } else {
            x = vf_xs(&seed) ^ (vf_xs(&seed) << 1);
        }
        x &= maskbits(s->W);
        stw(s->alloc + (size_t)j * s->wb, s->wb, x);
        if (j < GW) {
            s->guard[j] = x;
        } else {
            for (unsigned i = 0; i < s->W; i++) {
                s->ref[(j - GW) * s->W + i] = (x >> (s->W - 1 - i)) & 1;
            }
        }
    }
}

static void bs_close(bs *s) {
    vf_exact_free(s->alloc);
    s->alloc = s->stream = NULL;
}

static uint64_t ref_word(const bs *s, unsigned j) {
    uint64_t x = 0;
    for (unsigned i = 0; i < s->W; i++) {
        x = (x << 1) | s->ref[j * s->W + i];
    }
    return x;
}

/* ---- does this instantiation keep stream bits in the documented order? ----
 * 3 bits inside a word and 4 bits across a word boundary, written into zeroed
 * words, must land MSB-first.  Decided once per word type. */
static int layout_documented(const c11_ops *o) {
    static int8_t known[4]; /* 0 unknown, 1 documented, -1 other */
    const unsigned t = o->W == 64 ? 0 : o->W == 32 ? 1 : o->W == 16 ? 2 : 3;
    if (known[t] == 0) {
        const unsigned W = o->W, wb = W / 8;
        uint64_t store[4] = {0, 0, 0, 0};
        uint8_t *b = (uint8_t *)store;
        o->set(b, 1, 3, 5);
        o->set(b, W - 2, 4, 0xB);
        const uint64_t w0 = ldw(b, wb), w1 = ldw(b + wb, wb);
        const uint64_t e0 = ((uint64_t)5 << (W - 4)) | 2, e1 = (uint64_t)3
                                                                << (W - 2);
        int rest = 1;
        for (unsigned j = 2 * wb; j < sizeof(store); j++) {
            rest &= b[j] == 0;
        }
        known[t] = (w0 == e0 && w1 == e1 && rest) ? 1 : -1;
        char cls[40];
        snprintf(cls, sizeof(cls), "%s.layout.%s", o->name,
                 known[t] > 0 ? "documented" : "other");
        vf_class(cls);
    }
    return known[t] > 0;
}

/* API-level judgement of one write (see the file comment); used when the
 * stored bit order is not the documented one */
static int bs_write_api(bs *s, size_t off, unsigned width, uint64_t value) {
    const unsigned W = s->W, wb = s->wb;
    const size_t first = off / W, last = (off + width - 1) / W;
    const size_t ws = first * W, we = (last + 1) * W;
    const unsigned pre = (unsigned)(off - ws);
    const unsigned suf = (unsigned)(we - (off + width));
    char site[24];
    uint8_t before[(GW + NW) * 8];
    memcpy(before, s->alloc, (size_t)(GW + NW) * wb);
    const uint64_t pre0 = pre ? s->o->get(s->stream, ws, pre) : 0;
    const uint64_t suf0 = suf ? s->o->get(s->stream, off + width, suf) : 0;
    {
        char cls[32];
        snprintf(cls, sizeof(cls), "%s.api.%s", s->o->name,
                 first != last ? "cross" : width == W ? "fullword" : "single");
        vf_class(cls);
    }
    vf_nontrivial(vf_mix(vf_mix(vf_mix(vf_mix(W, off), width), value), 0xA91));
    s->o->set(s->stream, off, width, value);
    snprintf(site, sizeof(site), "%s.set", s->o->name);
    if (vf_exact_check(s->alloc)) {
        return vf_fail(s->rep, site, "canary",
                       "%s stream of %d words: write of %u bits at bit %zu "
                       "damaged the guard after the last word",
                       s->o->name, NW, width, off);
    }
    for (unsigned j = 0; j < GW + NW; j++) {
        if (j >= GW + first && j <= GW + last) {
            continue;
        }
        const uint64_t g = ldw(s->alloc + (size_t)j * wb, wb);
        const uint64_t e = ldw(before + (size_t)j * wb, wb);
        if (g != e) {
            return vf_fail(s->rep, site, j < GW ? "guard" : "isolation",
                           "%s stream: write of %u bits (0x%llx) at bit %zu "
                           "(words %zu..%zu) changed word %d, which does not "
                           "overlap the range (0x%llx -> 0x%llx)",
                           s->o->name, width, U(value), off, first, last,
                           (int)j - GW, U(e), U(g));
        }
    }
    const uint64_t got = s->o->get(s->stream, off, width);
    if (got != value) {
        snprintf(site, sizeof(site), "%s.get", s->o->name);
        return vf_fail(s->rep, site, "readback",
                       "%s stream: wrote %u bits 0x%llx at bit %zu, Get of the "
                       "same range returned 0x%llx",
                       s->o->name, width, U(value), off, U(got));
    }
    const uint64_t pre1 = pre ? s->o->get(s->stream, ws, pre) : 0;
    const uint64_t suf1 = suf ? s->o->get(s->stream, off + width, suf) : 0;
    if (pre1 != pre0 || suf1 != suf0) {
        return vf_fail(s->rep, site, "isolation",
                       "%s stream: write of %u bits (0x%llx) at bit %zu changed "
                       "the %s it in the same word: %u bits at bit %zu read "
                       "0x%llx before and 0x%llx after",
                       s->o->name, width, U(value), off,
                       pre1 != pre0 ? "bits before" : "bits after",
                       pre1 != pre0 ? pre : suf,
                       pre1 != pre0 ? ws : off + width,
                       U(pre1 != pre0 ? pre0 : suf0),
                       U(pre1 != pre0 ? pre1 : suf1));
    }
    return 0;
}

/* whole stream + guards against the reference.  [off, off+width) is the range
 * just written (for the wording of the report) */
static int bs_check(bs *s, size_t off, unsigned width, uint64_t value) {
    char site[24];
    snprintf(site, sizeof(site), "%s.set", s->o->name);
    if (vf_exact_check(s->alloc)) {
        return vf_fail(s->rep, site, "canary",
                       "%s stream of %d words: write of %u bits at bit %zu "
                       "damaged the guard after the last word",
                       s->o->name, NW, width, off);
    }
    for (unsigned j = 0; j < GW; j++) {
        const uint64_t g = ldw(s->alloc + (size_t)j * s->wb, s->wb);
        if (g != s->guard[j]) {
            return vf_fail(s->rep, site, "guard",
                           "%s stream: write of %u bits (0x%llx) at bit %zu "
                           "changed guard word %d before the stream "
                           "(0x%llx -> 0x%llx)",
                           s->o->name, width, U(value), off, (int)j - GW,
                           U(s->guard[j]), U(g));
        }
    }
    for (unsigned j = 0; j < NW; j++) {
        const uint64_t g = ldw(s->stream + (size_t)j * s->wb, s->wb);
        const uint64_t e = ref_word(s, j);
        if (g == e) {
            continue;
        }
        /* first differing stream bit */
        unsigned i = 0;
        while (((g >> (s->W - 1 - i)) & 1) == ((e >> (s->W - 1 - i)) & 1)) {
            i++;
        }
        const size_t p = (size_t)j * s->W + i;
        const int inside = p >= off && p < off + width;
        const size_t lastw = (off + width - 1) / s->W;
        return vf_fail(
            s->rep, site, inside ? "stored" : "isolation",
            "%s stream: write of %u bits (0x%llx) at bit %zu (word %zu bit "
            "%zu%s): word %u is 0x%llx, reference 0x%llx; first wrong stream "
            "bit %zu is %s the written range [%zu,%zu)",
            s->o->name, width, U(value), off, off / s->W, off % s->W,
            lastw != off / s->W ? ", crossing into the next word" : "", j, U(g),
            U(e), p, inside ? "inside" : "outside", off, off + width);
    }
    return 0;
}

/* one write followed by all checks; returns non-zero on violation */
static int bs_write(bs *s, size_t off, unsigned width, uint64_t value) {
    const unsigned W = s->W;
    if (!layout_documented(s->o)) {
        return bs_write_api(s, off, width, value);
    }
    const int cross = off / W != (off + width - 1) / W;
    const unsigned before =
        off > 0 ? s->ref[off - 1] : (unsigned)(s->guard[GW - 1] & 1);
    const unsigned after = off + width < (size_t)NW * W ? s->ref[off + width] : 0;
    {
        char cls[32];
        snprintf(cls, sizeof(cls), "%s.%s", s->o->name,
                 cross ? "cross" : width == W ? "fullword" : "single");
        vf_class(cls);
        if (off + width == (size_t)NW * W) {
            snprintf(cls, sizeof(cls), "%s.end", s->o->name);
            vf_class(cls);
        }
    }
    if (cross || width == W || before || after) {
        vf_nontrivial(vf_mix(
            vf_mix(vf_mix(vf_mix(W, off), width), value), before * 2 + after));
    }
    s->o->set(s->stream, off, width, value);
    for (unsigned i = 0; i < width; i++) {
        s->ref[off + i] = (value >> (width - 1 - i)) & 1;
    }
    if (bs_check(s, off, width, value)) {
        return 1;
    }
    const uint64_t got = s->o->get(s->stream, off, width);
    if (got != value) {
        char site[24];
        snprintf(site, sizeof(site), "%s.get", s->o->name);
        return vf_fail(s->rep, site, "readback",
                       "%s stream: %u bits at bit %zu (word %zu bit %zu%s) "
                       "hold 0x%llx (stream equals the reference), Get "
                       "returned 0x%llx",
                       s->o->name, width, off, off / W, off % W,
                       cross ? ", crossing" : "", U(value), U(got));
    }
    return 0;
}

/* ------------------------------------------------------------ record decode */
static size_t rec_offset(unsigned W, unsigned width, unsigned lo, unsigned hi) {
    size_t word = (hi & 7) % NW;
    unsigned pos;
    switch ((hi >> 3) & 3) {
    case 0:
        pos = lo % W;
        break;
    case 1:
        pos = W - 1;
        break;
    case 2:
        pos = W - width;
        break;
    default:
        pos = (W - width + 1) % W;
        break;
    }
    size_t off = word * W + pos;
    if (off + width > (size_t)NW * W) {
        off -= W; /* width <= W: one word back always fits */
    }
    return off;
}

static unsigned rec_width(unsigned W, unsigned b) {
    if (b >= 0xC0) {
        switch ((b >> 4) & 3) {
        case 0:
            return W;
        case 1:
            return W - 1;
        case 2:
            return 1;
        default:
            return W / 2 + 1;
        }
    }
    return 1 + b % W;
}

static uint64_t rec_value(unsigned width, unsigned cls, uint64_t raw) {
    const uint64_t mask = maskbits(width);
    switch (cls & 7) {
    case 1:
        return 0;
    case 2:
        return mask;
    case 3:
        return 1ULL << (raw % width);
    case 4:
        return 0xAAAAAAAAAAAAAAAAULL & mask;
    case 5:
        return mask ^ (1ULL << (raw % width));
    case 6:
        return 1ULL << (width - 1);
    default:
        return raw & mask;
    }
}

#include "c11_bitstream_huge.h"

/* a "huge offset" case; returns 0 if the sparse mapping is unavailable (the
 * caller then runs the bytes as an ordinary case) */
static int huge_case(vf_rd *r, vf_report *rep, const c11_ops *o,
                     unsigned fillsel, int scan) {
    hg *h = hg_open(rep, o, fillsel);
    if (!h) {
        vf_class("huge.unavailable");
        return 0;
    }
    const unsigned W = o->W;
    const char *fname = fillsel == 0 ? "zeros" : fillsel == 1 ? "ones" : "mixed";
    vf_desc(rep, "%s huge fill=%s:", o->name, fname);
    {
        char cls[32];
        snprintf(cls, sizeof(cls), "huge.fill.%s", fname);
        vf_class(cls);
        snprintf(cls, sizeof(cls), "%s.huge", o->name);
        vf_class(cls);
    }
    int bad = hg_watch(h, HG_NEAR, 63 - HG_NEAR, HG_FIRST);
    unsigned n = 0;
    while (!bad) {
        const unsigned lo = vf_u8(r), hi = vf_u8(r);
        const unsigned wbyte = vf_u8(r);
        const uint64_t raw = vf_raw64(r);
        const unsigned width = rec_width(W, wbyte);
        const uint64_t off = hg_rec_offset(W, width, lo, hi, raw);
        const uint64_t value = rec_value(width, hi >> 5, raw);
        if (n < 6) {
            vf_desc(rep, " [%llu+%u]=0x%llx", U(off), width, U(value));
        }
        bad = hg_write(h, off, width, value, raw >> 40);
        if (bad || h->full) {
            break;
        }
        n++;
        if (n > 1) {
            vf_evals(1);
        }
        if (n >= 30 || vf_left(r) == 0) {
            break;
        }
    }
    if (h->full) {
        vf_class("huge.watch.full");
    }
    if (n > 6) {
        vf_desc(rep, " ... (%u writes)", n);
    }
    hg_close(h, !bad && scan);
    return 1;
}

/* deterministic part: every width of every word type at every position that
 * contains, ends at or starts at bit 2^31, 2^32, 3*2^31 and 2^33, and at every
 * position straddling the word boundary after those */
static void huge_sweep(vf_report *rep, uint64_t *evals) {
    static const uint64_t anchors[4] = {1ULL << 31, 1ULL << 32, 3ULL << 31,
                                        1ULL << 33};
    for (unsigned t = 0; t < 4 && !rep->violated; t++) {
        const c11_ops *o = g_types[t];
        const unsigned W = o->W;
        for (unsigned fill = 0; fill < 3 && !rep->violated; fill++) {
            hg *h = hg_open(rep, o, fill == 2 ? 77 : fill);
            if (!h) {
                vf_class("huge.unavailable");
                return;
            }
            int bad = hg_watch(h, HG_NEAR, 63 - HG_NEAR, HG_FIRST);
            for (unsigned a = 0; a < 4 && !bad; a++) {
                for (unsigned width = 1; width <= W && !bad; width++) {
                    /* j = bits of the field before the boundary */
                    for (unsigned j = 0; j <= width && !bad; j++) {
                        for (unsigned k = 0; k < 2 && !bad; k++) {
                            if (k == 1 && (j == 0 || j == width)) {
                                continue;
                            }
                            const uint64_t off = anchors[a] + (uint64_t)k * W - j;
                            const uint64_t v1 =
                                rec_value(width, fill == 1 ? 1 : 2, 0);
                            *evals += 2;
                            bad = hg_write(h, off, width, v1, j) ||
                                  hg_write(h, off, width,
                                           rec_value(width, 4, 0), width + j);
                        }
                    }
                }
            }
            hg_close(h, !bad);
        }
    }
}

static int signed_case(bs *s, size_t off, unsigned width, int64_t v) {
    const c11_ops *o = s->o;
    char site[24];
    snprintf(site, sizeof(site), "%s.signed", o->name);
    const uint64_t stored = v < 0 ? o->prepare(v, width) : (uint64_t)v;
    if (stored & ~maskbits(width)) {
        return vf_fail(s->rep, site, "field",
                       "%s: %lld prepared for a %u-bit field is 0x%llx, which "
                       "does not fit",
                       o->name, (long long)v, width, U(stored));
    }
    const int64_t back = o->restore(stored, width);
    if (back != v) {
        return vf_fail(s->rep, site, "roundtrip",
                       "%s: %lld in a %u-bit field is stored as 0x%llx and "
                       "restored as %lld",
                       o->name, (long long)v, width, U(stored), (long long)back);
    }
    if (bs_write(s, off, width, stored)) {
        return 1;
    }
    const int64_t back2 = o->restore(o->get(s->stream, off, width), width);
    if (back2 != v) {
        return vf_fail(s->rep, site, "stream",
                       "%s: %lld written as %u bits at bit %zu reads back as "
                       "%lld",
                       o->name, (long long)v, width, off, (long long)back2);
    }
    return 0;
}

void vf_run(vf_rd *r, vf_report *rep) {
    const unsigned b0 = vf_u8(r);
    const c11_ops *o = g_types[b0 & 3];
    const int sgn = (b0 >> 2) & 1;
    const unsigned fillsel = vf_u8(r);
    const unsigned W = o->W;
    /* the final scan of all resident pages costs a mincore() over 1.25 GiB of
     * address space (~0.2 ms): one huge case in four does it */
    if (((b0 >> 3) & 7) == 7 && huge_case(r, rep, o, fillsel, (b0 >> 6) == 0)) {
        return;
    }
    bs s;
    bs_open(&s, rep, o, fillsel);
    vf_desc(rep, "%s%s fill=%s:", o->name, sgn ? " signed" : "",
            fillsel == 0 ? "zeros" : fillsel == 1 ? "ones" : "random");
    {
        char cls[32];
        snprintf(cls, sizeof(cls), "%s.fill.%s", o->name,
                 fillsel == 0 ? "zeros" : fillsel == 1 ? "ones" : "random");
        vf_class(cls);
    }
    unsigned n = 0;
    do {
        const unsigned lo = vf_u8(r), hi = vf_u8(r);
        const unsigned wbyte = vf_u8(r);
        const uint64_t raw = vf_raw64(r);
        int bad;
        if (!sgn) {
            const unsigned width = rec_width(W, wbyte);
            const size_t off = rec_offset(W, width, lo, hi);
            const uint64_t value = rec_value(width, hi >> 5, raw);
            if (n < 6) {
                vf_desc(rep, " [%zu+%u]=0x%llx", off, width, U(value));
            }
            bad = bs_write(&s, off, width, value);
        } else {
            unsigned width;
            if (wbyte >= 0xC0) {
                switch ((wbyte >> 4) & 3) {
                case 0:
                    width = W;
                    break;
                case 1:
                    width = 2;
                    break;
                case 2:
                    width = W - 1;
                    break;
                default:
                    width = W / 2;
                    break;
                }
            } else {
                width = 2 + wbyte % (W - 1);
            }
            const size_t off = rec_offset(W, width, lo, hi);
            const uint64_t M = maskbits(width - 1); /* largest magnitude */
            const int neg = (hi >> 5) & 1;
            uint64_t mag;
            switch ((hi >> 6) & 3) {
            case 0:
                mag = neg ? 1 + raw % M : (M == UINT64_MAX ? raw : raw % (M + 1));
                break;
            case 1:
                mag = M;
                break;
            case 2:
                mag = neg ? 1 : 0;
                break;
            default:
                mag = 1ULL << (raw % (width - 1));
                break;
            }
            const int64_t v = neg ? -(int64_t)mag : (int64_t)mag;
            if (n < 6) {
                vf_desc(rep, " [%zu+%u]=%lld", off, width, (long long)v);
            }
            {
                char cls[32];
                snprintf(cls, sizeof(cls), "%s.signed.%s", o->name,
                         neg ? "neg" : "nonneg");
                vf_class(cls);
                if (width == W) {
                    snprintf(cls, sizeof(cls), "%s.signed.fullwidth", o->name);
                    vf_class(cls);
                }
            }
            vf_nontrivial(vf_mix(vf_mix(vf_mix(0x5167, W), width), (uint64_t)v));
            bad = signed_case(&s, off, width, v);
        }
        if (bad) {
            break;
        }
        n++;
        if (n > 1) {
            vf_evals(1);
        }
    } while (n < 30 && vf_left(r) > 0);
    if (n > 6) {
        vf_desc(rep, " ... (%u writes)", n);
    }
    bs_close(&s);
}

/* deterministic sweep: every (position, width) of every word type over zero
 * and all-ones prior contents with three values; every width ending exactly at
 * the end of the stream; signed helpers at the magnitude edges of every width */
void vf_sweep(vf_report *rep) {
    uint64_t evals = 0;
    for (unsigned t = 0; t < 4 && !rep->violated; t++) {
        const c11_ops *o = g_types[t];
        const unsigned W = o->W;
        for (unsigned fill = 0; fill < 3 && !rep->violated; fill++) {
            bs s;
            bs_open(&s, rep, o, fill == 2 ? 77 : fill);
            for (unsigned pos = 0; pos < W && !rep->violated; pos++) {
                for (unsigned width = 1; width <= W && !rep->violated; width++) {
                    for (unsigned vc = 0; vc < 3; vc++) {
                        static const unsigned cls[3] = {2, 1, 4};
                        /* alternate between word 1 and the last position that
                         * still fits, so stream-end writes are included */
                        size_t off = (size_t)W * (1 + (pos + width) % 4) + pos;
                        if (off + width > (size_t)NW * W) {
                            off -= W;
                        }
                        evals++;
                        if (bs_write(&s, off, width,
                                     rec_value(width, cls[vc], 0))) {
                            break;
                        }
                    }
                }
            }
            for (unsigned width = 1; width <= W && !rep->violated; width++) {
                evals++;
                bs_write(&s, (size_t)NW * W - width, width,
                         rec_value(width, 4, 0));
            }
            for (unsigned width = 2; width <= W && !rep->violated; width++) {
                const uint64_t M = maskbits(width - 1);
                for (unsigned k = 0; k + 1 < width && !rep->violated; k++) {
                    const uint64_t mags[3] = {1ULL << k, M - (M >> 1 >> k),
                                              M >> k};
                    for (unsigned i = 0; i < 3 && !rep->violated; i++) {
                        const size_t off = (size_t)W * 2 + (k * 7 + width) % W;
                        evals += 2;
                        if (mags[i] == 0) {
                            continue;
                        }
                        if (signed_case(&s, off, width, -(int64_t)mags[i]) ||
                            signed_case(&s, off, width, (int64_t)mags[i])) {
                            break;
                        }
                    }
                }
                if (!rep->violated) {
                    signed_case(&s, (size_t)W * 3, width, 0);
                }
            }
            bs_close(&s);
        }
    }
    if (!rep->violated) {
        huge_sweep(rep, &evals);
    }
    vf_evals(evals);
    vf_class_n("sweep.evals", evals);
}
