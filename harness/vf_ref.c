#include "vf_ref.h"

#include <string.h>

const char *const vf_family_name[VF_NFAMILY] = {
    "tagged",       "externalLE", "externalBE",      "chained",
    "chainedSimple", "split",      "splitFull",       "splitFullNoZero",
    "splitFull16"};

unsigned vf_ref_extwidth(uint64_t v) {
    unsigned w = 1;
    while (w < 8 && (v >> (8 * w)) != 0) {
        w++;
    }
    return w;
}

static void put_le(uint8_t *o, uint64_t v, unsigned w) {
    for (unsigned i = 0; i < w; i++) {
        o[i] = (uint8_t)(v >> (8 * i));
    }
}
static void put_be(uint8_t *o, uint64_t v, unsigned w) {
    for (unsigned i = 0; i < w; i++) {
        o[i] = (uint8_t)(v >> (8 * (w - 1 - i)));
    }
}
static uint64_t get_le(const uint8_t *p, unsigned w) {
    uint64_t v = 0;
    for (unsigned i = 0; i < w; i++) {
        v |= (uint64_t)p[i] << (8 * i);
    }
    return v;
}
static uint64_t get_be(const uint8_t *p, unsigned w) {
    uint64_t v = 0;
    for (unsigned i = 0; i < w; i++) {
        v = (v << 8) | p[i];
    }
    return v;
}

/* --- tagged: the sqlite4 ENCODE paragraph, literally ----------------------
 *  If V<=240 then output a single byte A0 equal to V.
 *  If V<=2287 then output A0 as (V-240)/256 + 241 and A1 as (V-240)%256.
 *  If V<=67823 then output A0 as 249, A1 as (V-2288)/256, A2 as (V-2288)%256.
 *  If V<=16777215 then output A0 as 250 and A1..A3 as a big-endian 3-byte int.
 *  ... 251/4 bytes, 252/5, 253/6, 254/7, 255/8. */
static unsigned tagged_enc(uint64_t v, uint8_t *o) {
    if (v <= 240) {
        o[0] = (uint8_t)v;
        return 1;
    }
    if (v <= 2287) {
        o[0] = (uint8_t)((v - 240) / 256 + 241);
        o[1] = (uint8_t)((v - 240) % 256);
        return 2;
    }
    if (v <= 67823) {
        o[0] = 249;
        o[1] = (uint8_t)((v - 2288) / 256);
        o[2] = (uint8_t)((v - 2288) % 256);
        return 3;
    }
    for (unsigned nb = 3; nb <= 8; nb++) {
        if (nb == 8 || v <= (((uint64_t)1 << (8 * nb)) - 1)) {
            o[0] = (uint8_t)(247 + nb);
            put_be(o + 1, v, nb);
            return 1 + nb;
        }
    }
    return 0;
}
static unsigned tagged_dec(const uint8_t *a, uint64_t *v) {
    if (a[0] <= 240) {
        *v = a[0];
        return 1;
    }
    if (a[0] <= 248) {
        *v = 240 + 256 * (uint64_t)(a[0] - 241) + a[1];
        return 2;
    }
    if (a[0] == 249) {
        *v = 2288 + 256 * (uint64_t)a[1] + a[2];
        return 3;
    }
    unsigned nb = a[0] - 247;
    *v = get_be(a + 1, nb);
    return 1 + nb;
}

/* --- chained: A/B/C table, big-endian 7-bit groups, ninth byte is full ---- */
static unsigned chained_enc(uint64_t v, uint8_t *o) {
    if (v >> 56) {
        /* BBBBBBBBC: 8 groups of 7 bits (bits 63..8), then 8 bits */
        for (unsigned i = 0; i < 8; i++) {
            o[i] = (uint8_t)(0x80 | ((v >> (8 + 7 * (7 - i))) & 0x7f));
        }
        o[8] = (uint8_t)(v & 0xff);
        return 9;
    }
    unsigned groups = 1;
    while (groups < 8 && (v >> (7 * groups)) != 0) {
        groups++;
    }
    for (unsigned i = 0; i < groups; i++) {
        uint8_t g = (uint8_t)((v >> (7 * (groups - 1 - i))) & 0x7f);
        o[i] = (uint8_t)(i + 1 < groups ? (0x80 | g) : g);
    }
    return groups;
}
static unsigned chained_dec(const uint8_t *p, uint64_t *v) {
    uint64_t r = 0;
    for (unsigned i = 0; i < 8; i++) {
        r = (r << 7) | (p[i] & 0x7f);
        if (!(p[i] & 0x80)) {
            *v = r;
            return i + 1;
        }
    }
    *v = (r << 8) | p[8];
    return 9;
}

/* --- chained simple: LEB128 little-endian, capped at 9 bytes with a full
 * last byte ---------------------------------------------------------------- */
static unsigned csimple_enc(uint64_t v, uint8_t *o) {
    unsigned n = 0;
    while (n < 8 && v >= 128) {
        o[n++] = (uint8_t)(0x80 | (v & 0x7f));
        v >>= 7;
    }
    o[n++] = (uint8_t)v; /* ninth byte (n==8) carries all 8 remaining bits */
    return n;
}
static unsigned csimple_dec(const uint8_t *p, uint64_t *v) {
    uint64_t r = 0;
    for (unsigned i = 0; i < 8; i++) {
        r |= (uint64_t)(p[i] & 0x7f) << (7 * i);
        if (!(p[i] & 0x80)) {
            *v = r;
            return i + 1;
        }
    }
    r |= (uint64_t)p[8] << 56;
    *v = r;
    return 9;
}

/* --- split families: "Data Layout" comments ------------------------------- */
/* split:  |00pppppp| <=63 ; |01pppppp|q| <= 16446 (value - 63 in 14 bits);
 *         |1000wwww| + w-byte little-endian (value - 16446), w minimal */
static unsigned split_enc(uint64_t v, uint8_t *o) {
    if (v <= 63) {
        o[0] = (uint8_t)v;
        return 1;
    }
    if (v <= 16446) {
        uint64_t x = v - 63;
        o[0] = (uint8_t)(0x40 | (x >> 8));
        o[1] = (uint8_t)(x & 0xff);
        return 2;
    }
    uint64_t x = v - 16446;
    unsigned w = vf_ref_extwidth(x);
    o[0] = (uint8_t)(0x80 | w);
    put_le(o + 1, x, w);
    return 1 + w;
}
static unsigned split_dec(const uint8_t *p, uint64_t *v) {
    switch (p[0] & 0xc0) {
    case 0x00:
        *v = p[0] & 0x3f;
        return 1;
    case 0x40:
        *v = (((uint64_t)(p[0] & 0x3f) << 8) | p[1]) + 63;
        return 2;
    case 0x80: {
        unsigned w = p[0] & 0x3f;
        if (w < 1 || w > 8) {
            return 0;
        }
        *v = get_le(p + 1, w) + 16446;
        return 1 + w;
    }
    default:
        return 0;
    }
}

/* split-full (base 0) / split-full-no-zero (base 1):
 *   |00pppppp|           base .. base+63
 *   |01pppppp|q|         up to L2 = L1 + 2^14 - 1      (value - L1)
 *   |10pppppp|q|r|       up to L3 = L2 + 2^22 - 1      (value - L2)
 *   |1100wwww| + w-byte LE (value - L3), w minimal but never 1 (never-shrink)
 * where L1 = 63 (full) or 64 (no-zero; 1-byte form stores value-1). */
static unsigned sfull_enc(uint64_t v, uint8_t *o, int nozero) {
    uint64_t L1 = nozero ? 64 : 63;
    uint64_t L2 = L1 + 0x3fff;
    uint64_t L3 = L2 + 0x3fffff;
    if (v <= L1) {
        o[0] = (uint8_t)(nozero ? v - 1 : v);
        return 1;
    }
    if (v <= L2) {
        uint64_t x = v - L1;
        o[0] = (uint8_t)(0x40 | (x >> 8));
        o[1] = (uint8_t)(x & 0xff);
        return 2;
    }
    if (v <= L3) {
        uint64_t x = v - L2;
        o[0] = (uint8_t)(0x80 | (x >> 16));
        o[1] = (uint8_t)((x >> 8) & 0xff);
        o[2] = (uint8_t)(x & 0xff);
        return 3;
    }
    uint64_t x = v - L3;
    unsigned w = vf_ref_extwidth(x);
    if (w == 1) {
        w = 2;
    }
    o[0] = (uint8_t)(0xc0 | w);
    put_le(o + 1, x, w);
    return 1 + w;
}
static unsigned sfull_dec(const uint8_t *p, uint64_t *v, int nozero) {
    uint64_t L1 = nozero ? 64 : 63;
    uint64_t L2 = L1 + 0x3fff;
    uint64_t L3 = L2 + 0x3fffff;
    switch (p[0] & 0xc0) {
    case 0x00:
        *v = (p[0] & 0x3f) + (nozero ? 1 : 0);
        return 1;
    case 0x40:
        *v = (((uint64_t)(p[0] & 0x3f) << 8) | p[1]) + L1;
        return 2;
    case 0x80:
        *v = (((uint64_t)(p[0] & 0x3f) << 16) | ((uint64_t)p[1] << 8) | p[2]) +
             L2;
        return 3;
    default: {
        unsigned w = p[0] & 0x3f;
        if (w < 2 || w > 8) {
            return 0;
        }
        *v = get_le(p + 1, w) + L3;
        return 1 + w;
    }
    }
}

/* split-full-16:
 *   |00pppppp|q|       <= 16383
 *   |01pppppp|q|r|     <= 16383 + 2^22 - 1   (value - 16383)
 *   |10pppppp|q|r|s|   <= prev + 2^30 - 1    (value - 4210686)
 *   |1100wwww| + w-byte LE (value - 1077952509), w in 4..8 */
static unsigned s16_enc(uint64_t v, uint8_t *o) {
    const uint64_t L1 = 0x3fff, L2 = L1 + 0x3fffff, L3 = L2 + 0x3fffffff;
    if (v <= L1) {
        o[0] = (uint8_t)(v >> 8);
        o[1] = (uint8_t)(v & 0xff);
        return 2;
    }
    if (v <= L2) {
        uint64_t x = v - L1;
        o[0] = (uint8_t)(0x40 | (x >> 16));
        o[1] = (uint8_t)((x >> 8) & 0xff);
        o[2] = (uint8_t)(x & 0xff);
        return 3;
    }
    if (v <= L3) {
        uint64_t x = v - L2;
        o[0] = (uint8_t)(0x80 | (x >> 24));
        o[1] = (uint8_t)((x >> 16) & 0xff);
        o[2] = (uint8_t)((x >> 8) & 0xff);
        o[3] = (uint8_t)(x & 0xff);
        return 4;
    }
    uint64_t x = v - L3;
    unsigned w = vf_ref_extwidth(x);
    if (w < 4) {
        w = 4; /* never shrink below the 4-byte embedded form */
    }
    o[0] = (uint8_t)(0xc0 | w);
    put_le(o + 1, x, w);
    return 1 + w;
}
static unsigned s16_dec(const uint8_t *p, uint64_t *v) {
    const uint64_t L1 = 0x3fff, L2 = L1 + 0x3fffff, L3 = L2 + 0x3fffffff;
    switch (p[0] & 0xc0) {
    case 0x00:
        *v = ((uint64_t)(p[0] & 0x3f) << 8) | p[1];
        return 2;
    case 0x40:
        *v = (((uint64_t)(p[0] & 0x3f) << 16) | ((uint64_t)p[1] << 8) | p[2]) +
             L1;
        return 3;
    case 0x80:
        *v = (((uint64_t)(p[0] & 0x3f) << 24) | ((uint64_t)p[1] << 16) |
              ((uint64_t)p[2] << 8) | p[3]) +
             L2;
        return 4;
    default: {
        unsigned w = p[0] & 0x3f;
        if (w < 4 || w > 8) {
            return 0;
        }
        *v = get_le(p + 1, w) + L3;
        return 1 + w;
    }
    }
}

unsigned vf_ref_encode(enum vf_family f, uint64_t v, uint8_t *out) {
    switch (f) {
    case VF_TAGGED:
        return tagged_enc(v, out);
    case VF_EXTERNAL_LE: {
        unsigned w = vf_ref_extwidth(v);
        put_le(out, v, w);
        return w;
    }
    case VF_EXTERNAL_BE: {
        unsigned w = vf_ref_extwidth(v);
        put_be(out, v, w);
        return w;
    }
    case VF_CHAINED:
        return chained_enc(v, out);
    case VF_CHAINED_SIMPLE:
        return csimple_enc(v, out);
    case VF_SPLIT:
        return split_enc(v, out);
    case VF_SPLIT_FULL:
        return sfull_enc(v, out, 0);
    case VF_SPLIT_FULL_NO_ZERO:
        return sfull_enc(v, out, 1);
    case VF_SPLIT_FULL_16:
        return s16_enc(v, out);
    default:
        return 0;
    }
}

unsigned vf_ref_decode(enum vf_family f, const uint8_t *in, unsigned extlen,
                       uint64_t *v) {
    switch (f) {
    case VF_TAGGED:
        return tagged_dec(in, v);
    case VF_EXTERNAL_LE:
        *v = get_le(in, extlen);
        return extlen;
    case VF_EXTERNAL_BE:
        *v = get_be(in, extlen);
        return extlen;
    case VF_CHAINED:
        return chained_dec(in, v);
    case VF_CHAINED_SIMPLE:
        return csimple_dec(in, v);
    case VF_SPLIT:
        return split_dec(in, v);
    case VF_SPLIT_FULL:
        return sfull_dec(in, v, 0);
    case VF_SPLIT_FULL_NO_ZERO:
        return sfull_dec(in, v, 1);
    case VF_SPLIT_FULL_16:
        return s16_dec(in, v);
    default:
        return 0;
    }
}

unsigned vf_ref_len(enum vf_family f, uint64_t v) {
    uint8_t tmp[16];
    return vf_ref_encode(f, v, tmp);
}

unsigned vf_ref_minlen(enum vf_family f) {
    return f == VF_SPLIT_FULL_16 ? 2 : 1;
}
unsigned vf_ref_maxlen(enum vf_family f) {
    return (f == VF_EXTERNAL_LE || f == VF_EXTERNAL_BE) ? 8 : 9;
}

/* Per-length maxima, as *tables* from README "Storage Overview" and the header
 * comments (so a drift between table and encoder is visible). */
uint64_t vf_ref_max_for_len(enum vf_family f, unsigned len) {
    static const uint64_t tagged[10] = {0,
                                        240ULL,
                                        2287ULL,
                                        67823ULL,
                                        16777215ULL,
                                        4294967295ULL,
                                        1099511627775ULL,
                                        281474976710655ULL,
                                        72057594037927935ULL,
                                        18446744073709551615ULL};
    static const uint64_t split[10] = {0,
                                       63ULL,
                                       16701ULL,
                                       81981ULL,
                                       16793661ULL,
                                       4294983741ULL,
                                       1099511644221ULL,
                                       281474976727101ULL,
                                       72057594037944381ULL,
                                       18446744073709551615ULL};
    static const uint64_t sfull[10] = {0,
                                       63ULL,
                                       16446ULL,
                                       4276284ULL,
                                       20987964ULL,
                                       4299178044ULL,
                                       1099515838524ULL,
                                       281474980921404ULL,
                                       72057594042138684ULL,
                                       18446744073709551615ULL};
    static const uint64_t s16[10] = {0,
                                     0,
                                     16383ULL,
                                     4210686ULL,
                                     1077952509ULL,
                                     5372919804ULL,
                                     1100589580284ULL,
                                     281476054663164ULL,
                                     72057595115880444ULL,
                                     18446744073709551615ULL};
    if (len < 1 || len > 9) {
        return 0;
    }
    switch (f) {
    case VF_TAGGED:
        return tagged[len];
    case VF_EXTERNAL_LE:
    case VF_EXTERNAL_BE:
        return len >= 8 ? UINT64_MAX : (((uint64_t)1 << (8 * len)) - 1);
    case VF_CHAINED:
    case VF_CHAINED_SIMPLE:
        return len >= 9 ? UINT64_MAX : (((uint64_t)1 << (7 * len)) - 1);
    case VF_SPLIT:
        return split[len];
    case VF_SPLIT_FULL:
        return sfull[len];
    case VF_SPLIT_FULL_NO_ZERO:
        /* README: every split-full maximum shifted up by one */
        return len >= 9 ? UINT64_MAX : sfull[len] + 1;
    case VF_SPLIT_FULL_16:
        return s16[len];
    default:
        return 0;
    }
}

/* --- Elias ---------------------------------------------------------------- */
static unsigned bitlen(uint64_t v) {
    unsigned n = 0;
    while (v) {
        n++;
        v >>= 1;
    }
    return n;
}
/* gamma(v): N = floor(log2 v); N zeros, then v in N+1 bits (MSB first) */
unsigned vf_ref_gamma_bits(uint64_t v, char *out) {
    unsigned nb = bitlen(v);
    unsigned k = 0;
    for (unsigned i = 0; i + 1 < nb; i++) {
        out[k++] = '0';
    }
    for (unsigned i = nb; i-- > 0;) {
        out[k++] = ((v >> i) & 1) ? '1' : '0';
    }
    out[k] = 0;
    return k;
}
/* delta(v): L = floor(log2 v) + 1; gamma(L), then the low L-1 bits of v */
unsigned vf_ref_delta_bits(uint64_t v, char *out) {
    unsigned nb = bitlen(v);
    unsigned k = vf_ref_gamma_bits(nb, out);
    for (unsigned i = nb - 1; i-- > 0;) {
        out[k++] = ((v >> i) & 1) ? '1' : '0';
    }
    out[k] = 0;
    return k;
}

uint64_t vf_ref_zigzag(int64_t n) {
    if (n >= 0) {
        return 2 * (uint64_t)n;
    }
    /* -2n - 1 computed without overflow */
    return 2 * (uint64_t)(-(n + 1)) + 1;
}
int64_t vf_ref_unzigzag(uint64_t u) {
    if (u & 1) {
        return -(int64_t)(u >> 1) - 1;
    }
    return (int64_t)(u >> 1);
}
