/* C12 - in-place add stores the exact sum and never outgrows a no-grow slot.
 *
 * case layout:  mode:1 fill:1 then up to 6 records
 *                 { stored:u64, slotx:1, kind:1, param:1, [extra:u64] }
 *   mode & 1   family: 0 tagged (varintTaggedAddNoGrow/Grow),
 *                      1 external (varintExternalAddNoGrow/Grow)
 *   mode & 2   grow form
 *   slotx      external only: slot width = minimal width + slotx % (9 - minimal)
 *              (tagged slots always have the value's own width)
 *   kind % 12  amount: 0 zero, 1 +1, 2 -1,
 *              3 up to the slot's maximum + {0,1,2},
 *              4 down to the next lower width maximum + {-1,0,1},
 *              5 to any width maximum of the family + {-1,0,1,2},
 *              6 INT64_MAX / INT64_MIN / INT64_MAX-1 / INT64_MIN+1,
 *              7 INT64_MAX - S + {-1,0,1,2}, 8 INT64_MIN - S + {-2,-1,0,1},
 *              9 extra as int64, 10 -extra, 11 (int8)param
 *
 * model (documented signed interpretation): S = (int64)stored.  If S + amount
 * overflows int64: return 0, every byte unchanged.  Otherwise R =
 * (uint64)(S + amount), need = minimal width of R in the family.  No-grow with
 * need > slot: return need, every byte unchanged.  Otherwise: the returned
 * width w is need (tagged: one encoding per value) or need <= w <= slot /
 * family maximum (external no-grow / grow: a wider fixed-width form is a legal
 * external varint), the value decoded from the slot with the returned width is
 * R, and no byte beyond max(slot, w) changed (no-grow: beyond the slot).  Grow
 * never exceeds 9 (tagged) / 8 (external) bytes.
 *
 * buffers: tagged 9 bytes (the documented minimum for the tagged writer),
 * external no-grow exactly the slot, external grow 8 bytes; all from
 * vf_exact_alloc (ASan redzone / canary tail). */
#include "vf.h"
#include "vf_ref.h"

#include "varint.h"
#include "varintExternal.h"
#include "varintTagged.h"

const char *vf_prop_id = "C12";
const size_t vf_case_maxlen = 120;

typedef struct add_case {
    int external;
    int grow;
    uint64_t stored;
    unsigned slot;
    int64_t amount;
    uint8_t fill;
} add_case;

static unsigned fam_maxw(int external) {
    return external ? 8 : 9;
}
static unsigned fam_width(int external, uint64_t v) {
    return external ? vf_ref_extwidth(v) : vf_ref_len(VF_TAGGED, v);
}
static uint64_t fam_max(int external, unsigned w) {
    return vf_ref_max_for_len(external ? VF_EXTERNAL_LE : VF_TAGGED, w);
}

static void hex(char *o, size_t cap, const uint8_t *p, unsigned n) {
    size_t k = 0;
    o[0] = 0;
    for (unsigned i = 0; i < n && k + 3 < cap; i++) {
        k += (size_t)snprintf(o + k, cap - k, "%02x", p[i]);
    }
}

static const char *hexs(char *o, size_t cap, const uint8_t *p, unsigned n) {
    hex(o, cap, p, n);
    return o;
}

enum outcome { O_OVERFLOW, O_NOFIT, O_GREW, O_SHRANK, O_SAME };

/* runs one add; returns the model outcome, or -1 after a violation */
static int run_one(vf_report *rep, const add_case *ac) {
    const int ext = ac->external;
    const char *fam = ext ? "external" : "tagged";
    const char *mode = ac->grow ? "grow" : "nogrow";
    static const char *const sites[2][2] = {
        {"tagged.add.nogrow", "tagged.add.grow"},
        {"external.add.nogrow", "external.add.grow"}};
    const char *site = sites[ext ? 1 : 0][ac->grow ? 1 : 0];
    const unsigned slot = ac->slot;
    const unsigned cap = ext ? (ac->grow ? 8 : slot) : 9;
    uint8_t *buf = (uint8_t *)vf_exact_alloc(cap);
    uint8_t pre[16], post[16];
    memset(buf, ac->fill, cap);
    if (ext) {
        for (unsigned i = 0; i < slot; i++) {
            buf[i] = (uint8_t)(ac->stored >> (8 * i));
        }
    } else {
        uint8_t e[16];
        unsigned l = vf_ref_encode(VF_TAGGED, ac->stored, e);
        memcpy(buf, e, l);
    }
    memcpy(pre, buf, cap);

    /* ---- model ---- */
    const int64_t S = (int64_t)ac->stored;
    const __int128 wide = (__int128)S + (__int128)ac->amount;
    const int overflow = wide > (__int128)INT64_MAX || wide < (__int128)INT64_MIN;
    const uint64_t R = overflow ? 0 : (uint64_t)(int64_t)wide;
    const unsigned need = overflow ? 0 : fam_width(ext, R);
    const unsigned oldmin = fam_width(ext, ac->stored);
    int outcome;
    if (overflow) {
        outcome = O_OVERFLOW;
    } else if (!ac->grow && need > slot) {
        outcome = O_NOFIT;
    } else if (need > oldmin) {
        outcome = O_GREW;
    } else if (need < oldmin) {
        outcome = O_SHRANK;
    } else {
        outcome = O_SAME;
    }

    /* ---- library ---- */
    unsigned ret;
    if (ext) {
        ret = ac->grow
                  ? varintExternalAddGrow(buf, (varintWidth)slot, ac->amount)
                  : varintExternalAddNoGrow(buf, (varintWidth)slot, ac->amount);
    } else {
        ret = ac->grow ? varintTaggedAddGrow(buf, ac->amount)
                       : varintTaggedAddNoGrow(buf, ac->amount);
    }
    memcpy(post, buf, cap);
    size_t dmg = vf_exact_check(buf);
    vf_exact_free(buf);

    char hpre[40], hpost[40];
#define WITNESS                                                                \
    "%s %s: stored=%llu (S=%lld) in a %u-byte slot, amount=%lld; buffer %s -> " \
    "%s, returned %u; "
#define WARGS                                                                  \
    fam, mode, (unsigned long long)ac->stored, (long long)S, slot,             \
        (long long)ac->amount, hexs(hpre, sizeof(hpre), pre, cap),             \
        hexs(hpost, sizeof(hpost), post, cap), ret

    if (dmg) {
        vf_fail(rep, site, "canary",
                WITNESS "byte %zu past the %u-byte buffer was overwritten",
                WARGS, dmg, cap);
        return -1;
    }
    if (outcome == O_OVERFLOW) {
        if (ret != 0 || memcmp(pre, post, cap) != 0) {
            vf_fail(rep, site, "overflow",
                    WITNESS "the signed sum overflows int64: expected 0 and an "
                            "untouched buffer",
                    WARGS);
            return -1;
        }
        return outcome;
    }
    if (outcome == O_NOFIT) {
        if (ret != need) {
            vf_fail(rep, site, "width",
                    WITNESS "the sum %llu needs %u bytes and does not fit: "
                            "expected the required width",
                    WARGS, (unsigned long long)R, need);
            return -1;
        }
        if (memcmp(pre, post, cap) != 0) {
            vf_fail(rep, site, "untouched",
                    WITNESS "the sum %llu needs %u bytes and does not fit: the "
                            "buffer must stay unchanged",
                    WARGS, (unsigned long long)R, need);
            return -1;
        }
        return outcome;
    }
    /* stored */
    if (ret > fam_maxw(ext)) {
        vf_fail(rep, site, "width",
                WITNESS "width beyond the family maximum %u", WARGS,
                fam_maxw(ext));
        return -1;
    }
    /* "returns the width of what is now stored".  A tagged varint has one
     * encoding per value (C04/C05), so that width is the width of the sum.
     * An external varint may legally be kept wider than its value needs (the
     * fixed-width forms of C01), so the add may answer with any width from
     * the sum's own up to what it was allowed to use - the slot (no-grow; a
     * sum that needs more was handled above) or the family maximum (grow) -
     * provided the slot read with THAT width holds the sum, which is checked
     * next. */
    if (ext ? (ret < need || ret > (ac->grow ? fam_maxw(ext) : slot))
            : ret != need) {
        vf_fail(rep, site, "width",
                WITNESS "the sum is %llu whose width is %u", WARGS,
                (unsigned long long)R, need);
        return -1;
    }
    if (ext) {
        vf_class(ret == need ? "external.ret.minimal" : "external.ret.wider");
    }
    {
        uint64_t got = ~R;
        unsigned dl;
        uint8_t tmp[24];
        memset(tmp, 0, sizeof(tmp));
        memcpy(tmp, post, cap);
        if (ext) {
            dl = vf_ref_decode(VF_EXTERNAL_LE, tmp, ret, &got);
        } else {
            dl = vf_ref_decode(VF_TAGGED, tmp, 0, &got);
        }
        if (got != R || dl != ret) {
            vf_fail(rep, site, "value",
                    WITNESS "expected the sum %llu; the slot now decodes to "
                            "%llu in %u bytes",
                    WARGS, (unsigned long long)R, (unsigned long long)got, dl);
            return -1;
        }
    }
    {
        unsigned keep = slot > ret ? slot : ret;
        for (unsigned i = keep; i < cap; i++) {
            if (post[i] != pre[i]) {
                vf_fail(rep, site, "untouched",
                        WITNESS "byte %u changed although the varint occupies "
                                "%u bytes now and %u before",
                        WARGS, i, ret, slot);
                return -1;
            }
        }
    }
    return outcome;
#undef WITNESS
#undef WARGS
}

static const char *const outcome_name[] = {"overflow", "nofit", "grew", "shrank",
                                           "same"};
static const char *const kind_name[12] = {
    "zero",     "plus1",    "minus1",  "slotmax", "lowermax", "anymax",
    "int64edge", "ovf.high", "ovf.low", "random",  "negrandom", "small"};

static int64_t make_amount(vf_rd *r, const add_case *ac, unsigned kind,
                           unsigned param) {
    const int ext = ac->external;
    const uint64_t st = ac->stored;
    switch (kind) {
    case 0:
        return 0;
    case 1:
        return 1;
    case 2:
        return -1;
    case 3: {
        /* to the top of the current slot and just past it */
        uint64_t target = fam_max(ext, ac->slot) + param % 3;
        return (int64_t)(target - st);
    }
    case 4: {
        /* down across the next lower width boundary */
        unsigned w = fam_width(ext, st);
        uint64_t base = w > 1 ? fam_max(ext, w - 1) : 0;
        uint64_t target = base + param % 3 - 1;
        return (int64_t)(target - st);
    }
    case 5: {
        unsigned L = 1 + param % fam_maxw(ext);
        uint64_t target = fam_max(ext, L) + ((param >> 4) & 3) - 1;
        return (int64_t)(target - st);
    }
    case 6: {
        static const int64_t e[4] = {INT64_MAX, INT64_MIN, INT64_MAX - 1,
                                     INT64_MIN + 1};
        return e[param & 3];
    }
    case 7:
        return (int64_t)((uint64_t)INT64_MAX - st + (param & 3) - 1);
    case 8:
        return (int64_t)((uint64_t)INT64_MIN - st + (param & 3) - 2);
    case 9:
        return (int64_t)vf_u64(r);
    case 10:
        return (int64_t)(~vf_u64(r) + 1);
    default:
        return (int64_t)(int8_t)param;
    }
}

void vf_run(vf_rd *r, vf_report *rep) {
    unsigned mode = vf_u8(r);
    add_case ac;
    memset(&ac, 0, sizeof(ac));
    ac.external = mode & 1;
    ac.grow = (mode >> 1) & 1;
    ac.fill = (uint8_t)(vf_u8(r) ^ 0xA5);
    const char *fam = ac.external ? "external" : "tagged";
    const char *md = ac.grow ? "grow" : "nogrow";
    vf_desc(rep, "%s %s fill=0x%02x", fam, md, ac.fill);
    unsigned n = 0;
    do {
        ac.stored = vf_u64(r);
        unsigned slotx = vf_u8(r);
        unsigned kind = vf_u8(r) % 12;
        unsigned param = vf_u8(r);
        unsigned minimal = fam_width(ac.external, ac.stored);
        ac.slot = ac.external ? minimal + slotx % (9 - minimal) : minimal;
        ac.amount = make_amount(r, &ac, kind, param);
        vf_desc(rep, " {stored=%llu slot=%u %s amount=%lld}",
                (unsigned long long)ac.stored, ac.slot, kind_name[kind],
                (long long)ac.amount);
        int o = run_one(rep, &ac);
        if (o < 0) {
            return;
        }
        if (n > 0) {
            vf_evals(1);
        }
        n++;
        {
            static char ocls[2][2][5][40], kcls[12][24];
            if (!kcls[0][0]) {
                for (int f = 0; f < 2; f++) {
                    for (int g = 0; g < 2; g++) {
                        for (int k = 0; k < 5; k++) {
                            snprintf(ocls[f][g][k], sizeof(ocls[f][g][k]),
                                     "%s.%s.%s", f ? "external" : "tagged",
                                     g ? "grow" : "nogrow", outcome_name[k]);
                        }
                    }
                }
                for (int k = 0; k < 12; k++) {
                    snprintf(kcls[k], sizeof(kcls[k]), "amount.%s",
                             kind_name[k]);
                }
            }
            vf_class(ocls[ac.external][ac.grow][o]);
            vf_class(kcls[kind]);
            if (ac.slot > minimal) {
                vf_class("external.slot.wider");
            }
            if ((int64_t)ac.stored < 0) {
                vf_class("stored.negative");
            }
        }
        {
            __int128 wide = (__int128)(int64_t)ac.stored + (__int128)ac.amount;
            int edge = wide >= (__int128)INT64_MAX - 2 ||
                       wide <= (__int128)INT64_MIN + 2;
            if (edge && o != O_OVERFLOW) {
                vf_class("sum.at.int64.edge");
            }
            int crosses = 0;
            if (o != O_OVERFLOW) {
                crosses = fam_width(ac.external, (uint64_t)(int64_t)wide) !=
                          minimal;
            }
            if (crosses || edge) {
                uint64_t h = vf_mix(vf_mix(mode & 3, ac.stored), ac.slot);
                vf_nontrivial(vf_mix(h, (uint64_t)ac.amount));
            }
        }
    } while (n < 6 && vf_left(r) > 0);
}

/* deterministic sweep: both families, every width, stored values at both ends
 * of the width class, every legal slot width, both forms, amounts that hit
 * every width maximum of the family -1/0/+1, the int64 overflow edges and a few
 * small ones */
void vf_sweep(vf_report *rep) {
    uint64_t evals = 0;
    add_case ac;
    memset(&ac, 0, sizeof(ac));
    ac.fill = 0x5A;
    for (int ext = 0; ext < 2; ext++) {
        ac.external = ext;
        unsigned maxw = fam_maxw(ext);
        for (unsigned L = 1; L <= maxw; L++) {
            uint64_t lo = L > 1 ? fam_max(ext, L - 1) + 1 : 0;
            uint64_t hi = fam_max(ext, L);
            uint64_t cand[6] = {lo, lo + 1, hi - 1, hi, lo + (hi - lo) / 2,
                                lo + 10};
            for (unsigned ci = 0; ci < 6; ci++) {
                ac.stored = cand[ci];
                if (fam_width(ext, ac.stored) != L) {
                    continue;
                }
                int64_t amounts[64];
                unsigned na = 0;
                static const int64_t small[] = {0, 1, -1, 2, -2, 15, 255,
                                                256, -255, -256, 65536};
                for (unsigned i = 0; i < sizeof(small) / sizeof(small[0]); i++) {
                    amounts[na++] = small[i];
                }
                for (unsigned M = 1; M <= maxw; M++) {
                    for (int d = -1; d <= 1; d++) {
                        uint64_t target = fam_max(ext, M) + (uint64_t)(int64_t)d;
                        amounts[na++] = (int64_t)(target - ac.stored);
                    }
                }
                for (int d = -1; d <= 1; d++) {
                    amounts[na++] = (int64_t)((uint64_t)INT64_MAX - ac.stored +
                                              (uint64_t)(int64_t)d);
                    amounts[na++] = (int64_t)((uint64_t)INT64_MIN - ac.stored +
                                              (uint64_t)(int64_t)d);
                }
                amounts[na++] = INT64_MAX;
                amounts[na++] = INT64_MIN;
                unsigned slothi = ext ? 8 : L;
                for (unsigned slot = L; slot <= slothi; slot++) {
                    ac.slot = slot;
                    for (int grow = 0; grow < 2; grow++) {
                        ac.grow = grow;
                        for (unsigned ai = 0; ai < na; ai++) {
                            ac.amount = amounts[ai];
                            if (run_one(rep, &ac) < 0) {
                                return;
                            }
                            evals++;
                        }
                    }
                }
            }
        }
    }
    vf_evals(evals);
    vf_class_n("sweep.evals", evals);
}
