/* C09 - packed bit arrays: element isolation and sorted-array semantics.
 *
 * case layout:  config:1  n:2  then 7-byte records  op:1 idx:2 value:4
 *
 *   config   index into the generated instantiation table (mod count)
 *   n        bits 0-8 raw length, 9-10 length class (1..24 / 1..24 / 1..80 /
 *            1..300), 11-12 background fill of the storage (0x00, 0xff,
 *            pseudo-random, 0xaa/0x55), 13-14 aux (sorted mode: initial live
 *            length n, n-1, n/2, 0), 15 mode (0 positional, 1 sorted)
 *   records  positional mode: set get incr half insert delete   (op % 6)
 *            sorted mode:     insertSorted member deleteMember binarySearch
 *                             delete get                         (op % 6)
 *
 * The storage holds exactly the slots n elements need (vf_exact_alloc: ASan
 * redzone, or canaries in the gcc configurations).  The caller tracks the
 * length, as the tree's own users do: Insert/InsertSorted are called with a
 * length argument < n (they write element [len]), Delete/DeleteMember with a
 * length argument >= 1 / >= 0 and <= n.  Elements at and beyond the live
 * length are ordinary storage and are tracked by the reference as well.
 *
 * oracle: reference uint32_t[n]; after every record every one of the n
 * elements reads back as the reference, the unused tail bits of the last slot
 * and the guards are unchanged; query results equal the reference's
 * (first equal index or -1; lower bound).  Under ASan every set/get is
 * additionally executed on a copy of the storage in which every byte outside
 * the slots the element occupies is poisoned. */
#include "vf.h"

#include "c09_packed.h"

const char *vf_prop_id = "C09";
const size_t vf_case_maxlen = 200;

#define MAXN 300

#if defined(__has_feature)
#if __has_feature(address_sanitizer)
#define C09_ASAN 1
#endif
#endif
#ifdef __SANITIZE_ADDRESS__
#undef C09_ASAN
#define C09_ASAN 1
#endif
#ifndef C09_ASAN
#define C09_ASAN 0
#endif
#if C09_ASAN
void __asan_poison_memory_region(void const volatile *addr, size_t size);
void __asan_unpoison_memory_region(void const volatile *addr, size_t size);
#endif

/* per-case class counters, flushed once per case (vf_class is a linear scan) */
enum {
    K_POS,
    K_SORTED,
    K_SET,
    K_GET,
    K_INCR,
    K_HALF,
    K_INSERT,
    K_DELETE,
    K_INSERT_SORTED,
    K_MEMBER_HIT,
    K_MEMBER_MISS,
    K_DELMEMBER_HIT,
    K_DELMEMBER_MISS,
    K_BSEARCH,
    K_BSEARCH_END,
    K_STRADDLE,
    K_SHIFT_SORTED,
    K_SHIFT_POS,
    K_INSERT_FULL,
    K_LAST_ELEMENT,
    K_ISO,
    K_SORTED_EMPTY,
    K_INCR_TO_MAX,
    K_N
};
static const char *const kname[K_N] = {
    "mode.positional", "mode.sorted",      "op.set",
    "op.get",          "op.incr",          "op.half",
    "op.insert",       "op.delete",        "op.insertSorted",
    "member.hit",      "member.miss",      "deleteMember.hit",
    "deleteMember.miss", "op.binarySearch", "binarySearch.end",
    "straddle",        "shift.sorted",     "shift.positional",
    "insert.at-capacity", "last-element",  "iso.poisoned",
    "sorted.empty",    "incr.to-max",
};

typedef struct hist {
    vf_report *rep;
    const c09_inst *in;
    unsigned B;  /* bits per element */
    unsigned S;  /* bits per slot    */
    unsigned sb; /* bytes per slot   */
    uint32_t mask;
    unsigned n; /* capacity == number of elements compared */
    size_t slots, bytes;
    uint8_t *mem;
    uint32_t ref[MAXN];
    int hasTail;
    unsigned used; /* bits of the last slot that belong to elements */
    uint64_t tail0;
    unsigned recno;
    char opdesc[72];
    uint64_t k[K_N];
} hist;

static unsigned gcd_u(unsigned a, unsigned b) {
    while (b) {
        unsigned t = a % b;
        a = b;
        b = t;
    }
    return a;
}

static uint64_t slot_read(const hist *h, size_t slot) {
    const uint8_t *p = h->mem + slot * h->sb;
    switch (h->sb) {
    case 1:
        return *p;
    case 2: {
        uint16_t t;
        memcpy(&t, p, 2);
        return t;
    }
    case 4: {
        uint32_t t;
        memcpy(&t, p, 4);
        return t;
    }
    default: {
        uint64_t t;
        memcpy(&t, p, 8);
        return t;
    }
    }
}

static uint64_t tail_bits(const hist *h) {
    return h->hasTail ? slot_read(h, h->slots - 1) >> h->used : 0;
}

static int straddles(const hist *h, unsigned i) {
    uint64_t first = (uint64_t)i * h->B;
    return first / h->S != (first + h->B - 1) / h->S;
}

/* compare the whole array, the tail bits and the guards with the reference.
 * target: index of the element the operation addressed, or -1 when the
 * operation is allowed to move many elements (the reference says which). */
static int check_state(hist *h, const char *op, int target) {
    char site[64];
    for (unsigned i = 0; i < h->n; i++) {
        uint32_t g = h->in->get(h->mem, i);
        if (g != h->ref[i]) {
            if (target >= 0 && (unsigned)target != i) {
                snprintf(site, sizeof(site), "%s.neighbour", op);
                return vf_fail(h->rep, site, "isolation",
                               "%s n=%u record %u %s: element %u (which the "
                               "operation does not address) now reads 0x%x, "
                               "was 0x%x",
                               h->in->name, h->n, h->recno, h->opdesc, i, g,
                               h->ref[i]);
            }
            snprintf(site, sizeof(site), "%s.%s", op,
                     target >= 0 ? "self" : "array");
            return vf_fail(h->rep, site, "value",
                           "%s n=%u record %u %s: element %u reads 0x%x, "
                           "reference 0x%x",
                           h->in->name, h->n, h->recno, h->opdesc, i, g,
                           h->ref[i]);
        }
    }
    if (h->hasTail) {
        uint64_t t = tail_bits(h);
        if (t != h->tail0) {
            snprintf(site, sizeof(site), "%s.tailbits", op);
            return vf_fail(h->rep, site, "canary",
                           "%s n=%u record %u %s: the %u unused high bits of "
                           "the last slot changed 0x%llx -> 0x%llx",
                           h->in->name, h->n, h->recno, h->opdesc,
                           h->S - h->used, (unsigned long long)h->tail0,
                           (unsigned long long)t);
        }
    }
    size_t dmg = vf_exact_check(h->mem);
    if (dmg) {
        snprintf(site, sizeof(site), "%s.guard", op);
        return vf_fail(h->rep, site, "canary",
                       "%s n=%u record %u %s: guard around the %zu-byte "
                       "storage damaged (offset code %zu)",
                       h->in->name, h->n, h->recno, h->opdesc, h->bytes, dmg);
    }
    return 0;
}

/* fill: 0 zero, 1 ones, 2 pseudo-random(seed), 3 0xaa, 4 0x55 */
static int hist_open(hist *h, vf_report *rep, const c09_inst *in, unsigned n,
                     unsigned fill, uint64_t seed) {
    h->rep = rep;
    h->in = in;
    h->B = in->bits;
    h->sb = in->slotBytes;
    h->S = in->slotBytes * 8;
    h->mask = in->bits >= 32 ? 0xffffffffu : (((uint32_t)1 << in->bits) - 1);
    h->n = n;
    uint64_t totalBits = (uint64_t)n * h->B;
    h->slots = (size_t)((totalBits + h->S - 1) / h->S);
    h->bytes = h->slots * h->sb;
    h->used = (unsigned)(totalBits - (uint64_t)(h->slots - 1) * h->S);
    h->hasTail = h->used < h->S;
    h->recno = 0;
    snprintf(h->opdesc, sizeof(h->opdesc), "init");
    memset(h->k, 0, sizeof(h->k));
    h->mem = (uint8_t *)vf_exact_alloc(h->bytes);
    switch (fill) {
    case 0:
        memset(h->mem, 0x00, h->bytes);
        break;
    case 1:
        memset(h->mem, 0xff, h->bytes);
        break;
    case 2: {
        uint64_t s = seed | 1;
        for (size_t i = 0; i < h->bytes; i++) {
            h->mem[i] = (uint8_t)(vf_xs(&s) >> 24);
        }
        break;
    }
    case 3:
        memset(h->mem, 0xaa, h->bytes);
        break;
    default:
        memset(h->mem, 0x55, h->bytes);
        break;
    }
    h->tail0 = tail_bits(h);
    /* the reference starts from what the storage holds; an element is B bits
     * wide, so a read can never exceed the mask */
    for (unsigned i = 0; i < n; i++) {
        uint32_t g = in->get(h->mem, i);
        if (g > h->mask) {
            return vf_fail(rep, "init.get", "range",
                           "%s n=%u fill=%u: get(%u) returned 0x%x, which does "
                           "not fit in %u bits",
                           in->name, n, fill, i, g, h->B);
        }
        h->ref[i] = g;
    }
    return 0;
}

static void hist_close(hist *h) {
    vf_exact_free(h->mem);
    h->mem = NULL;
}

#if C09_ASAN
/* copy of the storage placed so that the element's first slot starts on an
 * 8-byte shadow granule; every byte outside [lo, hi) is poisoned */
typedef struct iso {
    uint8_t *scr, *base;
    size_t total;
} iso;

static void iso_open(const hist *h, unsigned i, iso *s) {
    uint64_t first = (uint64_t)i * h->B;
    size_t lo = (size_t)(first / h->S) * h->sb;
    size_t hi = (size_t)((first + h->B - 1) / h->S + 1) * h->sb;
    size_t pad = (8 - (lo & 7)) & 7;
    s->total = ((pad + h->bytes + 7) & ~(size_t)7) + 8;
    s->scr = (uint8_t *)malloc(s->total);
    if (!s->scr) {
        abort();
    }
    s->base = s->scr + pad;
    memset(s->scr, 0xa5, s->total);
    memcpy(s->base, h->mem, h->bytes);
    if (pad + lo) {
        __asan_poison_memory_region(s->scr, pad + lo);
    }
    __asan_poison_memory_region(s->base + hi, s->total - pad - hi);
}

static void iso_unpoison(iso *s) {
    __asan_unpoison_memory_region(s->scr, s->total);
}

static void iso_close(iso *s) {
    free(s->scr);
    s->scr = NULL;
}
#endif

static unsigned pick_index(const hist *h, uint16_t idx) {
    if (((idx >> 9) & 7) == 7) {
        return h->n - 1;
    }
    return (unsigned)(idx & 0x1ff) % h->n;
}

static uint32_t dec_value(const hist *h, uint32_t w, uint32_t cur) {
    uint32_t m = h->mask;
    uint32_t x = w >> 3;
    switch (w & 7) {
    case 0:
        return (x | (x << 29)) & m;
    case 1:
        return m;
    case 2:
        return (uint32_t)1 << (x % h->B);
    case 3:
        return ((x & 1) ? 0x55555555u : 0xaaaaaaaau) & m;
    case 4:
        return m ^ ((uint32_t)1 << (x % h->B));
    case 5:
        return (x & 0xf) & m;
    case 6:
        return m - ((x & 0xf) & m);
    default:
        return cur ^ ((uint32_t)1 << (x % h->B));
    }
}

static uint32_t dec_sorted_value(const hist *h, uint32_t w, unsigned L) {
    uint32_t m = h->mask;
    uint32_t x = w >> 3;
    uint32_t e = L ? h->ref[(x >> 4) % L] : 0;
    switch (w & 7) {
    case 0:
        return (x | (x << 29)) & m;
    case 1:
    case 6:
        return e;
    case 2:
        return e < m ? e + 1 : e;
    case 3:
        return e ? e - 1 : 0;
    case 4:
        return m;
    case 5:
        return (x & 0xf) & m;
    default:
        return m - ((x & 0xf) & m);
    }
}

static unsigned lower_bound(const uint32_t *a, unsigned len, uint32_t v) {
    unsigned p = 0;
    while (p < len && a[p] < v) {
        p++;
    }
    return p;
}

static void ref_insert(hist *h, unsigned len, unsigned off, uint32_t v) {
    for (unsigned j = len; j > off; j--) {
        h->ref[j] = h->ref[j - 1];
    }
    h->ref[off] = v;
}

static void ref_delete(hist *h, unsigned len, unsigned off) {
    for (unsigned j = off; j + 1 < len; j++) {
        h->ref[j] = h->ref[j + 1];
    }
}

static int cmp_u32(const void *a, const void *b) {
    uint32_t x = *(const uint32_t *)a, y = *(const uint32_t *)b;
    return x < y ? -1 : x > y;
}

/* single-element operations shared by both modes -------------------------- */
static int do_set(hist *h, unsigned i, uint32_t v) {
#if C09_ASAN
    iso s;
    iso_open(h, i, &s); /* copy of the state before the operation */
#endif
    h->in->set(h->mem, i, v);
    h->ref[i] = v;
#if C09_ASAN
    h->in->set(s.base, i, v);
    iso_unpoison(&s);
    h->k[K_ISO]++;
    int same = memcmp(s.base, h->mem, h->bytes) == 0;
    iso_close(&s);
    if (!same) {
        return vf_fail(h->rep, "set.iso", "value",
                       "%s n=%u record %u %s: the same set on a copy of the "
                       "storage produced different bytes",
                       h->in->name, h->n, h->recno, h->opdesc);
    }
#endif
    return check_state(h, "set", (int)i);
}

static int do_get(hist *h, unsigned i) {
    uint32_t g = h->in->get(h->mem, i);
    if (g != h->ref[i]) {
        return vf_fail(h->rep, "get.result", "value",
                       "%s n=%u record %u %s: reads 0x%x, reference 0x%x",
                       h->in->name, h->n, h->recno, h->opdesc, g, h->ref[i]);
    }
#if C09_ASAN
    iso s;
    iso_open(h, i, &s);
    uint32_t gi = h->in->get(s.base, i);
    iso_unpoison(&s);
    iso_close(&s);
    h->k[K_ISO]++;
    if (gi != h->ref[i]) {
        return vf_fail(h->rep, "get.iso", "value",
                       "%s n=%u record %u %s: reads 0x%x from the copy, "
                       "reference 0x%x",
                       h->in->name, h->n, h->recno, h->opdesc, gi, h->ref[i]);
    }
#endif
    return check_state(h, "get", -1);
}

static void note_elem(hist *h, unsigned i, int *nontrivial) {
    if (straddles(h, i)) {
        h->k[K_STRADDLE]++;
        *nontrivial = 1;
    }
    if (i == h->n - 1) {
        h->k[K_LAST_ELEMENT]++;
    }
}

#define OPDESC(h, ...) snprintf((h)->opdesc, sizeof((h)->opdesc), __VA_ARGS__)

void vf_run(vf_rd *r, vf_report *rep) {
    static hist H; /* 1.2 KiB reference; keep it off the stack */
    hist *h = &H;
    unsigned cfg = vf_u8(r) % c09_ninst;
    uint16_t n16 = vf_u16(r);
    const c09_inst *in = c09_get(cfg);

    unsigned nraw = n16 & 0x1ff;
    unsigned n;
    switch ((n16 >> 9) & 3) {
    case 0:
    case 1:
        n = 1 + nraw % 24;
        break;
    case 2:
        n = 1 + nraw % 80;
        break;
    default:
        n = 1 + nraw % MAXN;
        break;
    }
    unsigned fill = (n16 >> 11) & 3;
    unsigned aux = (n16 >> 13) & 3;
    int sorted = (n16 >> 15) & 1;
    if (fill == 3 && !sorted && (aux & 1)) {
        fill = 4;
    }
    uint64_t seed = vf_mix(vf_mix(0xc09, cfg), n16);
    uint64_t hh = seed;
    int nontrivial = 0;
    unsigned L = 0; /* live length (sorted mode) */

    if (sorted) {
        switch (aux) {
        case 0:
            L = n;
            break;
        case 1:
            L = n - 1;
            break;
        case 2:
            L = n / 2;
            break;
        default:
            L = 0;
            break;
        }
    }
    vf_desc(rep, "inst=%s n=%u mode=%s fill=%u", in->name, n,
            sorted ? "sorted" : "positional", fill);
    if (sorted) {
        vf_desc(rep, " L0=%u", L);
    }
    vf_desc(rep, " :");

    vf_class(in->name);
    if (hist_open(h, rep, in, n, fill, seed)) {
        goto done;
    }
    h->k[sorted ? K_SORTED : K_POS]++;

    if (sorted) {
        /* initial sorted content: L values with many duplicates, placed low,
         * high or spread over the value range */
        uint32_t init[MAXN];
        uint64_t s = seed | 1;
        uint64_t R = (uint64_t)h->mask + 1;
        if (R > (uint64_t)L + 3) {
            R = (uint64_t)L + 3;
        }
        unsigned region = (unsigned)(vf_xs(&s) % 3);
        for (unsigned i = 0; i < L; i++) {
            uint32_t rk = (uint32_t)(vf_xs(&s) % R);
            uint32_t v;
            if (region == 0) {
                v = rk;
            } else if (region == 1) {
                v = h->mask - (uint32_t)(R - 1) + rk;
            } else {
                v = R > 1 ? rk * (h->mask / (uint32_t)(R - 1)) : 0;
            }
            init[i] = v;
        }
        qsort(init, L, sizeof(init[0]), cmp_u32);
        for (unsigned i = 0; i < L; i++) {
            in->set(h->mem, i, init[i]);
            h->ref[i] = init[i];
        }
        OPDESC(h, "init(sorted prefix of %u)", L);
        if (check_state(h, "init", -1)) {
            goto done;
        }
    }
    while (vf_left(r) >= 7) {
        uint8_t opb = vf_u8(r);
        uint16_t idx = vf_u16(r);
        uint32_t w = vf_u32(r);
        unsigned op = opb % 6;
        unsigned idx9 = idx & 0x1ff;
        int bad = 0;
        h->recno++;

        if (!sorted) {
            switch (op) {
            case 0: { /* set */
                unsigned i = pick_index(h, idx);
                uint32_t v = dec_value(h, w, h->ref[i]);
                OPDESC(h, "set(%u,0x%x)", i, v);
                h->k[K_SET]++;
                note_elem(h, i, &nontrivial);
                hh = vf_mix(vf_mix(vf_mix(hh, 0), i), v);
                bad = do_set(h, i, v);
                break;
            }
            case 1: { /* get */
                unsigned i = pick_index(h, idx);
                OPDESC(h, "get(%u)", i);
                h->k[K_GET]++;
                note_elem(h, i, &nontrivial);
                hh = vf_mix(vf_mix(hh, 1), i);
                bad = do_get(h, i);
                break;
            }
            case 2: { /* incr: d >= 0, result stays in range */
                unsigned i = pick_index(h, idx);
                uint32_t cur = h->ref[i];
                uint64_t room = (uint64_t)h->mask - cur;
                uint64_t d;
                switch (w & 3) {
                case 0:
                    d = (uint64_t)(w >> 2) % (room + 1);
                    break;
                case 1:
                    d = room;
                    break;
                case 2:
                    d = room ? 1 : 0;
                    break;
                default:
                    d = (uint64_t)((w >> 2) & 0xf) % (room + 1);
                    break;
                }
                OPDESC(h, "incr(%u,+%llu) from 0x%x", i, (unsigned long long)d,
                       cur);
                h->k[K_INCR]++;
                if (d && d == room) {
                    h->k[K_INCR_TO_MAX]++;
                }
                note_elem(h, i, &nontrivial);
                hh = vf_mix(vf_mix(vf_mix(hh, 2), i), d);
                in->incr(h->mem, i, (int64_t)d);
                h->ref[i] = (uint32_t)(cur + d);
                bad = check_state(h, "incr", (int)i);
                break;
            }
            case 3: { /* half */
                unsigned i = pick_index(h, idx);
                OPDESC(h, "half(%u) from 0x%x", i, h->ref[i]);
                h->k[K_HALF]++;
                note_elem(h, i, &nontrivial);
                hh = vf_mix(vf_mix(hh, 3), i);
                in->half(h->mem, i);
                h->ref[i] /= 2;
                bad = check_state(h, "half", (int)i);
                break;
            }
            case 4: { /* insert(len, off, v): writes element [len], len < n */
                unsigned cap1 = n - 1;
                unsigned sel = (idx >> 9) & 3;
                unsigned lenx = idx >> 11;
                unsigned len;
                if (sel < 2) {
                    len = cap1;
                } else if (sel == 2) {
                    len = cap1 - lenx % (cap1 + 1);
                } else {
                    len = lenx % (cap1 + 1);
                }
                unsigned off = idx9 % (len + 1);
                uint32_t v = dec_value(h, w, h->ref[off]);
                OPDESC(h, "insert(len=%u,%u,0x%x)", len, off, v);
                h->k[K_INSERT]++;
                if (len == cap1) {
                    h->k[K_INSERT_FULL]++;
                }
                if (len > off) {
                    h->k[K_SHIFT_POS]++;
                    nontrivial = 1;
                }
                hh = vf_mix(vf_mix(vf_mix(vf_mix(hh, 4), len), off), v);
                in->insert(h->mem, len, off, v);
                ref_insert(h, len, off, v);
                bad = check_state(h, "insert", -1);
                break;
            }
            default: { /* delete(len, off): 1 <= len <= n, off < len */
                unsigned sel = w & 3;
                unsigned x = (w >> 2) & 0xffff;
                unsigned len;
                if (sel < 2) {
                    len = n;
                } else if (sel == 2) {
                    len = n - x % n;
                } else {
                    len = 1 + x % n;
                }
                unsigned off = idx9 % len;
                OPDESC(h, "delete(len=%u,%u)", len, off);
                h->k[K_DELETE]++;
                if (off + 1 < len) {
                    h->k[K_SHIFT_POS]++;
                    nontrivial = 1;
                }
                hh = vf_mix(vf_mix(vf_mix(hh, 5), len), off);
                in->del(h->mem, len, off);
                ref_delete(h, len, off);
                bad = check_state(h, "delete", -1);
                break;
            }
            }
        } else {
            switch (op) {
            case 0: { /* insertSorted */
                uint32_t v = dec_sorted_value(h, w, L);
                unsigned len = L < n ? L : n - 1;
                unsigned pos = lower_bound(h->ref, len, v);
                OPDESC(h, "insertSorted(len=%u,0x%x)", len, v);
                h->k[K_INSERT_SORTED]++;
                if (len == n - 1) {
                    h->k[K_INSERT_FULL]++;
                }
                if (len > pos) {
                    h->k[K_SHIFT_SORTED]++;
                    nontrivial = 1;
                }
                hh = vf_mix(vf_mix(vf_mix(hh, 6), len), v);
                in->insertSorted(h->mem, len, v);
                ref_insert(h, len, pos, v);
                L = len + 1;
                bad = check_state(h, "insertSorted", -1);
                break;
            }
            case 1: { /* member: first equal element or -1 */
                uint32_t v = dec_sorted_value(h, w, L);
                unsigned pos = lower_bound(h->ref, L, v);
                int64_t want = (pos < L && h->ref[pos] == v) ? (int64_t)pos : -1;
                OPDESC(h, "member(len=%u,0x%x)", L, v);
                h->k[want >= 0 ? K_MEMBER_HIT : K_MEMBER_MISS]++;
                if (!L) {
                    h->k[K_SORTED_EMPTY]++;
                }
                hh = vf_mix(vf_mix(vf_mix(hh, 7), L), v);
                int64_t got = in->member(h->mem, L, v);
                if (got != want) {
                    bad = vf_fail(rep, "member.result", "value",
                                  "%s n=%u record %u %s: returned %lld, "
                                  "reference %lld",
                                  in->name, n, h->recno, h->opdesc,
                                  (long long)got, (long long)want);
                    break;
                }
                bad = check_state(h, "member", -1);
                break;
            }
            case 2: { /* deleteMember */
                uint32_t v = dec_sorted_value(h, w, L);
                unsigned pos = lower_bound(h->ref, L, v);
                int want = pos < L && h->ref[pos] == v;
                OPDESC(h, "deleteMember(len=%u,0x%x)", L, v);
                h->k[want ? K_DELMEMBER_HIT : K_DELMEMBER_MISS]++;
                if (want && pos + 1 < L) {
                    h->k[K_SHIFT_SORTED]++;
                    nontrivial = 1;
                }
                hh = vf_mix(vf_mix(vf_mix(hh, 8), L), v);
                int got = in->deleteMember(h->mem, L, v);
                if (got != want) {
                    bad = vf_fail(rep, "deleteMember.result", "value",
                                  "%s n=%u record %u %s: returned %d, "
                                  "reference %d",
                                  in->name, n, h->recno, h->opdesc, got, want);
                    break;
                }
                if (want) {
                    ref_delete(h, L, pos);
                    L--;
                }
                bad = check_state(h, "deleteMember", -1);
                break;
            }
            case 3: { /* binarySearch: lower bound */
                uint32_t v = dec_sorted_value(h, w, L);
                unsigned want = lower_bound(h->ref, L, v);
                OPDESC(h, "binarySearch(len=%u,0x%x)", L, v);
                h->k[K_BSEARCH]++;
                if (want == L) {
                    h->k[K_BSEARCH_END]++;
                }
                hh = vf_mix(vf_mix(vf_mix(hh, 9), L), v);
                uint32_t got = in->binarySearch(h->mem, L, v);
                if (got != want) {
                    bad = vf_fail(rep, "binarySearch.result", "value",
                                  "%s n=%u record %u %s: returned %u, "
                                  "reference lower bound %u",
                                  in->name, n, h->recno, h->opdesc, got, want);
                    break;
                }
                bad = check_state(h, "binarySearch", -1);
                break;
            }
            case 4: { /* positional delete inside the live prefix */
                if (L == 0) {
                    OPDESC(h, "delete(skipped: empty)");
                    h->k[K_SORTED_EMPTY]++;
                    break;
                }
                unsigned off = ((idx >> 9) & 3) == 3 ? 0 : idx9 % L;
                OPDESC(h, "delete(len=%u,%u)", L, off);
                h->k[K_DELETE]++;
                if (off + 1 < L) {
                    h->k[K_SHIFT_SORTED]++;
                    nontrivial = 1;
                }
                hh = vf_mix(vf_mix(vf_mix(hh, 10), L), off);
                in->del(h->mem, L, off);
                ref_delete(h, L, off);
                L--;
                bad = check_state(h, "delete", -1);
                break;
            }
            default: { /* get */
                unsigned i = pick_index(h, idx);
                OPDESC(h, "get(%u)", i);
                h->k[K_GET]++;
                note_elem(h, i, &nontrivial);
                hh = vf_mix(vf_mix(hh, 1), i);
                bad = do_get(h, i);
                break;
            }
            }
        }
        if (rep->desclen < 540) {
            vf_desc(rep, " %s", h->opdesc);
        } else if (rep->desclen < 560) {
            vf_desc(rep, " ...");
            rep->desclen = 560;
        }
        if (bad) {
            break;
        }
    }
    if (nontrivial && !rep->violated) {
        vf_nontrivial(hh);
    }
done:
    for (unsigned i = 0; i < K_N; i++) {
        if (h->k[i]) {
            vf_class_n(kname[i], h->k[i]);
        }
    }
    hist_close(h);
}

/* deterministic sweep: every instantiation, every start-bit phase ---------- */
static int sweep_setget(vf_report *rep, const c09_inst *in, unsigned n,
                        unsigned fill) {
    static hist H;
    hist *h = &H;
    int bad = hist_open(h, rep, in, n, fill, 0);
    if (!bad) {
        uint32_t expect = fill ? h->mask : 0;
        for (unsigned i = 0; i < n && !bad; i++) {
            if (h->ref[i] != expect) {
                bad = vf_fail(rep, "sweep.init", "value",
                              "%s n=%u: storage filled with 0x%02x, get(%u) "
                              "returned 0x%x",
                              in->name, n, fill ? 0xff : 0, i, h->ref[i]);
            }
        }
    }
    const uint32_t m = h->mask;
    const uint32_t vals[6] = {m,
                              0,
                              0x55555555u & m,
                              0xaaaaaaaau & m,
                              1u & m,
                              (uint32_t)1 << (in->bits - 1)};
    for (unsigned i = 0; i < n && !bad; i++) {
        for (unsigned k = 0; k < 6 && !bad; k++) {
            h->recno++;
            OPDESC(h, "set(%u,0x%x)", i, vals[k]);
            bad = do_set(h, i, vals[k]);
        }
        if (bad) {
            break;
        }
        /* leave 1<<(B-1): halve it, then increment back up to the mask */
        uint32_t cur = h->ref[i];
        h->recno++;
        OPDESC(h, "half(%u) from 0x%x", i, cur);
        in->half(h->mem, i);
        h->ref[i] = cur / 2;
        bad = check_state(h, "half", (int)i);
        if (bad) {
            break;
        }
        cur = h->ref[i];
        h->recno++;
        OPDESC(h, "incr(%u,+%u) from 0x%x", i, m - cur, cur);
        in->incr(h->mem, i, (int64_t)(m - cur));
        h->ref[i] = m;
        bad = check_state(h, "incr", (int)i);
        if (bad) {
            break;
        }
        h->recno++;
        OPDESC(h, "get(%u)", i);
        bad = do_get(h, i);
    }
    hist_close(h);
    return bad;
}

static int sweep_sorted(vf_report *rep, const c09_inst *in, unsigned n) {
    static hist H;
    hist *h = &H;
    int bad = hist_open(h, rep, in, n, 1, 0);
    unsigned L = 0;
    /* descending-ish insertion order so that most inserts shift */
    for (unsigned k = 0; k < n && !bad; k++) {
        uint32_t v = (uint32_t)(((uint64_t)(n - 1 - k) * 5 + (k & 1) * 3) & h->mask);
        unsigned pos = lower_bound(h->ref, L, v);
        h->recno++;
        OPDESC(h, "insertSorted(len=%u,0x%x)", L, v);
        in->insertSorted(h->mem, L, v);
        ref_insert(h, L, pos, v);
        L++;
        bad = check_state(h, "insertSorted", -1);
    }
    for (unsigned k = 0; k < n && !bad; k++) {
        uint32_t v = h->ref[k];
        unsigned pos = lower_bound(h->ref, L, v);
        h->recno++;
        OPDESC(h, "member(len=%u,0x%x)", L, v);
        int64_t got = in->member(h->mem, L, v);
        uint32_t lb = in->binarySearch(h->mem, L, v);
        if (got != (int64_t)pos || lb != pos) {
            bad = vf_fail(rep, "member.result", "value",
                          "%s n=%u sweep %s: member returned %lld, "
                          "binarySearch %u, reference %u",
                          in->name, n, h->opdesc, (long long)got, lb, pos);
        }
    }
    for (unsigned k = 0; L > 0 && !bad; k++) {
        uint32_t v = h->ref[(k * 7) % L];
        unsigned pos = lower_bound(h->ref, L, v);
        h->recno++;
        OPDESC(h, "deleteMember(len=%u,0x%x)", L, v);
        int got = in->deleteMember(h->mem, L, v);
        if (!got) {
            bad = vf_fail(rep, "deleteMember.result", "value",
                          "%s n=%u sweep %s: returned 0 for a present value",
                          in->name, n, h->opdesc);
            break;
        }
        ref_delete(h, L, pos);
        L--;
        bad = check_state(h, "deleteMember", -1);
    }
    hist_close(h);
    return bad;
}

void vf_sweep(vf_report *rep) {
    for (unsigned c = 0; c < c09_ninst; c++) {
        const c09_inst *in = c09_get(c);
        unsigned S = in->slotBytes * 8;
        unsigned P = S / gcd_u(in->bits, S); /* elements per phase period */
        const unsigned ns[4] = {1, 2, P, P + 1};
        for (unsigned k = 0; k < 4; k++) {
            for (unsigned fill = 0; fill < 2; fill++) {
                if (sweep_setget(rep, in, ns[k], fill)) {
                    return;
                }
            }
        }
        if (sweep_sorted(rep, in, P + 2)) {
            return;
        }
    }
}
