/* C09 - packed bit arrays: element isolation and sorted-array semantics.
 *
 * case layout:  config:1  n:2  x:1  [large:2]  then 7-byte records
 *                                               op:1 idx:2 value:4
 *
 *   config   index into the generated instantiation table (mod count)
 *   n        bits 0-8 raw length, 9-10 length class (1..24 / 1..24 / 1..80 /
 *            1..300), 11-12 background fill of the storage (0x00, 0xff,
 *            pseudo-random, 0xaa/0x55), 13-14 aux (sorted mode: initial live
 *            length n, n-1, n/2, 0), 15 mode (0 positional, 1 sorted)
 *   x        history class: a value in [0x41, 0x41+k) selects a LARGE history
 *            (k = 3 on the quick tier, ~1 % of the cases; 8 on the thorough
 *            tier, ~2.7 %); every other value (0 included) the small one above
 *   large    only present in a large history: bits 0-2 length class, 3-15 raw;
 *            the array has up to nmax elements, nmax = PACK_MAX_ELEMENTS of the
 *            instantiation or 70000 when it has no limit (or a limit above
 *            that): anywhere in 301..nmax / nmax / nmax-0..63 / just past the
 *            element whose bit position crosses 2^16 / thousands / between
 *            that element and nmax / just past 65536 elements.  In a large
 *            history aux also selects how the array is initialised (positional:
 *            as found / every element written ascending / descending /
 *            strided) and idx selects positions concentrated at the last
 *            elements, around i*BITS = 2^16..2^21, in the upper half and in
 *            the first 64 elements.
 *   records  positional mode: set get incr half insert delete   (op % 6)
 *            sorted mode:     insertSorted member deleteMember binarySearch
 *                             delete get                         (op % 6)
 *
 * Bit position 2^32 is not reached by generated histories: it needs >= 512 MiB
 * of storage per case (2^27 32-bit elements); the largest generated array has
 * 70000 elements (280 KB).  Only the deterministic sweep goes there, with a
 * fixed script on a sparse MAP_NORESERVE mapping of which just the first
 * 128 KiB and the page around bit position 2^32 are ever touched.
 *
 * The storage holds exactly the slots n elements need (vf_exact_alloc: ASan
 * redzone, or canaries in the gcc configurations).  The caller tracks the
 * length, as the tree's own users do: Insert/InsertSorted are called with a
 * length argument < n (they write element [len]), Delete/DeleteMember with a
 * length argument >= 1 / >= 0 and <= n.  Elements at and beyond the live
 * length are ordinary storage and are tracked by the reference as well.
 *
 * oracle: reference uint32_t[n]; after every record every one of the n
 * elements reads back as the reference, the unused tail bits of the last slot
 * and the guards are unchanged; query results equal the reference's
 * (first equal index or -1; lower bound).  Under ASan every set/get is
 * additionally executed on a copy of the storage in which every byte outside
 * the slots the element occupies is poisoned.
 *
 * large histories (aliasing of a wrapped bit position shows up far away from
 * the written index): after every record (1) every storage byte outside the
 * slots of the elements the operation may write equals a shadow copy taken
 * before it, (2) the elements the operation may write +-8, the first and last
 * 64 elements and the elements around every power-of-two bit position read
 * back as the reference - all n elements when n <= 12000 (quick) / 24000
 * (thorough) - and (3) at the end of the history all n elements are compared. */
#include "vf.h"

#include <sys/mman.h>

#include "c09_packed.h"

const char *vf_prop_id = "C09";
const size_t vf_case_maxlen = 200;

#define SMALLN 300        /* small histories: whole array compared every time */
#define UNLIMITED_N 70000 /* large histories of instantiations without limit  */
#define LARGE_X0 0x41

#if defined(__has_feature)
#if __has_feature(address_sanitizer)
#define C09_ASAN 1
#endif
#endif
#ifdef __SANITIZE_ADDRESS__
#undef C09_ASAN
#define C09_ASAN 1
#endif
#ifndef C09_ASAN
#define C09_ASAN 0
#endif
#if C09_ASAN
void __asan_poison_memory_region(void const volatile *addr, size_t size);
void __asan_unpoison_memory_region(void const volatile *addr, size_t size);
#endif

/* per-case class counters, flushed once per case (vf_class is a linear scan) */
enum {
    K_POS,
    K_SORTED,
    K_SET,
    K_GET,
    K_INCR,
    K_HALF,
    K_INSERT,
    K_DELETE,
    K_INSERT_SORTED,
    K_MEMBER_HIT,
    K_MEMBER_MISS,
    K_DELMEMBER_HIT,
    K_DELMEMBER_MISS,
    K_BSEARCH,
    K_BSEARCH_END,
    K_STRADDLE,
    K_SHIFT_SORTED,
    K_SHIFT_POS,
    K_INSERT_FULL,
    K_LAST_ELEMENT,
    K_ISO,
    K_SORTED_EMPTY,
    K_INCR_TO_MAX,
    K_LARGE,
    K_LARGE_SORTED,
    K_LARGE_POS,
    K_LARGE_NMAX,
    K_LARGE_SETALL,
    K_LARGE_LAST,
    K_LARGE_LOW,
    K_LARGE_FULLSHIFT,
    K_BITPOS16,
    K_CROSS16,
    K_CROSS17UP,
    K_LEN_GT16,
    K_N
};
static const char *const kname[K_N] = {
    "mode.positional", "mode.sorted",      "op.set",
    "op.get",          "op.incr",          "op.half",
    "op.insert",       "op.delete",        "op.insertSorted",
    "member.hit",      "member.miss",      "deleteMember.hit",
    "deleteMember.miss", "op.binarySearch", "binarySearch.end",
    "straddle",        "shift.sorted",     "shift.positional",
    "insert.at-capacity", "last-element",  "iso.poisoned",
    "sorted.empty",    "incr.to-max",
    "large",           "large.sorted",     "large.positional",
    "large.n-at-max",  "large.init-setall", "large.last-element",
    "large.first-64",  "large.shift-over-1000",
    "bitpos.ge-2^16",  "bitpos.crossing-2^16", "bitpos.crossing-2^17..21",
    "len.gt-65535",
};

typedef struct hist {
    vf_report *rep;
    const c09_inst *in;
    unsigned B;  /* bits per element */
    unsigned S;  /* bits per slot    */
    unsigned sb; /* bytes per slot   */
    uint32_t mask;
    unsigned n; /* capacity == number of elements compared */
    size_t slots, bytes;
    uint8_t *mem;
    uint32_t *ref;   /* n entries */
    int large;       /* large history: shadow + watched regions */
    uint8_t *shadow; /* large: copy of the storage before the operation */
    unsigned fullBound; /* large: n up to which every element is compared */
    unsigned c16;    /* first element whose first bit is at or beyond 2^16 */
    unsigned watch[512];
    unsigned nwatch;
    int hasTail;
    unsigned used; /* bits of the last slot that belong to elements */
    uint64_t tail0;
    unsigned recno;
    char opdesc[72];
    uint64_t k[K_N];
} hist;

static unsigned gcd_u(unsigned a, unsigned b) {
    while (b) {
        unsigned t = a % b;
        a = b;
        b = t;
    }
    return a;
}

static uint64_t slot_read(const hist *h, size_t slot) {
    const uint8_t *p = h->mem + slot * h->sb;
    switch (h->sb) {
    case 1:
        return *p;
    case 2: {
        uint16_t t;
        memcpy(&t, p, 2);
        return t;
    }
    case 4: {
        uint32_t t;
        memcpy(&t, p, 4);
        return t;
    }
    default: {
        uint64_t t;
        memcpy(&t, p, 8);
        return t;
    }
    }
}

static uint64_t tail_bits(const hist *h) {
    return h->hasTail ? slot_read(h, h->slots - 1) >> h->used : 0;
}

static int straddles(const hist *h, unsigned i) {
    uint64_t first = (uint64_t)i * h->B;
    return first / h->S != (first + h->B - 1) / h->S;
}

static size_t first_byte_of(const hist *h, unsigned i) {
    return (size_t)(((uint64_t)i * h->B) / h->S) * h->sb;
}
static size_t end_byte_of(const hist *h, unsigned i) {
    return (size_t)(((uint64_t)i * h->B + h->B - 1) / h->S + 1) * h->sb;
}

static int cmp_one(hist *h, const char *op, int target, unsigned i) {
    char site[64];
    uint32_t g = h->in->get(h->mem, i);
    if (g == h->ref[i]) {
        return 0;
    }
    if (target >= 0 && (unsigned)target != i) {
        snprintf(site, sizeof(site), "%s.neighbour", op);
        return vf_fail(h->rep, site, "isolation",
                       "%s n=%u record %u %s: element %u (which the "
                       "operation does not address) now reads 0x%x, "
                       "was 0x%x",
                       h->in->name, h->n, h->recno, h->opdesc, i, g,
                       h->ref[i]);
    }
    snprintf(site, sizeof(site), "%s.%s", op, target >= 0 ? "self" : "array");
    return vf_fail(h->rep, site, "value",
                   "%s n=%u record %u %s: element %u reads 0x%x, "
                   "reference 0x%x",
                   h->in->name, h->n, h->recno, h->opdesc, i, g, h->ref[i]);
}

static int check_tail_guard(hist *h, const char *op) {
    char site[64];
    if (h->hasTail) {
        uint64_t t = tail_bits(h);
        if (t != h->tail0) {
            snprintf(site, sizeof(site), "%s.tailbits", op);
            return vf_fail(h->rep, site, "canary",
                           "%s n=%u record %u %s: the %u unused high bits of "
                           "the last slot changed 0x%llx -> 0x%llx",
                           h->in->name, h->n, h->recno, h->opdesc,
                           h->S - h->used, (unsigned long long)h->tail0,
                           (unsigned long long)t);
        }
    }
    size_t dmg = vf_exact_check(h->mem);
    if (dmg) {
        snprintf(site, sizeof(site), "%s.guard", op);
        return vf_fail(h->rep, site, "canary",
                       "%s n=%u record %u %s: guard around the %zu-byte "
                       "storage damaged (offset code %zu)",
                       h->in->name, h->n, h->recno, h->opdesc, h->bytes, dmg);
    }
    return 0;
}

/* every element, the tail bits and the guards */
static int check_full(hist *h, const char *op, int target) {
    for (unsigned i = 0; i < h->n; i++) {
        if (cmp_one(h, op, target, i)) {
            return 1;
        }
    }
    return check_tail_guard(h, op);
}

/* large history: [a, b] are the elements the operation may write (a > b:
 * none).  Bytes outside their slots must equal the shadow copy. */
static int check_large(hist *h, const char *op, int target, unsigned a,
                       unsigned b) {
    size_t lo = 0, hi = 0;
    if (a <= b) {
        lo = first_byte_of(h, a);
        hi = end_byte_of(h, b);
        if (hi > h->bytes) {
            hi = h->bytes; /* cannot happen for a, b < n */
        }
    }
    if (memcmp(h->mem, h->shadow, lo) != 0 ||
        memcmp(h->mem + hi, h->shadow + hi, h->bytes - hi) != 0) {
        size_t d = 0;
        while (d < h->bytes &&
               ((d >= lo && d < hi) || h->mem[d] == h->shadow[d])) {
            d++;
        }
        uint64_t e = (uint64_t)d * 8 / h->B;
        char site[64];
        snprintf(site, sizeof(site), "%s.storage", op);
        if (a <= b) {
            return vf_fail(h->rep, site, "isolation",
                           "%s n=%u record %u %s: storage byte %zu (bits of "
                           "element %llu) changed 0x%02x -> 0x%02x; the "
                           "operation may only write elements %u..%u, bytes "
                           "[%zu,%zu)",
                           h->in->name, h->n, h->recno, h->opdesc, d,
                           (unsigned long long)e, h->shadow[d], h->mem[d], a,
                           b, lo, hi);
        }
        return vf_fail(h->rep, site, "isolation",
                       "%s n=%u record %u %s: storage byte %zu (bits of "
                       "element %llu) changed 0x%02x -> 0x%02x during a query",
                       h->in->name, h->n, h->recno, h->opdesc, d,
                       (unsigned long long)e, h->shadow[d], h->mem[d]);
    }
    if (hi > lo) {
        memcpy(h->shadow + lo, h->mem + lo, hi - lo);
    }
    if (h->n <= h->fullBound) {
        return check_full(h, op, target);
    }
    if (a <= b) {
        unsigned from = a > 8 ? a - 8 : 0;
        unsigned to = b + 8 < h->n ? b + 8 : h->n - 1;
        for (unsigned i = from; i <= to; i++) {
            if (cmp_one(h, op, target, i)) {
                return 1;
            }
        }
    }
    for (unsigned k = 0; k < h->nwatch; k++) {
        if (cmp_one(h, op, target, h->watch[k])) {
            return 1;
        }
    }
    return check_tail_guard(h, op);
}

/* compare the array, the tail bits and the guards with the reference.
 * target: index of the element the operation addressed, or -1 when the
 * operation is allowed to move many elements (the reference says which);
 * [a, b]: the elements the operation may write (a > b: none). */
static int check_state(hist *h, const char *op, int target, unsigned a,
                       unsigned b) {
    if (h->large) {
        return check_large(h, op, target, a, b);
    }
    return check_full(h, op, target);
}
#define NOWRITE 1, 0

static void watch_add(hist *h, unsigned from, unsigned to) {
    for (unsigned i = from; i <= to && i < h->n; i++) {
        if (h->nwatch < sizeof(h->watch) / sizeof(h->watch[0])) {
            h->watch[h->nwatch++] = i;
        }
    }
}

static uint32_t setall_value(const hist *h, uint64_t seed, unsigned i) {
    return (uint32_t)(vf_mix(seed, i) >> 17) & h->mask;
}

/* fill: 0 zero, 1 ones, 2 pseudo-random(seed), 3 0xaa, 4 0x55
 * large: keep a shadow copy and watched regions instead of comparing every
 * element after every operation
 * init (large only): 0 reference = what the storage holds; 1/2/3 every
 * element is written (ascending / descending / strided order) with a value
 * derived from (seed, index) and the whole array is compared afterwards */
static int hist_open(hist *h, vf_report *rep, const c09_inst *in, unsigned n,
                     unsigned fill, uint64_t seed, int large, unsigned init) {
    h->rep = rep;
    h->in = in;
    h->B = in->bits;
    h->sb = in->slotBytes;
    h->S = in->slotBytes * 8;
    h->mask = in->bits >= 32 ? 0xffffffffu : (((uint32_t)1 << in->bits) - 1);
    h->n = n;
    uint64_t totalBits = (uint64_t)n * h->B;
    h->slots = (size_t)((totalBits + h->S - 1) / h->S);
    h->bytes = h->slots * h->sb;
    h->used = (unsigned)(totalBits - (uint64_t)(h->slots - 1) * h->S);
    h->hasTail = h->used < h->S;
    h->recno = 0;
    h->large = large;
    h->shadow = NULL;
    h->nwatch = 0;
    h->fullBound = vf_tier() ? 24000 : 12000;
    h->c16 = (65536 + h->B - 1) / h->B;
    snprintf(h->opdesc, sizeof(h->opdesc), "init");
    memset(h->k, 0, sizeof(h->k));
    h->ref = (uint32_t *)malloc((size_t)n * sizeof(h->ref[0]));
    h->mem = (uint8_t *)vf_exact_alloc(h->bytes);
    if (!h->ref) {
        abort();
    }
    switch (fill) {
    case 0:
        memset(h->mem, 0x00, h->bytes);
        break;
    case 1:
        memset(h->mem, 0xff, h->bytes);
        break;
    case 2: {
        uint64_t s = seed | 1;
        for (size_t i = 0; i < h->bytes; i++) {
            h->mem[i] = (uint8_t)(vf_xs(&s) >> 24);
        }
        break;
    }
    case 3:
        memset(h->mem, 0xaa, h->bytes);
        break;
    default:
        memset(h->mem, 0x55, h->bytes);
        break;
    }
    h->tail0 = tail_bits(h);
    if (large) {
        h->shadow = (uint8_t *)malloc(h->bytes);
        if (!h->shadow) {
            abort();
        }
        watch_add(h, 0, 63);
        watch_add(h, n > 64 ? n - 64 : 0, n - 1);
        for (unsigned p = 8; p < 40 && ((uint64_t)1 << p) < totalBits; p++) {
            unsigned e = (unsigned)(((uint64_t)1 << p) / h->B);
            watch_add(h, e > 4 ? e - 4 : 0, e + 4);
        }
    }
    /* the reference starts from what the storage holds; an element is B bits
     * wide, so a read can never exceed the mask */
    for (unsigned i = 0; i < n; i++) {
        uint32_t g = in->get(h->mem, i);
        if (g > h->mask) {
            return vf_fail(rep, "init.get", "range",
                           "%s n=%u fill=%u: get(%u) returned 0x%x, which does "
                           "not fit in %u bits",
                           in->name, n, fill, i, g, h->B);
        }
        h->ref[i] = g;
    }
    if (large && init) {
        /* write every element once; the order decides which neighbours are
         * already populated when an element is written */
        unsigned step = 1;
        if (init == 3) {
            static const unsigned primes[4] = {7919, 104729, 611953, 1299709};
            for (unsigned k = 0; k < 4; k++) {
                if (n % primes[k] != 0) {
                    step = primes[k] % n;
                    break;
                }
            }
            if (step == 0) {
                step = 1;
            }
        }
        unsigned i = init == 2 ? n - 1 : 0;
        for (unsigned c = 0; c < n; c++) {
            uint32_t v = setall_value(h, seed, i);
            in->set(h->mem, i, v);
            h->ref[i] = v;
            if (init == 2) {
                i = i ? i - 1 : n - 1;
            } else {
                i = (unsigned)(((uint64_t)i + step) % n);
            }
        }
        h->k[K_LARGE_SETALL]++;
        snprintf(h->opdesc, sizeof(h->opdesc),
                 "init(set of every element, order %u)", init);
        if (check_full(h, "init", -1)) {
            return 1;
        }
    }
    if (large) {
        memcpy(h->shadow, h->mem, h->bytes);
    }
    return 0;
}

static void hist_close(hist *h) {
    vf_exact_free(h->mem);
    free(h->ref);
    free(h->shadow);
    h->mem = NULL;
    h->ref = NULL;
    h->shadow = NULL;
}

#if C09_ASAN
/* copy of the storage placed so that the element's first slot starts on an
 * 8-byte shadow granule; every byte outside [lo, hi) is poisoned */
typedef struct iso {
    uint8_t *scr, *base;
    size_t total;
} iso;

static void iso_open(const hist *h, unsigned i, iso *s) {
    uint64_t first = (uint64_t)i * h->B;
    size_t lo = (size_t)(first / h->S) * h->sb;
    size_t hi = (size_t)((first + h->B - 1) / h->S + 1) * h->sb;
    size_t pad = (8 - (lo & 7)) & 7;
    s->total = ((pad + h->bytes + 7) & ~(size_t)7) + 8;
    s->scr = (uint8_t *)malloc(s->total);
    if (!s->scr) {
        abort();
    }
    s->base = s->scr + pad;
    memset(s->scr, 0xa5, s->total);
    memcpy(s->base, h->mem, h->bytes);
    if (pad + lo) {
        __asan_poison_memory_region(s->scr, pad + lo);
    }
    __asan_poison_memory_region(s->base + hi, s->total - pad - hi);
}

static void iso_unpoison(iso *s) {
    __asan_unpoison_memory_region(s->scr, s->total);
}

static void iso_close(iso *s) {
    free(s->scr);
    s->scr = NULL;
}
#endif

/* large history: position in [0, range) from 3 selector bits and 13 raw bits;
 * 0 -> element 0 */
static unsigned pick_large(const hist *h, uint16_t idx, unsigned range) {
    unsigned sel = idx >> 13, raw = idx & 0x1fff;
    unsigned r;
    switch (sel) {
    case 0: /* anywhere */
        r = (unsigned)((uint64_t)raw * range / 8192);
        break;
    case 1: /* the very last one */
        r = range - 1;
        break;
    case 2: /* the last 64 */
        r = raw % 64 < range ? range - 1 - raw % 64 : 0;
        break;
    case 3: /* around the element whose bit position crosses 2^16 */
        r = (h->c16 > 8 ? h->c16 - 8 : 0) + raw % 16;
        if (r >= range) {
            r = raw % 16 < range ? range - 1 - raw % 16 : 0;
        }
        break;
    case 4: /* upper half */
        r = range / 2 + raw % (range - range / 2);
        break;
    case 5: { /* around bit position 2^16 .. 2^21 */
        unsigned e = (unsigned)(((uint64_t)1 << (16 + (raw >> 4) % 6)) / h->B);
        r = (e > 8 ? e - 8 : 0) + raw % 16;
        if (r >= range) {
            r = raw % 16 < range ? range - 1 - raw % 16 : 0;
        }
        break;
    }
    case 6: /* the first 64 */
        r = raw % 64;
        break;
    default: /* anywhere beyond bit position 2^16 */
        if (h->c16 < range) {
            r = h->c16 +
                (unsigned)((uint64_t)raw * (range - h->c16) / 8192);
        } else {
            r = raw % 8 < range ? range - 1 - raw % 8 : 0;
        }
        break;
    }
    return r < range ? r : range - 1;
}

/* position in [0, range) for offsets of insert/delete: concentrated near the
 * end (short shifts), with a fixed share of shifts of the whole array */
static unsigned pick_large_off(const hist *h, unsigned idx9, unsigned range) {
    unsigned sel = idx9 >> 6, raw = idx9 & 63;
    unsigned r;
    switch (sel) {
    case 0:
        r = raw < range ? range - 1 - raw : 0;
        break;
    case 1:
        r = range - 1;
        break;
    case 2:
        r = raw;
        break;
    case 3:
        r = (h->c16 > 32 ? h->c16 - 32 : 0) + raw;
        break;
    case 4:
        r = range / 2 + raw;
        break;
    default:
        r = raw * 8 < range ? range - 1 - raw * 8 : 0;
        break;
    }
    return r < range ? r : range - 1;
}

static unsigned pick_index(const hist *h, uint16_t idx) {
    if (h->large) {
        return pick_large(h, idx, h->n);
    }
    if (((idx >> 9) & 7) == 7) {
        return h->n - 1;
    }
    return (unsigned)(idx & 0x1ff) % h->n;
}

static uint32_t dec_value(const hist *h, uint32_t w, uint32_t cur) {
    uint32_t m = h->mask;
    uint32_t x = w >> 3;
    switch (w & 7) {
    case 0:
        return (x | (x << 29)) & m;
    case 1:
        return m;
    case 2:
        return (uint32_t)1 << (x % h->B);
    case 3:
        return ((x & 1) ? 0x55555555u : 0xaaaaaaaau) & m;
    case 4:
        return m ^ ((uint32_t)1 << (x % h->B));
    case 5:
        return (x & 0xf) & m;
    case 6:
        return m - ((x & 0xf) & m);
    default:
        return cur ^ ((uint32_t)1 << (x % h->B));
    }
}

static uint32_t dec_sorted_value(const hist *h, uint32_t w, unsigned L) {
    uint32_t m = h->mask;
    uint32_t x = w >> 3;
    uint32_t e = L ? h->ref[(x >> 4) % L] : 0;
    switch (w & 7) {
    case 0:
        return (x | (x << 29)) & m;
    case 1:
    case 6:
        return e;
    case 2:
        return e < m ? e + 1 : e;
    case 3:
        return e ? e - 1 : 0;
    case 4:
        return m;
    case 5:
        return (x & 0xf) & m;
    default:
        return m - ((x & 0xf) & m);
    }
}

static unsigned lower_bound(const uint32_t *a, unsigned len, uint32_t v) {
    unsigned p = 0;
    while (p < len && a[p] < v) {
        p++;
    }
    return p;
}

static void ref_insert(hist *h, unsigned len, unsigned off, uint32_t v) {
    for (unsigned j = len; j > off; j--) {
        h->ref[j] = h->ref[j - 1];
    }
    h->ref[off] = v;
}

/* called AFTER the library's delete of element `off` from an array of `len`
 * elements.  The array now has len - 1 elements; what the vacated position
 * len - 1 holds is not specified (the header: "move all values above 'offset'
 * down one position"; the pinned code leaves the old last element there,
 * clearing it would be as good), so the reference adopts whatever it reads as.
 * The bits of that position are still covered by the storage oracles (only
 * the slots of elements off..len-1 may change) and element len, which may
 * share a slot with it, is compared as before. */
static void ref_delete(hist *h, unsigned len, unsigned off) {
    for (unsigned j = off; j + 1 < len; j++) {
        h->ref[j] = h->ref[j + 1];
    }
    if (len >= 1 && len - 1 < h->n) {
        h->ref[len - 1] = h->in->get(h->mem, len - 1) & h->mask;
    }
}

static int cmp_u32(const void *a, const void *b) {
    uint32_t x = *(const uint32_t *)a, y = *(const uint32_t *)b;
    return x < y ? -1 : x > y;
}

/* single-element operations shared by both modes -------------------------- */
static int do_set(hist *h, unsigned i, uint32_t v) {
#if C09_ASAN
    iso s;
    iso_open(h, i, &s); /* copy of the state before the operation */
#endif
    h->in->set(h->mem, i, v);
    h->ref[i] = v;
#if C09_ASAN
    h->in->set(s.base, i, v);
    iso_unpoison(&s);
    h->k[K_ISO]++;
    int same = memcmp(s.base, h->mem, h->bytes) == 0;
    iso_close(&s);
    if (!same) {
        return vf_fail(h->rep, "set.iso", "value",
                       "%s n=%u record %u %s: the same set on a copy of the "
                       "storage produced different bytes",
                       h->in->name, h->n, h->recno, h->opdesc);
    }
#endif
    return check_state(h, "set", (int)i, i, i);
}

static int do_get(hist *h, unsigned i) {
    uint32_t g = h->in->get(h->mem, i);
    if (g != h->ref[i]) {
        return vf_fail(h->rep, "get.result", "value",
                       "%s n=%u record %u %s: reads 0x%x, reference 0x%x",
                       h->in->name, h->n, h->recno, h->opdesc, g, h->ref[i]);
    }
#if C09_ASAN
    iso s;
    iso_open(h, i, &s);
    uint32_t gi = h->in->get(s.base, i);
    iso_unpoison(&s);
    iso_close(&s);
    h->k[K_ISO]++;
    if (gi != h->ref[i]) {
        return vf_fail(h->rep, "get.iso", "value",
                       "%s n=%u record %u %s: reads 0x%x from the copy, "
                       "reference 0x%x",
                       h->in->name, h->n, h->recno, h->opdesc, gi, h->ref[i]);
    }
#endif
    return check_state(h, "get", -1, NOWRITE);
}

static void note_elem(hist *h, unsigned i, int *nontrivial) {
    if (straddles(h, i)) {
        h->k[K_STRADDLE]++;
        *nontrivial = 1;
    }
    if (i == h->n - 1) {
        h->k[K_LAST_ELEMENT]++;
        if (h->large) {
            h->k[K_LARGE_LAST]++;
        }
    }
    if (!h->large) {
        return;
    }
    if (i < 64) {
        h->k[K_LARGE_LOW]++;
    }
    if ((uint64_t)i * h->B >= 65536) {
        h->k[K_BITPOS16]++;
    }
    if (i + 8 >= h->c16 && i <= h->c16 + 8) {
        h->k[K_CROSS16]++;
    }
    for (unsigned p = 17; p <= 21; p++) {
        uint64_t e = ((uint64_t)1 << p) / h->B;
        if (i + 8 >= e && i <= e + 8) {
            h->k[K_CROSS17UP]++;
        }
    }
}

/* an operation that reads or writes elements up to index top (shifts, binary
 * searches), called with the length argument len */
static void note_range(hist *h, unsigned len, unsigned top, unsigned shifted) {
    if ((uint64_t)top * h->B >= 65536) {
        h->k[K_BITPOS16]++;
    }
    if (len > 65535) {
        h->k[K_LEN_GT16]++;
    }
    if (shifted > 1000) {
        h->k[K_LARGE_FULLSHIFT]++;
    }
}

#define OPDESC(h, ...) snprintf((h)->opdesc, sizeof((h)->opdesc), __VA_ARGS__)

static unsigned inst_nmax(const c09_inst *in) {
    return in->maxElements && in->maxElements < UNLIMITED_N
               ? (unsigned)in->maxElements
               : UNLIMITED_N;
}

/* nondecreasing sequence of L values in [0, mask]: many duplicates, placed
 * low, high or spread over the value range (counting sort: R <= L + 3) */
static void sorted_init(hist *h, unsigned L, uint64_t seed) {
    uint64_t s = seed | 1;
    uint64_t R = (uint64_t)h->mask + 1;
    if (R > (uint64_t)L + 3) {
        R = (uint64_t)L + 3;
    }
    unsigned region = (unsigned)(vf_xs(&s) % 3);
    uint32_t *cnt = (uint32_t *)calloc((size_t)R, sizeof(uint32_t));
    if (!cnt) {
        abort();
    }
    for (unsigned i = 0; i < L; i++) {
        cnt[vf_xs(&s) % R]++;
    }
    unsigned i = 0;
    for (uint64_t rk = 0; rk < R; rk++) {
        uint32_t v;
        if (region == 0) {
            v = (uint32_t)rk;
        } else if (region == 1) {
            v = h->mask - (uint32_t)(R - 1) + (uint32_t)rk;
        } else {
            v = R > 1 ? (uint32_t)rk * (h->mask / (uint32_t)(R - 1)) : 0;
        }
        for (uint32_t c = 0; c < cnt[rk]; c++, i++) {
            h->in->set(h->mem, i, v);
            h->ref[i] = v;
        }
    }
    free(cnt);
}

void vf_run(vf_rd *r, vf_report *rep) {
    static hist H;
    hist *h = &H;
    unsigned cfg = vf_u8(r) % c09_ninst;
    uint16_t n16 = vf_u16(r);
    uint8_t x = vf_u8(r);
    const c09_inst *in = c09_get(cfg);
    const unsigned nmax = inst_nmax(in);
    const int large = x >= LARGE_X0 && x < LARGE_X0 + (vf_tier() ? 8 : 3);
    const unsigned c16 = (65536 + in->bits - 1) / in->bits;

    unsigned nraw = n16 & 0x1ff;
    unsigned n;
    unsigned maxrec = ~0u;
    if (!large) {
        switch ((n16 >> 9) & 3) {
        case 0:
        case 1:
            n = 1 + nraw % 24;
            break;
        case 2:
            n = 1 + nraw % 80;
            break;
        default:
            n = 1 + nraw % SMALLN;
            break;
        }
        if (n > nmax) {
            n = nmax; /* PACK_MAX_ELEMENTS 255 */
        }
    } else {
        uint16_t lh = vf_u16(r);
        unsigned lraw = lh >> 3;
        unsigned lo = nmax < SMALLN + 1 ? nmax : SMALLN + 1;
        switch (lh & 7) {
        case 0: /* anywhere in lo..nmax */
            n = lo + (unsigned)((uint64_t)lraw * (nmax - lo + 1) / 8192);
            break;
        case 1:
            n = nmax;
            break;
        case 2:
            n = nmax - lraw % 64;
            break;
        case 3: /* the element at bit position 2^16 is among the last */
            n = c16 + 1 + lraw % 128;
            break;
        case 4: /* thousands */
            n = lo + lraw;
            break;
        case 5: /* between that element and nmax */
            n = c16 < nmax
                    ? c16 + 1 +
                          (unsigned)((uint64_t)lraw * (nmax - c16) / 8192)
                    : nmax;
            break;
        case 6: /* more than 65535 elements */
            n = 65537 + lraw % 64;
            break;
        default:
            n = lo + lraw % 4096;
            break;
        }
        if (n > nmax) {
            n = nmax;
        }
        if (n < 1) {
            n = 1;
        }
        maxrec = (n > 20000 ? 8u : 16u) << (vf_tier() ? 1 : 0);
    }
    unsigned fill = (n16 >> 11) & 3;
    unsigned aux = (n16 >> 13) & 3;
    int sorted = (n16 >> 15) & 1;
    if (fill == 3 && !sorted && (aux & 1)) {
        fill = 4;
    }
    uint64_t seed = vf_mix(vf_mix(0xc09, cfg), n16);
    if (large) {
        seed = vf_mix(seed, n);
    }
    uint64_t hh = seed;
    int nontrivial = 0;
    unsigned L = 0; /* live length (sorted mode) */

    if (sorted) {
        switch (aux) {
        case 0:
            L = n;
            break;
        case 1:
            L = n - 1;
            break;
        case 2:
            L = n / 2;
            break;
        default:
            L = large && n > 40 ? n - 40 : 0;
            break;
        }
    }
    vf_desc(rep, "inst=%s n=%u mode=%s fill=%u", in->name, n,
            sorted ? "sorted" : "positional", fill);
    if (sorted) {
        vf_desc(rep, " L0=%u", L);
    }
    if (large) {
        vf_desc(rep, " large init=%u", sorted ? 0 : aux);
    }
    vf_desc(rep, " :");

    vf_class(in->name);
    if (hist_open(h, rep, in, n, fill, seed, large, sorted ? 0 : aux)) {
        goto done;
    }
    h->k[sorted ? K_SORTED : K_POS]++;
    if (large) {
        h->k[K_LARGE]++;
        h->k[sorted ? K_LARGE_SORTED : K_LARGE_POS]++;
        if (n == nmax) {
            h->k[K_LARGE_NMAX]++;
        }
        if (!in->maxElements) {
            vf_class("large.unlimited");
        } else {
            char cn[48];
            snprintf(cn, sizeof(cn), "large.max%llu",
                     (unsigned long long)in->maxElements);
            vf_class(cn);
        }
    }

    if (sorted) {
        sorted_init(h, L, seed);
        OPDESC(h, "init(sorted prefix of %u)", L);
        if (large) {
            note_range(h, L, L ? L - 1 : 0, 0);
            memcpy(h->shadow, h->mem, h->bytes); /* compared in full below */
        }
        if (check_full(h, "init", -1)) {
            goto done;
        }
    }
    while (vf_left(r) >= 7 && h->recno < maxrec) {
        uint8_t opb = vf_u8(r);
        uint16_t idx = vf_u16(r);
        uint32_t w = vf_u32(r);
        unsigned op = opb % 6;
        unsigned idx9 = idx & 0x1ff;
        int bad = 0;
        h->recno++;

        if (!sorted) {
            switch (op) {
            case 0: { /* set */
                unsigned i = pick_index(h, idx);
                uint32_t v = dec_value(h, w, h->ref[i]);
                OPDESC(h, "set(%u,0x%x)", i, v);
                h->k[K_SET]++;
                note_elem(h, i, &nontrivial);
                hh = vf_mix(vf_mix(vf_mix(hh, 0), i), v);
                bad = do_set(h, i, v);
                break;
            }
            case 1: { /* get */
                unsigned i = pick_index(h, idx);
                OPDESC(h, "get(%u)", i);
                h->k[K_GET]++;
                note_elem(h, i, &nontrivial);
                hh = vf_mix(vf_mix(hh, 1), i);
                bad = do_get(h, i);
                break;
            }
            case 2: { /* incr: d >= 0, result stays in range */
                unsigned i = pick_index(h, idx);
                uint32_t cur = h->ref[i];
                uint64_t room = (uint64_t)h->mask - cur;
                uint64_t d;
                switch (w & 3) {
                case 0:
                    d = (uint64_t)(w >> 2) % (room + 1);
                    break;
                case 1:
                    d = room;
                    break;
                case 2:
                    d = room ? 1 : 0;
                    break;
                default:
                    d = (uint64_t)((w >> 2) & 0xf) % (room + 1);
                    break;
                }
                OPDESC(h, "incr(%u,+%llu) from 0x%x", i, (unsigned long long)d,
                       cur);
                h->k[K_INCR]++;
                if (d && d == room) {
                    h->k[K_INCR_TO_MAX]++;
                }
                note_elem(h, i, &nontrivial);
                hh = vf_mix(vf_mix(vf_mix(hh, 2), i), d);
                in->incr(h->mem, i, (int64_t)d);
                h->ref[i] = (uint32_t)(cur + d);
                bad = check_state(h, "incr", (int)i, i, i);
                break;
            }
            case 3: { /* half */
                unsigned i = pick_index(h, idx);
                OPDESC(h, "half(%u) from 0x%x", i, h->ref[i]);
                h->k[K_HALF]++;
                note_elem(h, i, &nontrivial);
                hh = vf_mix(vf_mix(hh, 3), i);
                in->half(h->mem, i);
                h->ref[i] /= 2;
                bad = check_state(h, "half", (int)i, i, i);
                break;
            }
            case 4: { /* insert(len, off, v): writes element [len], len < n */
                unsigned cap1 = n - 1;
                unsigned sel = (idx >> 9) & 3;
                unsigned lenx = idx >> 11;
                unsigned len;
                if (sel < 2) {
                    len = cap1;
                } else if (sel == 2) {
                    len = cap1 - lenx % (cap1 + 1);
                } else if (!large) {
                    len = lenx % (cap1 + 1);
                } else { /* just past 65535, or the middle */
                    len = cap1 >= 65536 + lenx ? 65536 + lenx : cap1 / 2;
                }
                unsigned off = large ? pick_large_off(h, idx9, len + 1)
                                     : idx9 % (len + 1);
                uint32_t v = dec_value(h, w, h->ref[off]);
                OPDESC(h, "insert(len=%u,%u,0x%x)", len, off, v);
                h->k[K_INSERT]++;
                if (len == cap1) {
                    h->k[K_INSERT_FULL]++;
                }
                if (len > off) {
                    h->k[K_SHIFT_POS]++;
                    nontrivial = 1;
                }
                if (large) {
                    note_range(h, len, len, len - off);
                }
                hh = vf_mix(vf_mix(vf_mix(vf_mix(hh, 4), len), off), v);
                in->insert(h->mem, len, off, v);
                ref_insert(h, len, off, v);
                bad = check_state(h, "insert", -1, off, len);
                break;
            }
            default: { /* delete(len, off): 1 <= len <= n, off < len */
                unsigned sel = w & 3;
                unsigned x16 = (w >> 2) & 0xffff;
                unsigned len;
                if (sel < 2) {
                    len = n;
                } else if (sel == 2) {
                    len = n - x16 % (large ? (n < 32 ? n : 32) : n);
                } else if (!large) {
                    len = 1 + x16 % n;
                } else {
                    len = n >= 65537 + x16 % 32 ? 65537 + x16 % 32
                                                : 1 + n / 2;
                }
                unsigned off =
                    large ? pick_large_off(h, idx9, len) : idx9 % len;
                OPDESC(h, "delete(len=%u,%u)", len, off);
                h->k[K_DELETE]++;
                if (off + 1 < len) {
                    h->k[K_SHIFT_POS]++;
                    nontrivial = 1;
                }
                if (large) {
                    note_range(h, len, len - 1, len - 1 - off);
                }
                hh = vf_mix(vf_mix(vf_mix(hh, 5), len), off);
                in->del(h->mem, len, off);
                ref_delete(h, len, off);
                bad = check_state(h, "delete", -1, off, len - 1);
                break;
            }
            }
        } else {
            switch (op) {
            case 0: { /* insertSorted */
                uint32_t v = dec_sorted_value(h, w, L);
                unsigned len = L < n ? L : n - 1;
                unsigned pos = lower_bound(h->ref, len, v);
                OPDESC(h, "insertSorted(len=%u,0x%x)", len, v);
                h->k[K_INSERT_SORTED]++;
                if (len == n - 1) {
                    h->k[K_INSERT_FULL]++;
                }
                if (len > pos) {
                    h->k[K_SHIFT_SORTED]++;
                    nontrivial = 1;
                }
                if (large) {
                    note_range(h, len, len, len - pos);
                }
                hh = vf_mix(vf_mix(vf_mix(hh, 6), len), v);
                in->insertSorted(h->mem, len, v);
                ref_insert(h, len, pos, v);
                L = len + 1;
                bad = check_state(h, "insertSorted", -1, pos, len);
                break;
            }
            case 1: { /* member: first equal element or -1 */
                uint32_t v = dec_sorted_value(h, w, L);
                unsigned pos = lower_bound(h->ref, L, v);
                int64_t want = (pos < L && h->ref[pos] == v) ? (int64_t)pos : -1;
                OPDESC(h, "member(len=%u,0x%x)", L, v);
                h->k[want >= 0 ? K_MEMBER_HIT : K_MEMBER_MISS]++;
                if (!L) {
                    h->k[K_SORTED_EMPTY]++;
                }
                if (large) {
                    note_range(h, L, L / 2, 0);
                }
                hh = vf_mix(vf_mix(vf_mix(hh, 7), L), v);
                int64_t got = in->member(h->mem, L, v);
                if (got != want) {
                    bad = vf_fail(rep, "member.result", "value",
                                  "%s n=%u record %u %s: returned %lld, "
                                  "reference %lld",
                                  in->name, n, h->recno, h->opdesc,
                                  (long long)got, (long long)want);
                    break;
                }
                bad = check_state(h, "member", -1, NOWRITE);
                break;
            }
            case 2: { /* deleteMember */
                uint32_t v = dec_sorted_value(h, w, L);
                unsigned pos = lower_bound(h->ref, L, v);
                int want = pos < L && h->ref[pos] == v;
                OPDESC(h, "deleteMember(len=%u,0x%x)", L, v);
                h->k[want ? K_DELMEMBER_HIT : K_DELMEMBER_MISS]++;
                if (want && pos + 1 < L) {
                    h->k[K_SHIFT_SORTED]++;
                    nontrivial = 1;
                }
                if (large) {
                    note_range(h, L, want ? L - 1 : L / 2,
                               want ? L - 1 - pos : 0);
                }
                hh = vf_mix(vf_mix(vf_mix(hh, 8), L), v);
                int got = in->deleteMember(h->mem, L, v);
                if (got != want) {
                    bad = vf_fail(rep, "deleteMember.result", "value",
                                  "%s n=%u record %u %s: returned %d, "
                                  "reference %d",
                                  in->name, n, h->recno, h->opdesc, got, want);
                    break;
                }
                if (want) {
                    ref_delete(h, L, pos);
                    L--;
                    bad = check_state(h, "deleteMember", -1, pos, L);
                } else {
                    bad = check_state(h, "deleteMember", -1, NOWRITE);
                }
                break;
            }
            case 3: { /* binarySearch: lower bound */
                uint32_t v = dec_sorted_value(h, w, L);
                unsigned want = lower_bound(h->ref, L, v);
                OPDESC(h, "binarySearch(len=%u,0x%x)", L, v);
                h->k[K_BSEARCH]++;
                if (want == L) {
                    h->k[K_BSEARCH_END]++;
                }
                if (large) {
                    note_range(h, L, L / 2, 0);
                }
                hh = vf_mix(vf_mix(vf_mix(hh, 9), L), v);
                uint32_t got = in->binarySearch(h->mem, L, v);
                if (got != want) {
                    bad = vf_fail(rep, "binarySearch.result", "value",
                                  "%s n=%u record %u %s: returned %u, "
                                  "reference lower bound %u",
                                  in->name, n, h->recno, h->opdesc, got, want);
                    break;
                }
                bad = check_state(h, "binarySearch", -1, NOWRITE);
                break;
            }
            case 4: { /* positional delete inside the live prefix */
                if (L == 0) {
                    OPDESC(h, "delete(skipped: empty)");
                    h->k[K_SORTED_EMPTY]++;
                    break;
                }
                unsigned off;
                if (large) {
                    off = pick_large_off(h, idx9, L);
                } else {
                    off = ((idx >> 9) & 3) == 3 ? 0 : idx9 % L;
                }
                OPDESC(h, "delete(len=%u,%u)", L, off);
                h->k[K_DELETE]++;
                if (off + 1 < L) {
                    h->k[K_SHIFT_SORTED]++;
                    nontrivial = 1;
                }
                if (large) {
                    note_range(h, L, L - 1, L - 1 - off);
                }
                hh = vf_mix(vf_mix(vf_mix(hh, 10), L), off);
                in->del(h->mem, L, off);
                ref_delete(h, L, off);
                L--;
                bad = check_state(h, "delete", -1, off, L);
                break;
            }
            default: { /* get */
                unsigned i = pick_index(h, idx);
                OPDESC(h, "get(%u)", i);
                h->k[K_GET]++;
                note_elem(h, i, &nontrivial);
                hh = vf_mix(vf_mix(hh, 1), i);
                bad = do_get(h, i);
                break;
            }
            }
        }
        if (rep->desclen < 540) {
            vf_desc(rep, " %s", h->opdesc);
        } else if (rep->desclen < 560) {
            vf_desc(rep, " ...");
            rep->desclen = 560;
        }
        if (bad) {
            break;
        }
    }
    if (large && !rep->violated && h->n > h->fullBound) {
        /* what the watched regions did not cover */
        OPDESC(h, "end of history (after %u records)", h->recno);
        check_full(h, "final", -1);
    }
    if (nontrivial && !rep->violated) {
        vf_nontrivial(hh);
    }
done:
    for (unsigned i = 0; i < K_N; i++) {
        if (h->k[i]) {
            vf_class_n(kname[i], h->k[i]);
        }
    }
    hist_close(h);
}

/* deterministic sweep: every instantiation, every start-bit phase ---------- */
static int sweep_setget(vf_report *rep, const c09_inst *in, unsigned n,
                        unsigned fill) {
    static hist H;
    hist *h = &H;
    int bad = hist_open(h, rep, in, n, fill, 0, 0, 0);
    if (!bad) {
        uint32_t expect = fill ? h->mask : 0;
        for (unsigned i = 0; i < n && !bad; i++) {
            if (h->ref[i] != expect) {
                bad = vf_fail(rep, "sweep.init", "value",
                              "%s n=%u: storage filled with 0x%02x, get(%u) "
                              "returned 0x%x",
                              in->name, n, fill ? 0xff : 0, i, h->ref[i]);
            }
        }
    }
    const uint32_t m = h->mask;
    const uint32_t vals[6] = {m,
                              0,
                              0x55555555u & m,
                              0xaaaaaaaau & m,
                              1u & m,
                              (uint32_t)1 << (in->bits - 1)};
    for (unsigned i = 0; i < n && !bad; i++) {
        for (unsigned k = 0; k < 6 && !bad; k++) {
            h->recno++;
            OPDESC(h, "set(%u,0x%x)", i, vals[k]);
            bad = do_set(h, i, vals[k]);
        }
        if (bad) {
            break;
        }
        /* leave 1<<(B-1): halve it, then increment back up to the mask */
        uint32_t cur = h->ref[i];
        h->recno++;
        OPDESC(h, "half(%u) from 0x%x", i, cur);
        in->half(h->mem, i);
        h->ref[i] = cur / 2;
        bad = check_state(h, "half", (int)i, i, i);
        if (bad) {
            break;
        }
        cur = h->ref[i];
        h->recno++;
        OPDESC(h, "incr(%u,+%u) from 0x%x", i, m - cur, cur);
        in->incr(h->mem, i, (int64_t)(m - cur));
        h->ref[i] = m;
        bad = check_state(h, "incr", (int)i, i, i);
        if (bad) {
            break;
        }
        h->recno++;
        OPDESC(h, "get(%u)", i);
        bad = do_get(h, i);
    }
    hist_close(h);
    return bad;
}

static int sweep_sorted(vf_report *rep, const c09_inst *in, unsigned n) {
    static hist H;
    hist *h = &H;
    int bad = hist_open(h, rep, in, n, 1, 0, 0, 0);
    unsigned L = 0;
    /* descending-ish insertion order so that most inserts shift */
    for (unsigned k = 0; k < n && !bad; k++) {
        uint32_t v = (uint32_t)(((uint64_t)(n - 1 - k) * 5 + (k & 1) * 3) & h->mask);
        unsigned pos = lower_bound(h->ref, L, v);
        h->recno++;
        OPDESC(h, "insertSorted(len=%u,0x%x)", L, v);
        in->insertSorted(h->mem, L, v);
        ref_insert(h, L, pos, v);
        L++;
        bad = check_state(h, "insertSorted", -1, pos, L - 1);
    }
    for (unsigned k = 0; k < n && !bad; k++) {
        uint32_t v = h->ref[k];
        unsigned pos = lower_bound(h->ref, L, v);
        h->recno++;
        OPDESC(h, "member(len=%u,0x%x)", L, v);
        int64_t got = in->member(h->mem, L, v);
        uint32_t lb = in->binarySearch(h->mem, L, v);
        if (got != (int64_t)pos || lb != pos) {
            bad = vf_fail(rep, "member.result", "value",
                          "%s n=%u sweep %s: member returned %lld, "
                          "binarySearch %u, reference %u",
                          in->name, n, h->opdesc, (long long)got, lb, pos);
        }
    }
    for (unsigned k = 0; L > 0 && !bad; k++) {
        uint32_t v = h->ref[(k * 7) % L];
        unsigned pos = lower_bound(h->ref, L, v);
        h->recno++;
        OPDESC(h, "deleteMember(len=%u,0x%x)", L, v);
        int got = in->deleteMember(h->mem, L, v);
        if (!got) {
            bad = vf_fail(rep, "deleteMember.result", "value",
                          "%s n=%u sweep %s: returned 0 for a present value",
                          in->name, n, h->opdesc);
            break;
        }
        ref_delete(h, L, pos);
        L--;
        bad = check_state(h, "deleteMember", -1, pos, L);
    }
    hist_close(h);
    return bad;
}

/* large arrays: every instantiation with its maximum number of elements (the
 * ones without limit: just past the element at bit position 2^16, and 70000
 * for a few), every element written once, then single operations at the
 * last element, around every power-of-two bit position and at the first
 * elements, then sorted operations over the whole length */
static int sweep_large(vf_report *rep, const c09_inst *in, unsigned n,
                       unsigned order) {
    static hist H;
    hist *h = &H;
    int bad = hist_open(h, rep, in, n, 1, vf_mix(0x5eed, n), 1, order);
    const uint32_t m = h->mask;
    unsigned idxs[64];
    unsigned ni = 0;
    if (!bad) {
        idxs[ni++] = n - 1;
        idxs[ni++] = 0;
        for (unsigned p = 8; p < 40 && ((uint64_t)1 << p) < (uint64_t)n * h->B;
             p++) {
            unsigned e = (unsigned)(((uint64_t)1 << p) / h->B);
            if (e > 0 && ni < 60) {
                idxs[ni++] = e - 1;
            }
            if (e < n && ni < 60) {
                idxs[ni++] = e;
            }
            if (e + 1 < n && ni < 60) {
                idxs[ni++] = e + 1;
            }
        }
        idxs[ni++] = n / 2;
        idxs[ni++] = n > 1 ? n - 2 : 0;
    }
    for (unsigned k = 0; k < ni && !bad; k++) {
        unsigned i = idxs[k];
        uint32_t v = ~h->ref[i] & m;
        h->recno++;
        OPDESC(h, "set(%u,0x%x)", i, v);
        bad = do_set(h, i, v);
        if (bad) {
            break;
        }
        h->recno++;
        OPDESC(h, "half(%u) from 0x%x", i, v);
        in->half(h->mem, i);
        h->ref[i] = v / 2;
        bad = check_state(h, "half", (int)i, i, i);
        if (bad) {
            break;
        }
        uint32_t cur = h->ref[i];
        h->recno++;
        OPDESC(h, "incr(%u,+%u) from 0x%x", i, m - cur, cur);
        in->incr(h->mem, i, (int64_t)(m - cur));
        h->ref[i] = m;
        bad = check_state(h, "incr", (int)i, i, i);
        if (bad) {
            break;
        }
        h->recno++;
        OPDESC(h, "get(%u)", i);
        bad = do_get(h, i);
    }
    if (!bad) {
        OPDESC(h, "end of the positional part");
        bad = check_full(h, "final", -1);
    }
    if (!bad) {
        /* sorted part: n - 1 live elements, insert the smallest value (shifts
         * everything), look up the largest, delete the smallest again */
        unsigned L = n - 1;
        sorted_init(h, L, vf_mix(0x50, n));
        memcpy(h->shadow, h->mem, h->bytes);
        OPDESC(h, "init(sorted prefix of %u)", L);
        bad = check_full(h, "init", -1);
        if (!bad && L) {
            uint32_t v = h->ref[0];
            uint32_t top = h->ref[L - 1];
            h->recno++;
            OPDESC(h, "insertSorted(len=%u,0x%x)", L, v);
            in->insertSorted(h->mem, L, v);
            ref_insert(h, L, 0, v);
            L++;
            bad = check_state(h, "insertSorted", -1, 0, L - 1);
            if (!bad) {
                unsigned pos = lower_bound(h->ref, L, top);
                h->recno++;
                OPDESC(h, "member(len=%u,0x%x)", L, top);
                int64_t got = in->member(h->mem, L, top);
                uint32_t lb = in->binarySearch(h->mem, L, top);
                if (got != (int64_t)pos || lb != pos) {
                    bad = vf_fail(rep, "member.result", "value",
                                  "%s n=%u sweep %s: member returned %lld, "
                                  "binarySearch %u, reference %u",
                                  in->name, n, h->opdesc, (long long)got, lb,
                                  pos);
                }
            }
            if (!bad) {
                h->recno++;
                OPDESC(h, "deleteMember(len=%u,0x%x)", L, v);
                int got = in->deleteMember(h->mem, L, v);
                if (!got) {
                    bad = vf_fail(rep, "deleteMember.result", "value",
                                  "%s n=%u sweep %s: returned 0 for a present "
                                  "value",
                                  in->name, n, h->opdesc);
                } else {
                    ref_delete(h, L, 0);
                    L--;
                    bad = check_state(h, "deleteMember", -1, 0, L);
                }
            }
            if (!bad) {
                OPDESC(h, "end of the sorted part");
                bad = check_full(h, "final", -1);
            }
        }
    }
    hist_close(h);
    return bad;
}

/* bit position 2^32: set/half/incr/get of the elements around index 2^32/B in
 * a sparse mapping; the 17 elements around it, the first 256 elements and the
 * first 128 KiB of the storage are compared after every operation.  Skipped
 * for instantiations that cannot address such an element (PACK_MAX_ELEMENTS,
 * or 1-bit elements with a 32-bit index). */
#define SP_LOWN 256u
#define SP_LOWBYTES ((size_t)1 << 17)
#define SP_SPAN 8u

typedef struct sparse {
    vf_report *rep;
    const c09_inst *in;
    uint8_t *mem, *snap;
    uint32_t lowref[SP_LOWN];
    uint32_t hiref[2 * SP_SPAN + 1];
    uint32_t hbase; /* index of hiref[0] */
    char opdesc[72];
} sparse;

static int sparse_verify(sparse *sp) {
    const c09_inst *in = sp->in;
    for (unsigned j = 0; j <= 2 * SP_SPAN; j++) {
        uint32_t g = in->get(sp->mem, sp->hbase + j);
        if (g != sp->hiref[j]) {
            return vf_fail(sp->rep, "sparse.high", "value",
                           "%s sparse array, after %s: element %u reads 0x%x, "
                           "reference 0x%x",
                           in->name, sp->opdesc, sp->hbase + j, g,
                           sp->hiref[j]);
        }
    }
    if (memcmp(sp->mem, sp->snap, SP_LOWBYTES) != 0) {
        size_t d = 0;
        while (sp->mem[d] == sp->snap[d]) {
            d++;
        }
        return vf_fail(sp->rep, "sparse.low", "isolation",
                       "%s sparse array, after %s: storage byte %zu (bits of "
                       "element %llu) changed 0x%02x -> 0x%02x",
                       in->name, sp->opdesc, d,
                       (unsigned long long)((uint64_t)d * 8 / in->bits),
                       sp->snap[d], sp->mem[d]);
    }
    for (unsigned j = 0; j < SP_LOWN; j++) {
        uint32_t g = in->get(sp->mem, j);
        if (g != sp->lowref[j]) {
            return vf_fail(sp->rep, "sparse.low", "value",
                           "%s sparse array, after %s: element %u reads 0x%x, "
                           "reference 0x%x",
                           in->name, sp->opdesc, j, g, sp->lowref[j]);
        }
    }
    return 0;
}

static int sweep_sparse(vf_report *rep, const c09_inst *in) {
    static sparse SP;
    sparse *sp = &SP;
    const unsigned B = in->bits, sb = in->slotBytes, S = sb * 8;
    const uint32_t mask = B >= 32 ? 0xffffffffu : (((uint32_t)1 << B) - 1);
    const uint64_t idx32 = (((uint64_t)1 << 32) + B - 1) / B;
    uint64_t limit = (uint64_t)1 << 32; /* the wrappers take 32-bit indices */
    if (in->maxElements && in->maxElements < limit) {
        limit = in->maxElements;
    }
    if (idx32 + SP_SPAN + 1 > limit) {
        return 0;
    }
    const uint64_t n = idx32 + SP_SPAN + 1;
    const uint64_t slots = (n * B + S - 1) / S;
    const size_t maplen = (size_t)((slots * sb + 4095) & ~(uint64_t)4095);
    void *p = mmap(NULL, maplen, PROT_READ | PROT_WRITE,
                   MAP_PRIVATE | MAP_ANONYMOUS | MAP_NORESERVE, -1, 0);
    if (p == MAP_FAILED) {
        vf_class("sweep.sparse.unavailable");
        return 0;
    }
    vf_class("sweep.bitpos-2^32");
    sp->rep = rep;
    sp->in = in;
    sp->mem = (uint8_t *)p;
    sp->snap = (uint8_t *)malloc(SP_LOWBYTES);
    if (!sp->snap) {
        abort();
    }
    sp->hbase = (uint32_t)(idx32 - SP_SPAN);
    memset(sp->hiref, 0, sizeof(sp->hiref));
    for (unsigned j = 0; j < SP_LOWN; j++) {
        uint32_t v = (uint32_t)(vf_mix(0x10, j) >> 9) & mask;
        in->set(sp->mem, j, v);
        sp->lowref[j] = v;
    }
    memcpy(sp->snap, sp->mem, SP_LOWBYTES);
    snprintf(sp->opdesc, sizeof(sp->opdesc), "set of elements 0..%u",
             SP_LOWN - 1);
    int bad = sparse_verify(sp);
    static const int offs[7] = {8, -1, 0, 1, -2, 3, -8};
    for (unsigned k = 0; k < 7 && !bad; k++) {
        uint32_t t = (uint32_t)((int64_t)idx32 + offs[k]);
        unsigned j = t - sp->hbase;
        uint32_t v = ((uint32_t)(vf_mix(0x20, k) >> 9) & mask) | 1u;
        snprintf(sp->opdesc, sizeof(sp->opdesc), "set(%u,0x%x)", t, v);
        in->set(sp->mem, t, v);
        sp->hiref[j] = v;
        bad = sparse_verify(sp);
        if (bad) {
            break;
        }
        snprintf(sp->opdesc, sizeof(sp->opdesc), "half(%u) from 0x%x", t, v);
        in->half(sp->mem, t);
        sp->hiref[j] = v / 2;
        bad = sparse_verify(sp);
        if (bad) {
            break;
        }
        snprintf(sp->opdesc, sizeof(sp->opdesc), "incr(%u,+%u) from 0x%x", t,
                 mask - v / 2, v / 2);
        in->incr(sp->mem, t, (int64_t)(mask - v / 2));
        sp->hiref[j] = mask;
        bad = sparse_verify(sp);
    }
    free(sp->snap);
    munmap(p, maplen);
    return bad;
}

void vf_sweep(vf_report *rep) {
    for (unsigned c = 0; c < c09_ninst; c++) {
        if (sweep_sparse(rep, c09_get(c))) {
            return;
        }
    }
    for (unsigned c = 0; c < c09_ninst; c++) {
        const c09_inst *in = c09_get(c);
        unsigned nmax = inst_nmax(in);
        unsigned n = nmax;
        if (!in->maxElements || in->maxElements > UNLIMITED_N) {
            /* no limit: past bit position 2^16; the full 70000 for the
             * tree's own variants and the 64-bit length type */
            unsigned c16 = (65536 + in->bits - 1) / in->bits;
            if (in->name[0] == 'i') {
                n = c16 + 70;
            }
        }
        if (sweep_large(rep, in, n, 1 + c % 3)) {
            return;
        }
    }
    for (unsigned c = 0; c < c09_ninst; c++) {
        const c09_inst *in = c09_get(c);
        unsigned S = in->slotBytes * 8;
        unsigned P = S / gcd_u(in->bits, S); /* elements per phase period */
        const unsigned ns[4] = {1, 2, P, P + 1};
        for (unsigned k = 0; k < 4; k++) {
            for (unsigned fill = 0; fill < 2; fill++) {
                if (sweep_setget(rep, in, ns[k], fill)) {
                    return;
                }
            }
        }
        if (sweep_sorted(rep, in, P + 2)) {
            return;
        }
    }
}
