/* c11_bitstream_huge.h - "huge offset" class of the C11 harness (included by
 * c11_bitstream.c after its word helpers).
 *
 * The property quantifies over *any* bit offset.  A stream of 6 words folds
 * the absolute offset away, so arithmetic that narrows the offset (uint32_t /
 * int32_t temporaries, a second word located from a truncated offset, ...) is
 * invisible there.  Here the stream is a sparse private anonymous mapping
 * (MAP_NORESERVE, never more than a few hundred pages resident) of 2^33 + 2^19
 * bits, preceded by a lead zone of 2^31 bits, so that
 *
 *   - offsets around 2^31, 2^32, 3*2^31 and 2^33 and random huge offsets exist;
 *   - every place a narrowed offset would alias to exists as well: offset mod
 *     2^32 and offset mod 2^31 (inside the stream) and the offset read as an
 *     int32_t (negative for bit 31 set: inside the lead zone).
 *
 * oracle per write
 *   (a) Get at the same (offset, width) returns the value;
 *   (b) isolation: a word model is kept for the watched words = the first 64
 *       words, 4 words either side of the written range, and 4 words either
 *       side of each alias of its first and last bit; a word that becomes
 *       watched must still be fresh (0: nothing but the harness and writes
 *       that overlap watched words may have stored there), is then pre-set to
 *       a pattern (zeros / ones / pseudo-random by the case's fill byte) and
 *       modelled; after every write every watched word equals the model;
 *   (c) the same bits read as two narrower fields (split at the word boundary
 *       or the middle, and at a case-chosen point) give the value again.
 * at the end of the case (d): every resident page of the mapping (mincore is
 * only the hint where to look) holds zeros outside the watched words - fresh
 * anonymous memory is zero, so a non-zero unwatched word is a stray store.
 *
 * One mapping per process; every case ends with MADV_DONTNEED over the whole
 * mapping, which makes all of it read as zeros again (no state between cases). */
#include <sys/mman.h>
#include <unistd.h>

#define HG_STREAM_BITS ((1ULL << 33) + (1ULL << 19))
#define HG_STREAM_BYTES (HG_STREAM_BITS / 8)
#define HG_LEAD_BYTES ((1ULL << 28) + 65536)
#define HG_MAXW 2048u /* watched words per case */
#define HG_TAB 8192u  /* hash slots (power of two, > 2 * HG_MAXW) */
#define HG_NEAR 4     /* watched words either side of a range */

enum { HG_FIRST = 0, HG_TARGET, HG_MOD32, HG_MOD31, HG_INT32 };
static const char *const hg_whyname[] = {
    "one of the first 64 words",
    "next to the written range",
    "where an end of the range taken mod 2^32 lives",
    "where an end of the range taken mod 2^31 lives",
    "where an end of the range read as int32_t lives",
};

#if SIZE_MAX > 0xffffffffu
static uint8_t *hg_map;
static size_t hg_maplen;
static size_t hg_pagesz;
static unsigned char *hg_vec;
static int hg_state; /* 0 untried, 1 mapped, -1 unavailable */
static int hg_dirty;
#endif

typedef struct hg {
    vf_report *rep;
    const c11_ops *o;
    unsigned W, wb;
    uint8_t *base;          /* word 0 of the stream */
    int64_t lo_idx, hi_idx; /* mapped words: lo_idx <= idx < hi_idx */
    unsigned fill;
    unsigned n;
    unsigned nwrites;
    int full;
    int64_t idx[HG_MAXW];
    uint64_t exp[HG_MAXW];
    uint8_t why[HG_MAXW];
    uint16_t tab[HG_TAB]; /* 0 empty, else entry + 1 */
    /* last write, for reports */
    uint64_t off;
    unsigned width;
    uint64_t value;
} hg;

static hg hg_s;

static void hg_reset_mapping(void) {
#if SIZE_MAX > 0xffffffffu
    if (hg_state == 1 && hg_dirty) {
        if (madvise(hg_map, hg_maplen, MADV_DONTNEED) != 0) {
            /* cannot return to zeros cheaply: replace the mapping */
            munmap(hg_map, hg_maplen);
            hg_map = NULL;
            hg_state = 0;
        }
        hg_dirty = 0;
    }
#endif
}

/* returns NULL when no address space is available */
static hg *hg_open(vf_report *rep, const c11_ops *o, unsigned fillsel) {
#if SIZE_MAX > 0xffffffffu
    if (hg_state == 0) {
        long ps = sysconf(_SC_PAGESIZE);
        hg_pagesz = ps > 0 ? (size_t)ps : 4096;
        hg_maplen = (size_t)(HG_LEAD_BYTES + HG_STREAM_BYTES);
        hg_maplen = (hg_maplen + hg_pagesz - 1) / hg_pagesz * hg_pagesz;
        void *p = mmap(NULL, hg_maplen, PROT_READ | PROT_WRITE,
                       MAP_PRIVATE | MAP_ANONYMOUS | MAP_NORESERVE, -1, 0);
        if (p == MAP_FAILED) {
            hg_state = -1;
        } else {
            hg_map = (uint8_t *)p;
            hg_state = 1;
            hg_dirty = 0;
#ifdef MADV_NOHUGEPAGE
            (void)madvise(hg_map, hg_maplen, MADV_NOHUGEPAGE);
#endif
            if (!hg_vec) {
                hg_vec = (unsigned char *)malloc(hg_maplen / hg_pagesz + 8);
            }
        }
    }
    if (hg_state != 1) {
        return NULL;
    }
    hg_reset_mapping(); /* only if a previous case could not clean up */
    if (hg_state != 1) {
        return hg_open(rep, o, fillsel);
    }
    hg *h = &hg_s;
    h->rep = rep;
    h->o = o;
    h->W = o->W;
    h->wb = o->W / 8;
    h->base = hg_map + HG_LEAD_BYTES;
    h->lo_idx = -(int64_t)(HG_LEAD_BYTES / h->wb);
    h->hi_idx = (int64_t)(HG_STREAM_BYTES / h->wb);
    h->fill = fillsel;
    h->n = 0;
    h->nwrites = 0;
    h->full = 0;
    h->off = 0;
    h->width = 0;
    h->value = 0;
    memset(h->tab, 0, sizeof(h->tab));
    hg_dirty = 1;
    return h;
#else
    (void)rep;
    (void)o;
    (void)fillsel;
    return NULL;
#endif
}

static unsigned hg_slot(int64_t idx) {
    return (unsigned)(vf_mix(0x4c11, (uint64_t)idx) & (HG_TAB - 1));
}

static int hg_find(const hg *h, int64_t idx) {
    unsigned s = hg_slot(idx);
    while (h->tab[s]) {
        const unsigned e = h->tab[s] - 1u;
        if (h->idx[e] == idx) {
            return (int)e;
        }
        s = (s + 1) & (HG_TAB - 1);
    }
    return -1;
}

static uint8_t *hg_addr(const hg *h, int64_t idx) {
    return h->base + idx * (int64_t)h->wb;
}

static const char *hg_site(const hg *h, const char *op) {
    static char s[32];
    snprintf(s, sizeof(s), "%s.huge.%s", h->o->name, op);
    return s;
}

/* pattern a word gets when it becomes watched (blocks of 8 words alike) */
static uint64_t hg_pattern(const hg *h, int64_t idx) {
    if (h->fill == 0) {
        return 0;
    }
    if (h->fill == 1) {
        return maskbits(h->W);
    }
    const uint64_t b =
        vf_mix(0x66696c6cULL + h->fill, (uint64_t)(idx >> 3) ^ ((uint64_t)h->W << 56));
    switch (b & 3) {
    case 0:
        return 0;
    case 1:
        return maskbits(h->W);
    default:
        return vf_mix(b, (uint64_t)idx) & maskbits(h->W);
    }
}

/* start watching word idx (no-op if outside the mapping or watched already);
 * non-zero on violation */
static int hg_watch1(hg *h, int64_t idx, unsigned why) {
    if (idx < h->lo_idx || idx >= h->hi_idx || hg_find(h, idx) >= 0) {
        return 0;
    }
    if (h->n >= HG_MAXW) {
        h->full = 1;
        return 0;
    }
    const uint64_t now = ldw(hg_addr(h, idx), h->wb);
    if (now != 0) {
        return vf_fail(
            h->rep, hg_site(h, "set"), "isolation",
            "%s sparse stream: word %lld (%s of the next write) holds 0x%llx "
            "although no write so far overlapped it and the memory was fresh "
            "(zero); last write: %u bits (0x%llx) at bit %llu, %u writes so far",
            h->o->name, (long long)idx, hg_whyname[why], U(now), h->width,
            U(h->value), U(h->off), h->nwrites);
    }
    const uint64_t pat = hg_pattern(h, idx);
    if (pat != 0) {
        stw(hg_addr(h, idx), h->wb, pat);
    }
    const unsigned e = h->n++;
    h->idx[e] = idx;
    h->exp[e] = pat;
    h->why[e] = (uint8_t)why;
    unsigned s = hg_slot(idx);
    while (h->tab[s]) {
        s = (s + 1) & (HG_TAB - 1);
    }
    h->tab[s] = (uint16_t)(e + 1);
    return 0;
}

static int hg_watch(hg *h, int64_t first, int64_t last, unsigned why) {
    for (int64_t i = first - HG_NEAR; i <= last + HG_NEAR; i++) {
        if (hg_watch1(h, i, why)) {
            return 1;
        }
    }
    return 0;
}

/* word index of a (possibly negative) bit position */
static int64_t hg_word_of(const hg *h, int64_t bit) {
    const int64_t W = (int64_t)h->W;
    return bit >= 0 ? bit / W : -((-bit + W - 1) / W);
}

/* watch the range [off, off+width) and everything it could alias to */
static int hg_watch_write(hg *h, uint64_t off, unsigned width) {
    const uint64_t last = off + width - 1;
    if (hg_watch(h, (int64_t)(off / h->W), (int64_t)(last / h->W), HG_TARGET)) {
        return 1;
    }
    const uint64_t ends[2] = {off, last};
    for (unsigned k = 0; k < 2; k++) {
        const uint64_t b = ends[k];
        const int64_t a32 = (int64_t)(b & 0xffffffffULL);
        const int64_t a31 = (int64_t)(b & 0x7fffffffULL);
        const int64_t s32 = a32 >= (1LL << 31) ? a32 - (1LL << 32) : a32;
        const int64_t w32 = hg_word_of(h, a32), w31 = hg_word_of(h, a31),
                      ws = hg_word_of(h, s32);
        if (hg_watch(h, w32, w32, HG_MOD32) || hg_watch(h, w31, w31, HG_MOD31) ||
            hg_watch(h, ws, ws, HG_INT32)) {
            return 1;
        }
    }
    return 0;
}

/* how word idx relates to the write in h->off / h->width (for reports) */
static const char *hg_relation(const hg *h, unsigned e) {
    const int64_t idx = h->idx[e];
    const uint64_t ends[2] = {h->off + h->width - 1, h->off};
    if (h->width == 0) {
        return hg_whyname[h->why[e]];
    }
    if (idx >= (int64_t)(h->off / h->W) - HG_NEAR &&
        idx <= (int64_t)(ends[0] / h->W) + HG_NEAR) {
        return hg_whyname[HG_TARGET];
    }
    for (unsigned k = 0; k < 2; k++) {
        const int64_t a32 = (int64_t)(ends[k] & 0xffffffffULL);
        const int64_t a31 = (int64_t)(ends[k] & 0x7fffffffULL);
        const int64_t s32 = a32 >= (1LL << 31) ? a32 - (1LL << 32) : a32;
        const int64_t w[3] = {hg_word_of(h, a32), hg_word_of(h, a31),
                              hg_word_of(h, s32)};
        for (unsigned m = 0; m < 3; m++) {
            if (idx >= w[m] - HG_NEAR && idx <= w[m] + HG_NEAR) {
                return hg_whyname[HG_MOD32 + m];
            }
        }
    }
    return hg_whyname[h->why[e]];
}

static int hg_check(hg *h) {
    const uint64_t off = h->off;
    const unsigned width = h->width, W = h->W;
    for (unsigned e = 0; e < h->n; e++) {
        const uint64_t g = ldw(hg_addr(h, h->idx[e]), h->wb);
        const uint64_t x = h->exp[e];
        if (g == x) {
            continue;
        }
        unsigned i = 0;
        while (((g >> (W - 1 - i)) & 1) == ((x >> (W - 1 - i)) & 1)) {
            i++;
        }
        const int64_t p = h->idx[e] * (int64_t)W + (int64_t)i;
        const int inside = p >= (int64_t)off && p < (int64_t)(off + width);
        const int cross = off / W != (off + width - 1) / W;
        return vf_fail(
            h->rep, hg_site(h, "set"), inside ? "stored" : "isolation",
            "%s sparse stream: write of %u bits (0x%llx) at bit %llu (word "
            "%llu bit %llu%s): word %lld (%s) is 0x%llx, model 0x%llx; first "
            "wrong stream bit %lld is %s the written range [%llu,%llu)",
            h->o->name, width, U(h->value), U(off), U(off / W), U(off % W),
            cross ? ", crossing into the next word" : "", (long long)h->idx[e],
            hg_relation(h, e), U(g), U(x), (long long)p,
            inside ? "inside" : "outside", U(off), U(off + width));
    }
    return 0;
}

/* one write with oracles (a) (b) (c); `splitsel` chooses the second split */
static int hg_write(hg *h, uint64_t off, unsigned width, uint64_t value,
                    uint64_t splitsel) {
    const unsigned W = h->W;
    const uint64_t last = off + width - 1;
    const int cross = off / W != last / W;
    if (hg_watch_write(h, off, width)) {
        return 1;
    }
    if (h->full) {
        return 0; /* no room to model this write: not performed */
    }
    {
        char cls[40];
        const char *shape = cross ? "cross" : width == W ? "fullword" : "single";
        snprintf(cls, sizeof(cls), "%s.huge.%s", h->o->name, shape);
        vf_class(cls);
        if (last >= (1ULL << 32)) {
            snprintf(cls, sizeof(cls), "%s.huge.%s.ge32", h->o->name,
                     cross ? "cross" : "single");
            vf_class(cls);
        } else if (last >= (1ULL << 31)) {
            snprintf(cls, sizeof(cls), "%s.huge.%s.ge31", h->o->name,
                     cross ? "cross" : "single");
            vf_class(cls);
        }
        if ((off >> 32) != (last >> 32)) {
            snprintf(cls, sizeof(cls), "%s.huge.span32", h->o->name);
            vf_class(cls);
        } else if ((off >> 31) != (last >> 31)) {
            snprintf(cls, sizeof(cls), "%s.huge.span31", h->o->name);
            vf_class(cls);
        }
    }
    if (last >= (1ULL << 31)) {
        vf_nontrivial(vf_mix(vf_mix(vf_mix(vf_mix(0x4855u + W, off), width), value),
                             h->fill));
    }
    h->off = off;
    h->width = width;
    h->value = value;
    h->nwrites++;
    if (!layout_documented(h->o)) {
        /* API-level judgement (see c11_bitstream.c): the words that overlap
         * the range are adopted as they are once the bits of those words
         * before and after the range read the same as before the write and
         * the range reads back; every other watched word must equal the
         * model.  No split re-read: how a field decomposes into narrower
         * fields is a statement about the stored bit order. */
        const uint64_t ws = off / W * W, we = (last / W + 1) * W;
        const unsigned pre = (unsigned)(off - ws);
        const unsigned suf = (unsigned)(we - (off + width));
        const uint64_t pre0 = pre ? h->o->get(h->base, (size_t)ws, pre) : 0;
        const uint64_t suf0 =
            suf ? h->o->get(h->base, (size_t)(off + width), suf) : 0;
        h->o->set(h->base, (size_t)off, width, value);
        for (int64_t wi = (int64_t)(off / W); wi <= (int64_t)(last / W); wi++) {
            const int e = hg_find(h, wi);
            h->exp[e] = ldw(hg_addr(h, wi), h->wb);
        }
        if (hg_check(h)) {
            return 1;
        }
        const uint64_t got = h->o->get(h->base, (size_t)off, width);
        if (got != value) {
            return vf_fail(h->rep, hg_site(h, "get"), "readback",
                           "%s sparse stream: wrote %u bits 0x%llx at bit %llu, "
                           "Get of the same range returned 0x%llx",
                           h->o->name, width, U(value), U(off), U(got));
        }
        const uint64_t pre1 = pre ? h->o->get(h->base, (size_t)ws, pre) : 0;
        const uint64_t suf1 =
            suf ? h->o->get(h->base, (size_t)(off + width), suf) : 0;
        if (pre1 != pre0 || suf1 != suf0) {
            return vf_fail(h->rep, hg_site(h, "set"), "isolation",
                           "%s sparse stream: write of %u bits (0x%llx) at bit "
                           "%llu changed the bits %s it in the same word "
                           "(0x%llx -> 0x%llx)",
                           h->o->name, width, U(value), U(off),
                           pre1 != pre0 ? "before" : "after",
                           U(pre1 != pre0 ? pre0 : suf0),
                           U(pre1 != pre0 ? pre1 : suf1));
        }
        return 0;
    }
    h->o->set(h->base, (size_t)off, width, value);
    {
        int64_t cw = INT64_MIN;
        int ce = -1;
        for (unsigned i = 0; i < width; i++) {
            const uint64_t p = off + i;
            const int64_t wi = (int64_t)(p / W);
            if (wi != cw) {
                cw = wi;
                ce = hg_find(h, wi);
            }
            const unsigned b = W - 1 - (unsigned)(p % W);
            const uint64_t bit = (value >> (width - 1 - i)) & 1;
            h->exp[ce] = (h->exp[ce] & ~(1ULL << b)) | (bit << b);
        }
    }
    if (hg_check(h)) {
        return 1;
    }
    const uint64_t got = h->o->get(h->base, (size_t)off, width);
    if (got != value) {
        return vf_fail(h->rep, hg_site(h, "get"), "readback",
                       "%s sparse stream: %u bits at bit %llu (word %llu bit "
                       "%llu%s) hold 0x%llx (all watched words equal the "
                       "model), Get returned 0x%llx",
                       h->o->name, width, U(off), U(off / W), U(off % W),
                       cross ? ", crossing" : "", U(value), U(got));
    }
    if (width >= 2) {
        unsigned sp[2];
        sp[0] = cross ? W - (unsigned)(off % W) : width / 2;
        sp[1] = 1 + (unsigned)(splitsel % (width - 1));
        for (unsigned k = 0; k < 2; k++) {
            const unsigned s = sp[k];
            if (k == 1 && s == sp[0]) {
                break;
            }
            const uint64_t a = h->o->get(h->base, (size_t)off, s);
            const uint64_t b = h->o->get(h->base, (size_t)(off + s), width - s);
            const uint64_t both = (a << (width - s)) | b;
            if (both != value) {
                return vf_fail(
                    h->rep, hg_site(h, "get"), "split",
                    "%s sparse stream: %u bits at bit %llu hold 0x%llx (all "
                    "watched words equal the model, Get of the whole field "
                    "agrees); read as %u bits at %llu (0x%llx) followed by %u "
                    "bits at %llu (0x%llx) they give 0x%llx",
                    h->o->name, width, U(off), U(value), s, U(off), U(a),
                    width - s, U(off + s), U(b), U(both));
            }
        }
    }
    return 0;
}

/* oracle (d) and return of the mapping to zeros */
static int hg_close(hg *h, int check) {
    int bad = 0;
#if SIZE_MAX > 0xffffffffu
    if (check && hg_vec) {
        const size_t npages = hg_maplen / hg_pagesz;
        if (mincore(hg_map, hg_maplen, hg_vec) != 0) {
            vf_class("huge.scan.unavailable");
        } else {
            size_t resident = 0;
            for (size_t pg = 0; pg < npages && !bad; pg++) {
                if ((pg & 7) == 0 && pg + 8 <= npages) {
                    uint64_t v8;
                    memcpy(&v8, hg_vec + pg, 8);
                    if ((v8 & 0x0101010101010101ULL) == 0) {
                        pg += 7;
                        continue;
                    }
                }
                if (!(hg_vec[pg] & 1)) {
                    continue;
                }
                if (++resident > 4096) {
                    vf_class("huge.scan.toomany");
                    break;
                }
                const uint8_t *p = hg_map + pg * hg_pagesz;
                for (size_t k = 0; k < hg_pagesz && !bad; k += 8) {
                    uint64_t c;
                    memcpy(&c, p + k, 8);
                    if (c == 0) {
                        continue;
                    }
                    for (size_t j = 0; j < 8 && !bad; j += h->wb) {
                        const uint64_t v = ldw(p + k + j, h->wb);
                        if (v == 0) {
                            continue;
                        }
                        const int64_t idx =
                            ((int64_t)(p + k + j - hg_map) - (int64_t)HG_LEAD_BYTES) /
                            (int64_t)h->wb;
                        if (hg_find(h, idx) >= 0) {
                            continue;
                        }
                        bad = vf_fail(
                            h->rep, hg_site(h, "scan"), "isolation",
                            "%s sparse stream: after %u writes word %lld "
                            "(stream bits %lld..%lld) holds 0x%llx; it overlaps "
                            "no written range, is not next to one, and the "
                            "memory was fresh (zero); last write: %u bits "
                            "(0x%llx) at bit %llu",
                            h->o->name, h->nwrites, (long long)idx,
                            (long long)(idx * (int64_t)h->W),
                            (long long)(idx * (int64_t)h->W + h->W - 1), U(v),
                            h->width, U(h->value), U(h->off));
                    }
                }
            }
            vf_class("huge.scan");
        }
    }
    hg_reset_mapping();
#else
    (void)h;
    (void)check;
#endif
    return bad;
}

/* ------------------------------------------------------------ record decode */
enum { HG_A32 = 0, HG_A33, HG_A31, HG_A3x31, HG_ARND, HG_ARND32, HG_ALOW, HG_A32FAR };
static const char *const hg_anchorname[8] = {
    "huge.at.2^32",   "huge.at.2^33",        "huge.at.2^31", "huge.at.3*2^31",
    "huge.at.random", "huge.at.random.ge32", "huge.at.low",  "huge.at.2^32.far"};

static uint64_t hg_rec_offset(unsigned W, unsigned width, unsigned lo,
                              unsigned hi, uint64_t raw) {
    const uint64_t r = vf_mix(vf_mix(0x616e63ULL, raw), lo | (hi << 8));
    int64_t anchor;
    switch (hi & 7) {
    case HG_A32:
        anchor = 1LL << 32;
        break;
    case HG_A33:
        anchor = 1LL << 33;
        break;
    case HG_A31:
        anchor = 1LL << 31;
        break;
    case HG_A3x31:
        anchor = 3LL << 31;
        break;
    case HG_ARND:
        anchor = (int64_t)(r % ((1ULL << 33) / W)) * W;
        break;
    case HG_ARND32:
        anchor = (1LL << 32) + (int64_t)(r % ((1ULL << 32) / W)) * W;
        break;
    case HG_ALOW:
        anchor = (int64_t)(r % 64) * W;
        break;
    default:
        anchor = (1LL << 32) + ((int64_t)(r % 2048) - 1024) * W;
        break;
    }
    vf_class(hg_anchorname[hi & 7]);
    const unsigned in = width >= 2 ? 1 + lo % (width - 1) : 1;
    int64_t off;
    switch ((hi >> 3) & 3) {
    case 0: /* anywhere within two 64-bit words of the anchor */
        off = anchor + (int64_t)lo - 128;
        break;
    case 1: /* straddling the anchor */
        off = anchor - (int64_t)in;
        break;
    case 2: /* straddling a word boundary shortly after the anchor */
        off = anchor + (int64_t)W * (1 + (lo >> 6)) -
              (int64_t)(width >= 2 ? 1 + (lo & 63) % (width - 1) : 1);
        break;
    default: /* ending or starting exactly at a word boundary at/before it */
        off = anchor - (int64_t)W * ((lo >> 1) & 3) -
              ((lo & 1) ? 0 : (int64_t)width);
        break;
    }
    if (off < 0) {
        off = -off;
    }
    if ((uint64_t)off + width > HG_STREAM_BITS) {
        off = (int64_t)(HG_STREAM_BITS - width);
    }
    return (uint64_t)off;
}
