/* C11 instantiation: the default word type (neither VBITS nor VBITSVAL
 * defined: both are uint64_t) */
#define C11_TAG u64
#define C11_BITS 64
#define C11_SIGNED int64_t
#include "c11_bitstream_inst.h"
