/* C06 - adaptive encoding is lossless whatever it selects.
 *
 * case layout
 *   mode:1      generator (mode & 15), or the 0xC6 0x6D escape of the > 1 MiB
 *               DICT class (thorough tier; on the quick tier only with the
 *               third magic byte 0xD1, which is how the known-finding witness
 *               replays everywhere)
 *   size:1      size class: small (default) / medium (<= 4200) / large
 *               (4201 .. 70000, thorough 100000; fixed small share)
 *   forced:1    without a history: bit0..4 force DELTA/FOR/PFOR/DICT/TAGGED
 *               after the automatic round trip, bit5 forces BITMAP when the
 *               array is strictly increasing below 65536 (the harness checks
 *               that itself); with a history: the request of the first step
 *   ...         generator arguments (see the gen_* functions); the "steer"
 *               generators take the thresholds of the selection tree as
 *               arguments (target distinct count relative to 0.15 n / 0.9 n,
 *               average delta relative to 1000 and min/10, outlier count
 *               relative to 0.05 n, range relative to 100 n and 2^64/95, maximum
 *               relative to 65536, length relative to 10000, sampled distinct
 *               count for n > 10000); generator 11 ("pair") appends op:1 cst:u64
 *               for a second array of the same length
 *   meta:1      how the caller holds the varintAdaptiveMeta object (documented
 *               as optional OUTPUT): bits0..2 fresh zeroed / NULL / fresh
 *               poisoned (+ byte:1) / fresh with the count in every 32-bit
 *               word / ... 64-bit word / ONE object reused by every call of
 *               the case (first zeroed, poisoned (+ byte:1), count-stamped);
 *               bit3: the decoder is handed a meta object in the same way
 *   hist:1      low nibble: number of further steps (0 for half of the
 *               values, else 1..5); bit4 deferred: every encode of the case
 *               first, then every decode
 *   step*       step:1 (bits0..2 how the array follows from the previous one:
 *               same / +c / -c / *m+c / reversed^c / unrelated values of the
 *               same length / a new array / a nearby length; bits3..5 request:
 *               auto, DELTA, FOR, PFOR, DICT, TAGGED, BITMAP-if-legal-else-FOR,
 *               same as before) + arguments
 *   A case without history is the automatic encode followed by the forced
 *   encodings of the mask on the same array; the former "pair mode" is the
 *   deferred two-step history with one request.  All calls of a case go
 *   through the same meta handling.
 *
 * oracle, at every step: varintAdaptiveDecode(buf, out, count) returns count
 * and the original sequence in order; buf[0] == meta.encodingType (read right
 * after the call, when a meta was passed) == varintAdaptiveGetEncodingType(buf)
 * (== the forced type when forced); a decoder that is handed a meta reports
 * the first byte as well.
 * Destination: varintAdaptiveMaxSize(count) + 16*count + 1024 bytes with a
 * guard behind it (the bound itself belongs to C03; outputs larger than
 * varintAdaptiveMaxSize are only counted, class `*.enc>MaxSize`). */
#include "vf.h"
#include "vf_arr.h"

#include "varintAdaptive.h"

const char *vf_prop_id = "C06";
const size_t vf_case_maxlen = 240;

#define KNOWN_DICT "C06-dict-over-1MiB"
#define MIB ((uint64_t)1024 * 1024)

/* set in the libFuzzer binary only (drv_fuzz.c defines it) */
int LLVMFuzzerTestOneInput(const uint8_t *data, size_t size)
    __attribute__((weak));

static const char *const enc_name[7] = {"DELTA", "FOR",    "PFOR", "DICT",
                                        "BITMAP", "TAGGED", "GROUP"};

typedef struct c06 {
    vf_report *rep;
} c06;

/* ----------------------------------------------------------- small helpers */
static int cmp_u64(const void *a, const void *b) {
    uint64_t x = *(const uint64_t *)a, y = *(const uint64_t *)b;
    return x < y ? -1 : x > y;
}

static uint64_t *xalloc(size_t n) {
    uint64_t *p = (uint64_t *)malloc((n ? n : 1) * sizeof(uint64_t));
    if (!p) {
        abort();
    }
    return p;
}

/* tagged varint length from the documented format (README storage table) */
static unsigned tagged_len(uint64_t v) {
    if (v <= 240) {
        return 1;
    }
    if (v <= 2287) {
        return 2;
    }
    if (v <= 67823) {
        return 3;
    }
    for (unsigned b = 3; b < 8; b++) {
        if (v < (1ULL << (8 * b))) {
            return b + 1;
        }
    }
    return 9;
}

static unsigned bytes_for(uint64_t v) {
    unsigned w = 1;
    while (w < 8 && (v >> (8 * w)) != 0) {
        w++;
    }
    return w;
}

static void reverse(uint64_t *v, size_t n) {
    for (size_t i = 0; i < n / 2; i++) {
        uint64_t t = v[i];
        v[i] = v[n - 1 - i];
        v[n - 1 - i] = t;
    }
}

static void shuffle(uint64_t *v, size_t n, uint64_t seed) {
    seed = seed * 2 + 1;
    for (size_t i = n; i > 1; i--) {
        size_t j = (size_t)(vf_xs(&seed) % i);
        uint64_t t = v[i - 1];
        v[i - 1] = v[j];
        v[j] = t;
    }
}

static const int dtab[5] = {0, 1, -1, 2, -2};

/* a + d clamped to [lo, hi] (lo <= hi) */
static size_t adj(size_t a, int d, size_t lo, size_t hi) {
    long long x = (long long)a + d;
    if (x < (long long)lo) {
        return lo;
    }
    if (x > (long long)hi) {
        return hi;
    }
    return (size_t)x;
}

/* ------------------------------------------------- statistics of the array
 * (harness-side; used for class counters and for the > 1 MiB predicate, never
 * as an oracle for the selection itself) */
typedef struct st {
    size_t n, uniq, uniqEst, outl;
    uint64_t min, max, range, avgDelta;
    int asc, desc, strict16, ovf95;
    uint64_t dictBytes; /* DICT payload size by the harness's own arithmetic;
                           0 when n is too small for it to exceed 1 MiB */
} st;

static void stats(const uint64_t *v, size_t n, st *s) {
    memset(s, 0, sizeof(*s));
    s->n = n;
    uint64_t *sorted = xalloc(n);
    memcpy(sorted, v, n * sizeof(uint64_t));
    qsort(sorted, n, sizeof(uint64_t), cmp_u64);
    s->min = sorted[0];
    s->max = sorted[n - 1];
    s->range = s->max - s->min;
    s->uniq = 1;
    for (size_t i = 1; i < n; i++) {
        s->uniq += sorted[i] != sorted[i - 1];
    }
    s->asc = s->desc = 1;
    int strict = 1;
    uint64_t total = 0;
    for (size_t i = 1; i < n; i++) {
        if (v[i] < v[i - 1]) {
            s->asc = 0;
        }
        if (v[i] > v[i - 1]) {
            s->desc = 0;
        }
        if (v[i] <= v[i - 1]) {
            strict = 0;
        }
        total += v[i] > v[i - 1] ? v[i] - v[i - 1] : v[i - 1] - v[i];
    }
    s->strict16 = strict && s->max < 65536;
    s->avgDelta = n > 1 ? total / (n - 1) : 0;
    s->ovf95 = s->range > UINT64_MAX / 95;
    if (s->range > 0) {
        /* the documented "top 5 % of the range" with 64-bit arithmetic */
        uint64_t thr = s->min + (s->range * 95) / 100;
        for (size_t i = 0; i < n; i++) {
            s->outl += v[i] > thr;
        }
    }
    s->uniqEst = s->uniq;
    if (n > 10000 && !s->asc && !s->desc) {
        /* above 10000 values the header documents an estimate from a sample
         * of every (count / sampleSize)-th value (monotone input can be and,
         * since the repair of the sorted-input analysis, is counted exactly) */
        size_t ss = n / 10, step = n / ss;
        uint64_t *smp = xalloc(ss);
        for (size_t i = 0; i < ss; i++) {
            smp[i] = v[i * step];
        }
        qsort(smp, ss, sizeof(uint64_t), cmp_u64);
        size_t us = 1;
        for (size_t i = 1; i < ss; i++) {
            us += smp[i] != smp[i - 1];
        }
        free(smp);
        s->uniqEst = us * n / ss;
        if (s->uniqEst > n) {
            s->uniqEst = n;
        }
    }
    if ((uint64_t)n * 12 + 27 > MIB) {
        /* [dict size][entries][count][indices], tagged / fixed width */
        uint64_t b = tagged_len(s->uniq) + tagged_len(n);
        for (size_t i = 0; i < n; i++) {
            if (i == 0 || sorted[i] != sorted[i - 1]) {
                b += tagged_len(sorted[i]);
            }
        }
        b += (uint64_t)n * bytes_for(s->uniq - 1);
        s->dictBytes = b;
    }
    free(sorted);
}

static int flips(float a, float b, float t, int greater) {
    return greater ? ((a > t) != (b > t)) : ((a < t) != (b < t));
}

static void branch_classes(const st *s) {
    size_t n = s->n;
    if (n == 1) {
        vf_class("br.n=1");
        return;
    }
    float fn = (float)n;
    float ratio = (float)s->uniqEst / fn;
    vf_class(ratio < 0.15f ? "br.uniq<0.15"
             : ratio > 0.9f ? "br.uniq>0.9"
                            : "br.uniq0.15-0.9");
    vf_class(s->max < 65536 ? "br.max<65536" : "br.max>=65536");
    vf_class(s->asc && s->desc ? "br.const"
             : s->asc          ? "br.asc"
             : s->desc         ? "br.desc"
                               : "br.unsorted");
    vf_class(n < 10000    ? "br.count<10000"
             : n == 10000 ? "br.count=10000"
                          : "br.count>10000");
    if (n > 10000 && !s->asc && !s->desc) {
        vf_class("br.count>10000.sampled");
        float exact = (float)s->uniq / fn;
        if ((exact < 0.15f) != (ratio < 0.15f)) {
            vf_class("br.sampled.misjudged0.15");
        }
        if ((exact > 0.9f) != (ratio > 0.9f)) {
            vf_class("br.sampled.misjudged0.9");
        }
    }
    int sorted = s->asc || s->desc;
    if (s->max < 65536 && ratio > 0.9f && sorted && s->range > 0) {
        if (n < 10000) {
            float den = fn / (float)s->range;
            vf_class(den > 0.05f ? "br.density>0.05" : "br.density<=0.05");
            if (s->range > 2 &&
                flips(fn / (float)(s->range - 2), fn / (float)(s->range + 2),
                      0.05f, 1)) {
                vf_class("edge.density0.05");
            }
            if (s->desc && !s->asc) {
                vf_class("br.bitmapGate.desc");
            }
            if (s->uniq < n) {
                vf_class("br.bitmapGate.duplicates");
            }
        } else {
            vf_class("br.bitmapGate.count>=10000");
        }
    }
    if (ratio >= 0.15f) {
        if (sorted) {
            vf_class(s->avgDelta < 1000 ? "br.avgDelta<1000"
                                        : "br.avgDelta>=1000");
            if (s->min > 0) {
                vf_class(s->avgDelta < s->min / 10 ? "br.avgDelta<min/10"
                                                   : "br.avgDelta>=min/10");
                if (s->avgDelta + 1 >= s->min / 10 &&
                    s->avgDelta <= s->min / 10 + 1) {
                    vf_class("edge.avgDeltaMin10");
                }
            } else {
                vf_class("br.min=0");
            }
            if (s->avgDelta >= 998 && s->avgDelta <= 1001) {
                vf_class("edge.avgDelta1000");
            }
        }
        if (s->range == 0) {
            vf_class("br.range=0");
        } else {
            float orat = (float)s->outl / fn;
            vf_class(orat < 0.05f ? "br.outlier<0.05" : "br.outlier>=0.05");
            if (flips((float)(s->outl > 2 ? s->outl - 2 : 0) / fn,
                      (float)(s->outl + 2) / fn, 0.05f, 0)) {
                vf_class("edge.outlier0.05");
            }
            vf_class(s->range < (uint64_t)n * 100 ? "br.range<100n"
                                                  : "br.range>=100n");
            if (s->range + 2 >= (uint64_t)n * 100 &&
                s->range <= (uint64_t)n * 100 + 2) {
                vf_class("edge.range100n");
            }
        }
    }
    if (s->ovf95) {
        vf_class("br.range95.overflow");
    }
    if (s->range + 2 >= UINT64_MAX / 95 && s->range - 2 <= UINT64_MAX / 95) {
        vf_class("edge.range95.overflow");
    }
    if (flips((float)(s->uniqEst > 2 ? s->uniqEst - 2 : 0) / fn,
              (float)(s->uniqEst + 2) / fn, 0.15f, 0)) {
        vf_class("edge.uniq0.15");
    }
    if (flips((float)(s->uniqEst > 2 ? s->uniqEst - 2 : 0) / fn,
              (float)(s->uniqEst + 2) / fn, 0.9f, 1)) {
        vf_class("edge.uniq0.9");
    }
    if (n >= 9998 && n <= 10002) {
        vf_class("edge.count10000");
    }
    if (s->max >= 65534 && s->max <= 65537) {
        vf_class("edge.max65536");
    }
    if (s->dictBytes) {
        vf_class(s->dictBytes > MIB ? "br.dictBytes>1MiB"
                                    : "br.dictBytes<=1MiB.bigArray");
        if (s->dictBytes + 4096 > MIB && s->dictBytes < MIB + 4096) {
            vf_class("edge.dict1MiB");
        }
    }
}

/* ----------------------------------------------------------- meta handling
 * The varintAdaptiveMeta parameter of the encoders and of the decoder is
 * documented as "optional output metadata (can be NULL)".  Every way a caller
 * may legally hold that object is therefore a dimension of every case:
 *   zero     a fresh zeroed object per call
 *   null     NULL
 *   poison   a fresh object per call filled with a generated byte (what an
 *            uninitialised stack object looks like, made deterministic)
 *   stamp32  a fresh object whose every 32-bit word holds the element count
 *   stamp64  ... every 64-bit word ...
 *   reused   ONE object handed to every call of the case (and to the decoder
 *            when the case says so); before the first call it is zeroed,
 *            poisoned or stamped
 * The harness fills every object completely before the library sees it and
 * only reads `encodingType` back after a successful call, so it never reads
 * uninitialised memory itself. */
enum { MM_ZERO = 0, MM_NULL, MM_POISON, MM_STAMP32, MM_STAMP64, MM_REUSED };
static const char *const mm_name[6] = {"zero",    "null",    "poison",
                                       "stamp32", "stamp64", "reused"};

typedef struct mctx {
    unsigned mode;  /* MM_* */
    unsigned init;  /* MM_REUSED: state before the first call (MM_ZERO,
                       MM_POISON, MM_STAMP32, MM_STAMP64) */
    uint8_t pbyte;  /* poison byte */
    int dec;        /* the decoder is handed a meta object too (same mode) */
    int live;       /* `shared` has been initialised */
    varintAdaptiveMeta shared;
    /* the harness's own record of which encode last wrote the union of
     * `shared` (class counters only, never an oracle) */
    int utype;
    size_t un;
    uint64_t umin;
    unsigned uwidth;
} mctx;

static void meta_fill(varintAdaptiveMeta *m, unsigned how, uint8_t pb,
                      size_t n) {
    unsigned char *p = (unsigned char *)m;
    switch (how) {
    case MM_POISON:
        memset(m, pb, sizeof(*m));
        break;
    case MM_STAMP32: {
        uint32_t w = (uint32_t)n;
        memset(m, 0, sizeof(*m));
        for (size_t i = 0; i + sizeof(w) <= sizeof(*m); i += sizeof(w)) {
            memcpy(p + i, &w, sizeof(w));
        }
        break;
    }
    case MM_STAMP64: {
        uint64_t w = (uint64_t)n;
        memset(m, 0, sizeof(*m));
        for (size_t i = 0; i + sizeof(w) <= sizeof(*m); i += sizeof(w)) {
            memcpy(p + i, &w, sizeof(w));
        }
        break;
    }
    default:
        memset(m, 0, sizeof(*m));
        break;
    }
}

/* the object for one call: NULL, the shared object, or `fresh` (filled) */
static varintAdaptiveMeta *meta_for(mctx *m, varintAdaptiveMeta *fresh,
                                    size_t n) {
    switch (m->mode) {
    case MM_NULL:
        return NULL;
    case MM_REUSED:
        if (!m->live) {
            meta_fill(&m->shared, m->init, m->pbyte, n);
            m->live = 1;
        }
        return &m->shared;
    default:
        meta_fill(fresh, m->mode, m->pbyte, n);
        return fresh;
    }
}

static void take_meta(vf_rd *r, mctx *m) {
    memset(m, 0, sizeof(*m));
    m->utype = -1;
    uint8_t mb = vf_u8(r);
    switch (mb & 7) {
    case 0:
        m->mode = MM_ZERO;
        break;
    case 1:
        m->mode = MM_NULL;
        break;
    case 2:
        m->mode = MM_POISON;
        break;
    case 3:
        m->mode = MM_STAMP32;
        break;
    case 4:
        m->mode = MM_STAMP64;
        break;
    case 5:
        m->mode = MM_REUSED;
        m->init = MM_ZERO;
        break;
    case 6:
        m->mode = MM_REUSED;
        m->init = MM_POISON;
        break;
    default:
        m->mode = MM_REUSED;
        m->init = (mb & 0x10) ? MM_STAMP32 : MM_STAMP64;
        break;
    }
    m->dec = (mb >> 3) & 1;
    m->pbyte = 0xA5;
    if (m->mode == MM_POISON || (m->mode == MM_REUSED && m->init == MM_POISON)) {
        static const uint8_t fav[4] = {0xA5, 0xFF, 0x01, 0x80};
        uint8_t pb = vf_u8(r);
        m->pbyte = pb < 4 ? fav[pb] : pb;
    }
    char cls[48];
    snprintf(cls, sizeof(cls), "meta.%s", mm_name[m->mode]);
    vf_class(cls);
    if (m->mode == MM_REUSED) {
        snprintf(cls, sizeof(cls), "meta.reused.init-%s", mm_name[m->init]);
        vf_class(cls);
    }
    vf_class(m->dec && m->mode != MM_NULL ? "meta.decode.passed"
                                          : "meta.decode.null");
}

static void meta_describe(vf_report *rep, const mctx *m) {
    if (m->mode == MM_POISON) {
        vf_desc(rep, " meta=poison(0x%02x)", m->pbyte);
    } else if (m->mode == MM_REUSED && m->init == MM_POISON) {
        vf_desc(rep, " meta=reused(first poison 0x%02x)", m->pbyte);
    } else if (m->mode == MM_REUSED) {
        vf_desc(rep, " meta=reused(first %s)", mm_name[m->init]);
    } else {
        vf_desc(rep, " meta=%s", mm_name[m->mode]);
    }
    if (m->dec && m->mode != MM_NULL) {
        vf_desc(rep, "+decoder");
    }
}

/* ---------------------------------------------------------- the round trip */
typedef struct job {
    const uint64_t *v;
    size_t n;
    const st *s;
    int forced; /* -1 = automatic selection */
    const char *prefix;
    unsigned stepno; /* position in the history of the case */
    uint64_t ctxhash; /* hash of the preceding steps (distinctness only) */
    uint8_t *buf;
    size_t cap, enc;
    unsigned type;
    varintAdaptiveMeta meta; /* the fresh object of this call */
    varintAdaptiveMeta *mp;  /* what the encoder was handed */
    unsigned mt;             /* mp->encodingType right after the call */
    unsigned t0;             /* first output byte right after the call */
    /* what the harness knew about the shared object before this call */
    int pre_live, pre_utype;
    size_t pre_un;
    uint64_t pre_umin;
    unsigned pre_uwidth;
} job;

static void job_encode(mctx *m, job *j) {
    /* worst legitimate output: PFOR with every value an exception is
     * 22 n + 28 bytes, DICT with all values distinct 13 n + 18 */
    j->cap = varintAdaptiveMaxSize(j->n) + j->n * 16 + 1024;
    j->buf = (uint8_t *)vf_exact_alloc(j->cap);
    j->buf[0] = 0xEE;
    j->type = 0xEE;
    j->pre_live = m->live;
    j->pre_utype = m->utype;
    j->pre_un = m->un;
    j->pre_umin = m->umin;
    j->pre_uwidth = m->uwidth;
    j->mp = meta_for(m, &j->meta, j->n);
    if (j->forced < 0) {
        j->enc = varintAdaptiveEncode(j->buf, j->v, j->n, j->mp);
    } else {
        j->enc = varintAdaptiveEncodeWith(
            j->buf, j->v, j->n, (varintAdaptiveEncodingType)j->forced, j->mp);
    }
    /* the reported choice has to be read now: the next call of a history may
     * go through the same object */
    j->mt = j->mp ? (unsigned)j->mp->encodingType : 0xEE;
    j->t0 = j->enc ? j->buf[0] : 0xEE;
    if (j->mp == &m->shared && j->enc != 0) {
        if (j->buf[0] == VARINT_ADAPTIVE_FOR) {
            m->utype = VARINT_ADAPTIVE_FOR;
            m->un = j->n;
            m->umin = j->s->min;
            m->uwidth = bytes_for(j->s->range);
        } else if (j->buf[0] == VARINT_ADAPTIVE_PFOR) {
            m->utype = VARINT_ADAPTIVE_PFOR;
            m->un = j->n;
        }
    }
}

/* header, decode, compare; frees the buffer */
static void job_verify(c06 *c, mctx *m, job *j, int first_of_case) {
    vf_report *rep = c->rep;
    char site[64];
    size_t n = j->n;
    uint64_t *out = NULL;
    if (!first_of_case) {
        vf_evals(1);
    }
    snprintf(site, sizeof(site), "%s.encode", j->prefix);
    size_t dmg = vf_exact_check(j->buf);
    if (dmg) {
        vf_fail(rep, site, "canary",
                "step %u n=%zu: encoder wrote past "
                "varintAdaptiveMaxSize(n)+16n+1024 = %zu bytes (guard byte "
                "%zu damaged)",
                j->stepno, n, j->cap, dmg);
        goto done;
    }
    if (j->enc == 0 || j->enc > j->cap) {
        vf_fail(rep, site, "length",
                "step %u n=%zu %s: encoder returned %zu (capacity %zu)",
                j->stepno, n, j->forced < 0 ? "auto" : enc_name[j->forced],
                j->enc, j->cap);
        goto done;
    }
    j->type = j->buf[0];
    snprintf(site, sizeof(site), "%s.type", j->prefix);
    {
        unsigned mt = j->mp ? j->mt : j->type;
        unsigned gt = (unsigned)varintAdaptiveGetEncodingType(j->buf);
        /* any member of varintAdaptiveEncodingType may be named (GROUP is
         * declared in the enum; which encodings the analysis picks is not
         * this property's business) - what must hold is the agreement */
        if (j->type > VARINT_ADAPTIVE_GROUP || mt != j->type ||
            gt != j->type || (j->forced >= 0 && j->type != (unsigned)j->forced)) {
            vf_fail(rep, site, "header",
                    "step %u n=%zu: first byte %u, meta.encodingType %u%s, "
                    "GetEncodingType %u, requested %d (-1 = automatic)",
                    j->stepno, n, j->type, mt,
                    j->mp ? "" : " (no meta passed)", gt, j->forced);
            goto done;
        }
    }
    const char *name = enc_name[j->type];
    {
        char cls[48];
        snprintf(cls, sizeof(cls), "%s.%s", j->forced < 0 ? "auto" : "forced",
                 name);
        vf_class(cls);
        if (n > 10000) {
            snprintf(cls, sizeof(cls), "%s.%s.n>10000",
                     j->forced < 0 ? "auto" : "forced", name);
            vf_class(cls);
        }
        if (j->enc > varintAdaptiveMaxSize(n)) {
            /* diagnostic only: the advertised bound is C03's property */
            snprintf(cls, sizeof(cls), "%s.enc>MaxSize.%s",
                     j->forced < 0 ? "auto" : "forced", name);
            vf_class(cls);
        }
    }
    /* known finding: the adaptive decoder hands the dictionary decoder a fixed
     * input length of 1 MiB.  Predicate: DICT payload size computed by the
     * harness from the array alone exceeds 1 MiB, and the encoding in use is
     * DICT (for automatic selection that one bit is read from the header). */
    if (j->type == VARINT_ADAPTIVE_DICT && j->s->dictBytes > MIB) {
        vf_class("dict.payload>1MiB");
        if (vf_known(KNOWN_DICT)) {
            vf_class("excluded." KNOWN_DICT);
            goto done;
        }
    }
    out = (uint64_t *)vf_exact_alloc(n * sizeof(uint64_t));
    memset(out, 0x5A, n * sizeof(uint64_t));
    varintAdaptiveMeta dmeta, *dp = NULL;
    if (m->dec && m->mode != MM_NULL) {
        dp = meta_for(m, &dmeta, n);
    }
    size_t got = varintAdaptiveDecode(j->buf, out, n, dp);
    if (dp == &m->shared && j->type == VARINT_ADAPTIVE_PFOR) {
        m->utype = VARINT_ADAPTIVE_PFOR; /* the decoder stores what it parsed */
        m->un = n;
    }
    snprintf(site, sizeof(site), "%s.%s.decode", j->prefix, name);
    dmg = vf_exact_check(out);
    if (dmg) {
        vf_fail(rep, site, "canary",
                "step %u n=%zu: decoder wrote past the %zu-value output array",
                j->stepno, n, n);
        goto done;
    }
    if (got != n) {
        vf_fail(rep, site, "count",
                "step %u n=%zu encoded as %s in %zu bytes: decoder returned "
                "%zu values (first values %llu,%llu)",
                j->stepno, n, name, j->enc, got, (unsigned long long)j->v[0],
                (unsigned long long)(n > 1 ? j->v[1] : 0));
        goto done;
    }
    if (memcmp(out, j->v, n * sizeof(uint64_t)) != 0) {
        size_t i = 0;
        while (i < n && out[i] == j->v[i]) {
            i++;
        }
        vf_fail(rep, site, "value",
                "step %u n=%zu encoded as %s: value[%zu] = %llu decoded as %llu "
                "(value[%zu] = %llu decoded as %llu)",
                j->stepno, n, name, i, (unsigned long long)j->v[i],
                (unsigned long long)out[i], i ? i - 1 : (n > 1 ? 1 : 0),
                (unsigned long long)j->v[i ? i - 1 : (n > 1 ? 1 : 0)],
                (unsigned long long)out[i ? i - 1 : (n > 1 ? 1 : 0)]);
        goto done;
    }
    if (dp && (unsigned)dp->encodingType != j->type) {
        snprintf(site, sizeof(site), "%s.decode.type", j->prefix);
        vf_fail(rep, site, "header",
                "step %u n=%zu: the decoder reports encodingType %u for a "
                "stream whose first byte is %u",
                j->stepno, n, (unsigned)dp->encodingType, j->type);
        goto done;
    }
    if ((n >= 2 && j->type != VARINT_ADAPTIVE_TAGGED) || n > 10000) {
        uint64_t h = vf_hash_bytes(0xcbf29ce484222325ULL, j->v,
                                   n * sizeof(uint64_t));
        h = vf_mix(vf_mix(h, j->type), (uint64_t)(j->forced + 1));
        vf_nontrivial(vf_mix(vf_mix(h, m->mode * 2u + (dp != NULL)),
                             j->ctxhash));
    }
done:
    vf_exact_free(out);
    vf_exact_free(j->buf);
    j->buf = NULL;
}

#define F_DELTA 1u
#define F_FOR 2u
#define F_PFOR 4u
#define F_DICT 8u
#define F_TAGGED 16u
#define F_BITMAP 32u
#define F_NOAUTO 64u

/* ------------------------------------------------------------------ steps
 * A case is a list of steps, each one encode request on one array:
 *   - without a history: the automatic encode of the array followed by every
 *     forced encoding of the mask, in enumeration order;
 *   - with a history: 2..6 single requests on (mostly equal-length) arrays.
 * All steps of a case share one meta context.  `defer` = every encode first,
 * then every decode (the former "pair mode" is the two-step deferred history
 * with the same request). */
#define MAX_STEPS 8

typedef struct step {
    const uint64_t *v;
    size_t n;
    const st *s;
    int req; /* -1 = automatic */
} step;

static void hist_before(const mctx *m, const job *j, const step *sp,
                        unsigned i) {
    const step *a = &sp[i - 1], *b = &sp[i];
    if (b->n == a->n) {
        vf_class("hist.samelen");
        if (b->v == a->v) {
            vf_class("hist.samelen.samearray");
        } else if (b->s->min != a->s->min ||
                   bytes_for(b->s->range) != bytes_for(a->s->range)) {
            vf_class("hist.samelen.newframe");
            if (b->s->min < a->s->min) {
                vf_class("hist.samelen.lowermin");
            }
            if (bytes_for(b->s->range) > bytes_for(a->s->range)) {
                vf_class("hist.samelen.wider");
            }
        }
    } else {
        vf_class("hist.difflen");
        vf_class(b->n < a->n ? "hist.shorter" : "hist.longer");
    }
    if (a->s->strict16 && !b->s->strict16) {
        vf_class("hist.nonset-after-set");
    }
    vf_class(b->req < 0 ? (a->req < 0 ? "hist.auto-after-auto"
                                      : "hist.auto-after-forced")
                        : (a->req < 0 ? "hist.forced-after-auto"
                                      : "hist.forced-after-forced"));
    /* the shared object still holds the FOR frame of an earlier array of the
     * same length and this array does not fit that frame */
    if (m->mode == MM_REUSED && j->pre_live &&
        j->pre_utype == VARINT_ADAPTIVE_FOR && j->pre_un == b->n) {
        vf_class("meta.reused.stale-for-frame.samelen");
        if (b->s->min != j->pre_umin ||
            bytes_for(b->s->range) != j->pre_uwidth) {
            vf_class(b->req == VARINT_ADAPTIVE_FOR
                         ? "meta.reused.stale-for-frame.newframe.forced-for"
                         : "meta.reused.stale-for-frame.newframe.other");
        }
    }
    if (m->mode == MM_REUSED && j->pre_live &&
        j->pre_utype == VARINT_ADAPTIVE_PFOR) {
        vf_class(j->pre_un == b->n ? "meta.reused.stale-pfor.samelen"
                                   : "meta.reused.stale-pfor.difflen");
    }
}

static void hist_after(const step *sp, unsigned i, unsigned tprev,
                       unsigned tcur) {
    const step *a = &sp[i - 1], *b = &sp[i];
    if (tprev > 6 || tcur > 6) {
        return;
    }
    vf_class(tprev == tcur ? "hist.sametype" : "hist.typechange");
    if (tprev == VARINT_ADAPTIVE_FOR && tcur == VARINT_ADAPTIVE_FOR) {
        vf_class("hist.for-after-for");
        if (a->n == b->n && a->v != b->v &&
            (b->s->min != a->s->min ||
             bytes_for(b->s->range) != bytes_for(a->s->range))) {
            vf_class("hist.for-after-for.samelen.newframe");
        }
    }
    if (tprev == VARINT_ADAPTIVE_PFOR && tcur == VARINT_ADAPTIVE_PFOR) {
        vf_class("hist.pfor-after-pfor");
        if (a->n == b->n && a->v != b->v) {
            vf_class("hist.pfor-after-pfor.samelen");
        }
    }
    if (tprev == VARINT_ADAPTIVE_BITMAP && tcur != VARINT_ADAPTIVE_BITMAP) {
        vf_class("hist.other-after-bitmap");
    }
    if (tprev == VARINT_ADAPTIVE_DICT && tcur == VARINT_ADAPTIVE_DICT &&
        a->v != b->v) {
        vf_class("hist.dict-after-dict");
    }
}

/* class counters and description of step i, after its encode */
static void step_account(c06 *c, const mctx *m, const job *jobs,
                         const step *sp, unsigned i, uint64_t *ctx) {
    const job *j = &jobs[i];
    unsigned tcur = j->t0;
    if (i > 0) {
        hist_before(m, j, sp, i);
        hist_after(sp, i, jobs[i - 1].t0, tcur);
    }
    vf_desc(c->rep, "%s%s", i ? "," : " types=",
            tcur <= 6 ? enc_name[tcur] : "?");
    *ctx = vf_mix(vf_mix(*ctx, vf_hash_bytes(tcur + 1, j->v,
                                             j->n * sizeof(uint64_t))),
                  (uint64_t)(j->forced + 1));
}

static void run_steps(c06 *c, mctx *m, const step *sp, unsigned ns, int defer,
                      int history) {
    job jobs[MAX_STEPS];
    unsigned encoded = 0, verified = 0;
    uint64_t ctx = 0;
    for (unsigned i = 0; i < ns; i++) {
        job *j = &jobs[i];
        memset(j, 0, sizeof(*j));
        j->v = sp[i].v;
        j->n = sp[i].n;
        j->s = sp[i].s;
        j->forced = sp[i].req;
        j->stepno = i;
        j->prefix = history && i > 0 ? (j->forced < 0 ? "hist.auto"
                                                      : "hist.forced")
                                     : (j->forced < 0 ? "auto" : "forced");
    }
    if (defer) {
        /* every encode first, with nothing of the harness in between but the
         * allocation of the next destination (a callee that keeps state in a
         * stale stack slot sees it undisturbed), then the bookkeeping, then
         * every decode */
        for (unsigned i = 0; i < ns; i++) {
            job_encode(m, &jobs[i]);
        }
        encoded = ns;
        for (unsigned i = 0; i < ns; i++) {
            jobs[i].ctxhash = ctx;
            step_account(c, m, jobs, sp, i, &ctx);
        }
        for (unsigned i = 0; i < ns && !c->rep->violated; i++) {
            job_verify(c, m, &jobs[i], i == 0);
            verified = i + 1;
        }
    } else {
        for (unsigned i = 0; i < ns && !c->rep->violated; i++) {
            job *j = &jobs[i];
            j->ctxhash = ctx;
            job_encode(m, j);
            encoded = i + 1;
            if (history) {
                step_account(c, m, jobs, sp, i, &ctx);
            }
            job_verify(c, m, j, i == 0);
            verified = i + 1;
            if (!history && j->forced < 0) {
                vf_desc(c->rep, " auto=%s",
                        j->type <= 6 ? enc_name[j->type] : "?");
            }
        }
    }
    for (unsigned i = verified; i < encoded; i++) {
        vf_exact_free(jobs[i].buf);
    }
}

/* automatic round trip, then every forced encoding selected by `fm`, all
 * through one meta context */
static void roundtrip(c06 *c, mctx *m, const uint64_t *v, size_t n,
                      unsigned fm) {
    st s;
    stats(v, n, &s);
    branch_classes(&s);
    step sp[MAX_STEPS];
    unsigned ns = 0;
    if (!(fm & F_NOAUTO)) {
        sp[ns++] = (step){v, n, &s, -1};
    }
    static const struct {
        unsigned bit;
        int type;
    } forced[6] = {{F_DELTA, VARINT_ADAPTIVE_DELTA},
                   {F_FOR, VARINT_ADAPTIVE_FOR},
                   {F_PFOR, VARINT_ADAPTIVE_PFOR},
                   {F_DICT, VARINT_ADAPTIVE_DICT},
                   {F_TAGGED, VARINT_ADAPTIVE_TAGGED},
                   {F_BITMAP, VARINT_ADAPTIVE_BITMAP}};
    for (unsigned k = 0; k < 6; k++) {
        if (!(fm & forced[k].bit)) {
            continue;
        }
        if (forced[k].type == VARINT_ADAPTIVE_BITMAP && !s.strict16) {
            continue; /* outside the documented domain of the bitmap */
        }
        sp[ns++] = (step){v, n, &s, forced[k].type};
    }
    vf_class("hist.none");
    if (m->mode == MM_REUSED && ns > 1) {
        vf_class("meta.reused.mask");
    }
    run_steps(c, m, sp, ns, 0, 0);
}

/* ----------------------------------------------------------------- history */
/* request selector -> a request that is legal for the array */
static int pick_request(unsigned sel, const st *s, int prev) {
    switch (sel & 7) {
    case 0:
        return -1;
    case 1:
        return VARINT_ADAPTIVE_DELTA;
    case 2:
        return VARINT_ADAPTIVE_FOR;
    case 3:
        return VARINT_ADAPTIVE_PFOR;
    case 4:
        return VARINT_ADAPTIVE_DICT;
    case 5:
        return VARINT_ADAPTIVE_TAGGED;
    case 6:
        return s->strict16 ? VARINT_ADAPTIVE_BITMAP : VARINT_ADAPTIVE_FOR;
    default:
        if (prev == VARINT_ADAPTIVE_BITMAP && !s->strict16) {
            return -1;
        }
        return prev;
    }
}

/* the next array of a history, derived from the previous one (p, n, ps).
 * Returns the new length; *out is a new allocation, or NULL when the step
 * uses the previous array itself. */
static size_t derive(vf_rd *r, const uint64_t *p, size_t n, const st *ps,
                     uint8_t sb, uint64_t **out, vf_report *rep) {
    unsigned kind = sb & 7;
    uint64_t *b;
    *out = NULL;
    switch (kind) {
    case 0:
        vf_desc(rep, "same");
        return n;
    case 1:
    case 2: {
        uint64_t cst = vf_u64(r);
        if ((sb & 0x40) && ps->strict16) {
            /* stay a strictly increasing sequence below 65536 */
            cst = kind == 1 ? cst % (65536 - ps->max) : cst % (ps->min + 1);
        }
        b = xalloc(n);
        for (size_t i = 0; i < n; i++) {
            b[i] = kind == 1 ? p[i] + cst : p[i] - cst;
        }
        vf_desc(rep, "prev%c%llu", kind == 1 ? '+' : '-',
                (unsigned long long)cst);
        *out = b;
        return n;
    }
    case 3: {
        static const uint64_t mtab[8] = {2,   3,     7,          255,
                                         256, 65536, 1ULL << 32, 1000003};
        uint64_t mul = mtab[(sb >> 6) | ((vf_u8(r) & 1) << 2)];
        uint64_t cst = vf_u64(r);
        b = xalloc(n);
        for (size_t i = 0; i < n; i++) {
            b[i] = p[i] * mul + cst;
        }
        vf_desc(rep, "prev*%llu+%llu", (unsigned long long)mul,
                (unsigned long long)cst);
        *out = b;
        return n;
    }
    case 4: {
        uint64_t cst = vf_u64(r);
        b = xalloc(n);
        for (size_t i = 0; i < n; i++) {
            b[i] = p[n - 1 - i] ^ cst;
        }
        vf_desc(rep, "reversed prev^%llu", (unsigned long long)cst);
        *out = b;
        return n;
    }
    case 5: {
        /* unrelated values of the same length: base + random of a width */
        uint64_t base = vf_u64(r);
        unsigned bits = vf_take_bits(r);
        uint64_t mask = bits >= 64 ? UINT64_MAX : ((1ULL << bits) - 1);
        uint64_t seed = ((uint64_t)vf_u16(r) << 1) | 1;
        b = xalloc(n);
        for (size_t i = 0; i < n; i++) {
            b[i] = base + (vf_xs(&seed) & mask);
        }
        if ((sb & 0x40) && n > 1) {
            qsort(b, n, sizeof(uint64_t), cmp_u64);
        }
        vf_desc(rep, "fresh base=%llu bits=%u%s", (unsigned long long)base,
                bits, (sb & 0x40) ? " sorted" : "");
        *out = b;
        return n;
    }
    case 6: {
        vf_arr a;
        vf_take_array(r, &a, (sb & 0x40) ? 300 : 64, 0);
        vf_desc(rep, "new n=%zu", a.n);
        *out = a.v;
        return a.n;
    }
    default: {
        /* a nearby length: drop the tail or continue the pattern */
        uint8_t d8 = vf_u8(r);
        size_t d = 1 + (d8 >> 1) % 3;
        size_t m;
        if (!(d8 & 1) && n > 1) {
            m = n > d ? n - d : 1;
        } else {
            m = n + d;
        }
        uint64_t cst = m > n ? vf_u64(r) : 0;
        b = xalloc(m);
        for (size_t i = 0; i < m; i++) {
            b[i] = p[i % n] + (uint64_t)(i / n) * cst;
        }
        vf_desc(rep, "resized %zu->%zu", n, m);
        *out = b;
        return m;
    }
    }
}

/* history: step 0 = (v0, req0); when b1 != NULL step 1 = (b1, req0) (the
 * legacy pair); then `extra` generated steps */
static void history(c06 *c, mctx *m, vf_rd *r, const uint64_t *v0, size_t n0,
                    int req0sel, uint64_t *b1, unsigned extra, int defer) {
    st sts[MAX_STEPS];
    uint64_t *own[MAX_STEPS];
    step sp[MAX_STEPS];
    unsigned ns = 0, nown = 0;
    size_t biggest = n0;

    stats(v0, n0, &sts[0]);
    branch_classes(&sts[0]);
    int req = req0sel;
    if (req == VARINT_ADAPTIVE_BITMAP && !sts[0].strict16) {
        req = -1;
    }
    sp[ns++] = (step){v0, n0, &sts[0], req};
    if (b1) {
        stats(b1, n0, &sts[ns]);
        branch_classes(&sts[ns]);
        int rq = req == VARINT_ADAPTIVE_BITMAP && !sts[ns].strict16 ? -1 : req;
        sp[ns] = (step){b1, n0, &sts[ns], rq};
        ns++;
        vf_class("pair");
    }
    if (n0 > 4200 && extra > 2) {
        extra = 2;
    }
    for (unsigned k = 0; k < extra && ns < 6; k++) {
        uint8_t sb = vf_u8(r);
        const step *pv = &sp[ns - 1];
        uint64_t *nb = NULL;
        vf_desc(c->rep, " | step%u: ", ns);
        size_t nn = derive(r, pv->v, pv->n, pv->s, sb, &nb, c->rep);
        const uint64_t *arr = nb ? nb : pv->v;
        if (nb) {
            own[nown++] = nb;
            stats(arr, nn, &sts[ns]);
            branch_classes(&sts[ns]);
        } else {
            sts[ns] = *pv->s;
        }
        int rq = pick_request((unsigned)sb >> 3, &sts[ns], pv->req);
        vf_desc(c->rep, " n=%zu req=%s", nn, rq < 0 ? "auto" : enc_name[rq]);
        sp[ns] = (step){arr, nn, &sts[ns], rq};
        ns++;
        if (nn > biggest) {
            biggest = nn;
        }
    }
    if (biggest > 4200) {
        defer = 0; /* keep at most one large destination alive */
    }
    {
        char cls[32];
        snprintf(cls, sizeof(cls), "hist.len%u", ns);
        vf_class(cls);
        vf_class(defer ? "hist.deferred" : "hist.immediate");
        if (m->mode == MM_REUSED && ns > 1) {
            vf_class("meta.reused.hist");
        }
    }
    run_steps(c, m, sp, ns, defer, 1);
    for (unsigned i = 0; i < nown; i++) {
        free(own[i]);
    }
}

/* ------------------------------------------------------------- size classes */
enum { SZ_SMALL = 0, SZ_MEDIUM, SZ_LARGE };
static const char *const sz_name[3] = {"small", "medium", "large"};

static unsigned take_sizeclass(vf_rd *r) {
    uint8_t b = vf_u8(r);
    if (b == 0x40) {
        return SZ_LARGE; /* ~0.33 % of the cases */
    }
    if (b >= 0x42 && b <= 0x49) {
        return SZ_MEDIUM; /* ~2.7 % */
    }
    return SZ_SMALL;
}

static size_t large_max(void) {
    return vf_tier() ? 100000 : 70000;
}

/* length >= 2 for the steer generators */
static size_t take_len(vf_rd *r, unsigned sz) {
    uint16_t a = vf_u16(r);
    switch (sz) {
    case SZ_SMALL:
        return 2 + a % 64;
    case SZ_MEDIUM:
        if ((a & 3) == 0) {
            return 66 + (a >> 2) % 4135; /* .. 4200 */
        }
        return 66 + (a >> 2) % 535; /* .. 600 */
    default:
        switch (a & 3) {
        case 0:
            return 9998 + (a >> 2) % 5; /* 9998 .. 10002 */
        case 1:
            return 10001 + (a >> 2) % 10000;
        case 2:
            return 20001 + ((size_t)(a >> 2) * 7) % (large_max() - 20000);
        default:
            return 4201 + (a >> 2) % 5797; /* .. 9997 */
        }
    }
}

/* ----------------------------------------------------------- steer: distinct
 * count relative to 0.15 n and 0.9 n, order, maximum relative to 65536, step
 * (density = n / range relative to 0.05) */
static size_t gen_uniq(vf_rd *r, unsigned sz, uint64_t **pv, vf_report *rep) {
    size_t n = take_len(r, sz);
    uint8_t a = vf_u8(r);
    unsigned which = a & 3, order = (a >> 2) & 3;
    int d = dtab[(a >> 4) % 5];
    size_t u;
    switch (which) {
    case 0:
        u = adj(n, d < 0 ? d : 0, 1, n);
        break;
    case 1:
        u = adj(n * 15 / 100, d, 1, n);
        break;
    case 2:
        u = adj(n * 9 / 10, d, 1, n);
        break;
    default:
        u = 1 + vf_u16(r) % n;
        break;
    }
    uint64_t step = 1 + vf_u8(r) % 40;
    uint8_t bs = vf_u8(r);
    uint64_t base;
    switch (bs & 3) {
    case 0:
        base = 0;
        break;
    case 1:
        base = vf_u16(r);
        break;
    case 2: { /* maximum lands on 65535 + d2 */
        uint64_t top = (uint64_t)(65535 + dtab[(bs >> 2) % 5]);
        uint64_t span = (uint64_t)(u - 1) * step;
        base = span <= top ? top - span : 0;
        break;
    }
    default:
        base = vf_u64(r);
        break;
    }
    uint32_t seed = vf_u32(r);
    uint64_t *v = xalloc(n);
    for (size_t i = 0; i < n; i++) {
        v[i] = base + (uint64_t)(i * u / n) * step;
    }
    if (order == 1) {
        reverse(v, n);
    } else if (order >= 2) {
        shuffle(v, n, seed);
    }
    vf_desc(rep,
            "steer=uniq n=%zu distinct=%zu (%s) order=%s step=%llu base=%llu",
            n, u,
            which == 0   ? "~n"
            : which == 1 ? "~0.15n"
            : which == 2 ? "~0.9n"
                         : "explicit",
            order == 0 ? "asc" : order == 1 ? "desc" : "shuffled",
            (unsigned long long)step, (unsigned long long)base);
    *pv = v;
    return n;
}

/* --------------------------------------------------------- steer: monotone
 * with average delta T relative to 1000 and to min/10 */
static size_t gen_delta(vf_rd *r, unsigned sz, uint64_t **pv, vf_report *rep) {
    size_t n = take_len(r, sz);
    uint8_t a = vf_u8(r);
    unsigned desc = a & 1, bsel = (a >> 1) & 3, tsel = (a >> 3) & 3;
    int d = dtab[(a >> 5) % 5];
    uint64_t base;
    switch (bsel) {
    case 0:
        base = 0;
        break;
    case 1:
        base = 1 + (uint64_t)vf_u16(r);
        break;
    case 2:
        base = 9000 + vf_u16(r) % 3000; /* min/10 straddles 1000 */
        break;
    default:
        base = vf_u64(r);
        break;
    }
    uint64_t T;
    switch (tsel) {
    case 0:
        T = (uint64_t)(1000 + d);
        break;
    case 1:
        T = base / 10;
        T = d < 0 ? (T >= (uint64_t)-d ? T - (uint64_t)-d : 0) : T + (uint64_t)d;
        break;
    case 2:
        T = vf_u16(r);
        break;
    default:
        T = vf_u64(r) >> (vf_u8(r) & 63);
        break;
    }
    uint64_t e = vf_u16(r) % (n - 1);
    uint64_t jit = vf_u8(r);
    /* keep base + (n-1) T + e inside 64 bits */
    if (base > UINT64_MAX - e) {
        base = UINT64_MAX - e;
    }
    {
        uint64_t room = (UINT64_MAX - base - e) / (n - 1);
        if (T > room) {
            T = room;
        }
    }
    if (jit > T) {
        jit = T;
    }
    uint64_t *v = xalloc(n);
    v[0] = base;
    for (size_t i = 1; i < n; i++) {
        uint64_t g = T;
        if ((i & 1) && i + 1 <= n - 1) {
            g = T - jit;
        } else if (!(i & 1)) {
            g = T + jit;
        }
        if (i == n - 1) {
            g += e;
        }
        v[i] = v[i - 1] + g;
    }
    if (desc) {
        reverse(v, n);
    }
    vf_desc(rep, "steer=delta n=%zu %s min=%llu avgDelta=%llu (+%llu/(n-1)) "
                 "jitter=%llu",
            n, desc ? "desc" : "asc", (unsigned long long)base,
            (unsigned long long)T, (unsigned long long)e,
            (unsigned long long)jit);
    *pv = v;
    return n;
}

/* ---------------------------------------------------------- steer: cluster
 * of width W above base plus k outliers in the top 5 % of the range R; R
 * relative to 100 n and to 2^64/95, k relative to 0.05 n and to the PFOR
 * percentile index, W relative to 2^(8w)-1 (the PFOR exception marker) */
static size_t gen_cluster(vf_rd *r, unsigned sz, uint64_t **pv,
                          vf_report *rep) {
    size_t n = take_len(r, sz);
    if (n < 3) {
        n = 3;
    }
    uint8_t a = vf_u8(r), b = vf_u8(r), c2 = vf_u8(r);
    unsigned rsel = a & 7, osel = (a >> 3) & 3, bsel = (a >> 5) & 3;
    unsigned wsel = b & 3, ksel = (b >> 2) & 3;
    int d = dtab[(b >> 4) % 5];
    int d2 = dtab[(c2 & 7) % 5];
    unsigned tcopies = (c2 >> 3) & 7, topshare = (c2 >> 6) & 3;
    uint64_t R;
    switch (rsel) {
    case 0:
        R = (uint64_t)((long long)n * 100 + d2);
        break;
    case 1:
        R = 1 + (uint64_t)vf_u16(r);
        break;
    case 2:
        R = vf_u64(r);
        break;
    case 3:
        R = UINT64_MAX / 95 + (uint64_t)(int64_t)d2;
        break;
    case 4:
        R = UINT64_MAX - vf_u16(r);
        break;
    case 5:
        R = 1 + (uint64_t)vf_u8(r);
        break;
    case 6:
        R = (uint64_t)n * (1 + vf_u8(r));
        break;
    default:
        R = vf_u64(r) >> (vf_u8(r) & 63);
        break;
    }
    if (R < 1) {
        R = 1;
    }
    uint64_t thr = (uint64_t)(((__uint128_t)R * 95) / 100); /* exact 95 % */
    uint64_t W;
    switch (wsel) {
    case 0:
        W = thr;
        break;
    case 1: {
        unsigned w = 1 + vf_u8(r) % 7;
        W = ((1ULL << (8 * w)) - 1) + (uint64_t)(int64_t)d;
        break;
    }
    case 2:
        W = vf_u8(r);
        break;
    default:
        W = thr ? vf_u64(r) % (thr + 1) : 0;
        break;
    }
    if (W > thr) {
        W = thr;
    }
    size_t k;
    switch (ksel) {
    case 0:
        k = adj(n * 5 / 100, d, 1, n - 2);
        break;
    case 1:
        k = adj(n - 1 - n * 95 / 100, d, 1, n - 2);
        break;
    case 2:
        k = 1;
        break;
    default:
        k = adj(1 + vf_u8(r) % n, 0, 1, n - 2);
        break;
    }
    uint64_t base;
    switch (bsel) {
    case 0:
        base = 0;
        break;
    case 1:
        base = vf_u16(r);
        break;
    case 2:
        base = vf_u64(r);
        break;
    default:
        base = UINT64_MAX - R;
        break;
    }
    if (base > UINT64_MAX - R) {
        base = UINT64_MAX - R;
    }
    uint64_t seed = ((uint64_t)vf_u32(r) << 1) | 1;
    uint64_t *v = xalloc(n);
    size_t m = n - k; /* cluster members, >= 2 */
    for (size_t i = 0; i < m; i++) {
        uint64_t off;
        if (i == 0) {
            off = 0;
        } else if (i <= 1 + (size_t)tcopies) {
            off = W;
        } else if ((topshare == 1 && (i & 1)) || (topshare == 2 && i % 5) ||
                   (topshare == 3 && (i & 3) == 0)) {
            off = W; /* a large share of the cluster sits on its top value */
        } else {
            off = vf_xs(&seed) % (W + 1);
        }
        v[i] = base + off;
    }
    for (size_t i = 0; i < k; i++) {
        uint64_t off = i == 0 ? R : R - vf_xs(&seed) % (R - thr);
        v[m + i] = base + off;
    }
    if (osel == 1 || osel == 2) {
        qsort(v, n, sizeof(uint64_t), cmp_u64);
        if (osel == 2) {
            reverse(v, n);
        }
    } else {
        shuffle(v, n, seed);
    }
    vf_desc(rep,
            "steer=cluster n=%zu base=%llu width=%llu (x%u at top%s) range=%llu "
            "outliers=%zu order=%s",
            n, (unsigned long long)base, (unsigned long long)W, 1 + tcopies,
            topshare == 1   ? " + every 2nd"
            : topshare == 2 ? " + 4 of 5"
            : topshare == 3 ? " + every 4th"
                            : "",
            (unsigned long long)R, k,
            osel == 1 ? "asc" : osel == 2 ? "desc" : "shuffled");
    *pv = v;
    return n;
}

/* ----------------------------------------------------------- steer: n > 10000,
 * the distinct count of the every-10th-value sample relative to 0.15 / 0.9 of
 * the sample size, independent of what the other nine tenths hold */
static size_t gen_sampled(vf_rd *r, uint64_t **pv, vf_report *rep) {
    uint16_t a16 = vf_u16(r);
    size_t n;
    switch (a16 & 3) {
    case 0:
        n = 10001 + (a16 >> 2) % 16;
        break;
    case 1:
    case 2:
        n = 10001 + (a16 >> 2) % 10000;
        break;
    default:
        n = 20001 + ((size_t)(a16 >> 2) * 7) % (large_max() - 20000);
        break;
    }
    size_t ss = n / 10, step = n / ss;
    uint8_t a = vf_u8(r);
    unsigned ssel = a & 3, osel = (a >> 2) & 3;
    int d = dtab[(a >> 4) % 5];
    size_t us;
    switch (ssel) {
    case 0:
        us = adj(ss * 15 / 100, d, 1, ss);
        break;
    case 1:
        us = adj(ss * 9 / 10, d, 1, ss);
        break;
    case 2:
        us = 1 + vf_u16(r) % ss;
        break;
    default:
        us = adj(ss, d < 0 ? d : 0, 1, ss);
        break;
    }
    unsigned sortedSample = vf_u8(r) & 1;
    uint8_t bs = vf_u8(r);
    uint64_t stepv = 1 + (bs >> 2) % 61;
    uint64_t base;
    switch (bs & 3) {
    case 0:
        base = 0;
        break;
    case 1:
        base = vf_u16(r);
        break;
    case 2:
        base = 70000 + (uint64_t)vf_u16(r);
        break;
    default:
        base = vf_u64(r);
        break;
    }
    uint64_t seed = ((uint64_t)vf_u32(r) << 1) | 1;
    uint64_t *v = xalloc(n);
    uint64_t last = base;
    for (size_t j = 0; j < n; j++) {
        size_t i = j / step;
        if (j % step == 0 && i < ss) {
            size_t idx = sortedSample ? i * us / ss : i % us;
            last = v[j] = base + idx * stepv;
            continue;
        }
        switch (osel) {
        case 0: /* repeat the preceding sampled value */
            v[j] = last;
            break;
        case 1: /* all distinct, above every sampled value */
            v[j] = base + (uint64_t)(us + j) * stepv;
            break;
        case 2:
            v[j] = base;
            break;
        default:
            v[j] = base + (vf_xs(&seed) % us) * stepv;
            break;
        }
    }
    vf_desc(rep,
            "steer=sampled n=%zu sample=%zu distinctInSample=%zu (%s) "
            "sample=%s rest=%s base=%llu step=%llu",
            n, ss, us,
            ssel == 0   ? "~0.15"
            : ssel == 1 ? "~0.9"
            : ssel == 2 ? "explicit"
                        : "~all",
            sortedSample ? "sorted" : "cyclic",
            osel == 0   ? "repeatSample"
            : osel == 1 ? "allDistinct"
            : osel == 2 ? "constant"
                        : "palette",
            (unsigned long long)base, (unsigned long long)stepv);
    *pv = v;
    return n;
}

/* ------------------------------------------- > 1 MiB dictionary payloads:
 * few distinct values and a length that puts [dict][count][indices] on either
 * side of 2^20 bytes (1-byte indices: ~2^20 values; 2-byte indices: ~2^19) */
static size_t gen_huge(vf_rd *r, uint64_t **pv, vf_report *rep) {
    uint8_t var = vf_u8(r);
    size_t n;
    unsigned u;
    if (var & 1) {
        u = 257 + vf_u16(r) % 700;
        n = 519000 + vf_u16(r) % 6000;
    } else {
        u = 2 + vf_u8(r) % 199;
        n = 1046000 + vf_u16(r) % 4096;
    }
    unsigned bits = vf_take_bits(r);
    uint64_t mask = bits >= 64 ? UINT64_MAX : ((1ULL << bits) - 1);
    uint64_t seed = ((uint64_t)vf_u32(r) << 1) | 1;
    uint64_t pbase = vf_xs(&seed) & mask;
    uint64_t stride = 1 + ((vf_xs(&seed) & mask) >> 10);
    unsigned periodic = (var >> 1) & 1;
    uint64_t *v = xalloc(n);
    for (size_t i = 0; i < n; i++) {
        uint64_t k = periodic ? i % u : vf_xs(&seed) % u;
        v[i] = pbase + k * stride;
    }
    vf_desc(rep,
            "huge n=%zu palette=%u valueBits=%u %s (dictionary payload near "
            "1 MiB)",
            n, u, bits, periodic ? "periodic" : "random");
    *pv = v;
    return n;
}

/* ------------------- strictly increasing below 65536 with a length next to
 * 10000 (the count limit of the bitmap branch) or anywhere up to 65536 */
static size_t gen_strict_large(vf_rd *r, uint64_t **pv, vf_report *rep) {
    size_t n = take_len(r, SZ_LARGE);
    if (n > 65536) {
        n = 65536;
    }
    uint32_t room = 65536 - (uint32_t)n;
    uint32_t start = vf_u16(r) % (room + 1);
    unsigned gapbits = vf_u8(r) % 4;
    uint64_t seed = ((uint64_t)vf_u32(r) << 1) | 1;
    uint32_t cur = start, slack = room - start;
    uint64_t *v = xalloc(n);
    for (size_t i = 0; i < n; i++) {
        v[i] = cur;
        uint32_t gap = gapbits ? (uint32_t)(vf_xs(&seed) & ((1u << gapbits) - 1))
                               : 0;
        if (gap > slack) {
            gap = slack;
        }
        slack -= gap;
        cur += 1 + gap;
    }
    vf_desc(rep, "strictly increasing <65536: n=%zu start=%u gapbits=%u", n,
            start, gapbits);
    *pv = v;
    return n;
}

/* -------------------------------------------------- general arrays (vf_arr) */
static size_t gen_general(vf_rd *r, unsigned sz, unsigned flags, uint64_t **pv,
                          vf_report *rep) {
    vf_arr a;
    size_t maxlen = sz == SZ_SMALL ? 300 : 4200;
    if (sz == SZ_LARGE && (flags & VF_ARR_STRICT16)) {
        return gen_strict_large(r, pv, rep);
    }
    vf_take_array(r, &a, maxlen, flags);
    vf_arr_classes(&a, "arr");
    if (sz != SZ_LARGE) {
        vf_desc(rep, "array %s", a.desc);
        *pv = a.v;
        return a.n;
    }
    /* large: tile the array up to L values, each tile shifted by a stride */
    size_t L = take_len(r, SZ_LARGE);
    uint64_t stride = (vf_u8(r) & 1) ? vf_u64(r) : vf_u8(r);
    uint64_t *v = xalloc(L);
    for (size_t i = 0; i < L; i++) {
        v[i] = a.v[i % a.n] + (uint64_t)(i / a.n) * stride;
    }
    vf_desc(rep, "tiled to n=%zu stride=%llu from array %s", L,
            (unsigned long long)stride, a.desc);
    vf_arr_free(&a);
    *pv = v;
    return L;
}

/* ------------------------------------------------------------------ driver */
/* number of generated history steps after the first (0 = no history) */
static unsigned take_extra(uint8_t hb) {
    static const uint8_t tab[16] = {0, 0, 0, 0, 0, 0, 0, 0,
                                    1, 1, 2, 2, 3, 4, 5, 1};
    return tab[hb & 15];
}

void vf_run(vf_rd *r, vf_report *rep) {
    c06 c;
    mctx m;
    memset(&c, 0, sizeof(c));
    c.rep = rep;
    uint8_t mode = vf_u8(r);
    uint64_t *v = NULL;
    size_t n;

    if (mode == 0xC6 && vf_left(r) >= 2 && r->p[r->pos] == 0x6D &&
        (vf_tier() == 1 || r->p[r->pos + 1] == 0xD1)) {
        (void)vf_u8(r);
        uint8_t fl = vf_u8(r);
        if (LLVMFuzzerTestOneInput) {
            /* seconds per case: not a job for a mutation loop */
            vf_class("huge.skippedUnderLibFuzzer");
            return;
        }
        n = gen_huge(r, &v, rep);
        vf_class("gen.huge");
        /* the automatic analysis of 10^6 values costs several seconds (O(n^2)
         * sample sort), so most huge cases force DICT directly */
        unsigned fm = F_DICT;
        if (fl == 0xD1 || (fl & 7) != 0) {
            fm |= F_NOAUTO;
        }
        take_meta(r, &m);
        meta_describe(rep, &m);
        roundtrip(&c, &m, v, n, fm);
        free(v);
        return;
    }

    unsigned sz = take_sizeclass(r);
    unsigned fm = vf_u8(r) & 0x3f;
    unsigned fm0 = fm;
    unsigned g = mode & 15;
    uint64_t *b = NULL; /* second array of the legacy pair */
    vf_class(sz == SZ_SMALL    ? "size.small"
             : sz == SZ_MEDIUM ? "size.medium"
                               : "size.large");
    if (sz == SZ_LARGE) {
        /* the large share is split evenly over the generators */
        static const unsigned remap[8] = {0, 10, 5, 4, 7, 8, 10, 0};
        g = remap[(mode >> 4) & 7];
    } else if (g == 10) {
        g = 5; /* the sampled steer only exists for n > 10000 */
    }
    switch (g) {
    case 4:
        n = gen_general(r, sz, VF_ARR_STRICT16, &v, rep);
        fm |= F_BITMAP;
        vf_class("gen.strict16");
        break;
    case 5:
    case 6:
        n = gen_uniq(r, sz, &v, rep);
        vf_class("gen.steer.uniq");
        break;
    case 7:
        n = gen_delta(r, sz, &v, rep);
        vf_class("gen.steer.delta");
        break;
    case 8:
    case 9:
        n = gen_cluster(r, sz, &v, rep);
        vf_class("gen.steer.cluster");
        break;
    case 10:
        n = gen_sampled(r, &v, rep);
        vf_class("gen.steer.sampled");
        break;
    case 11: {
        /* pair: B derived from A, same length, same request, back to back:
         * a two-step history whose decodes come after both encodes */
        n = gen_general(r, sz == SZ_LARGE ? SZ_MEDIUM : sz, 0, &v, rep);
        uint8_t op = vf_u8(r);
        uint64_t cst = vf_u64(r);
        uint64_t mul = 1 + (uint64_t)(op >> 2) % 7;
        b = xalloc(n);
        for (size_t i = 0; i < n; i++) {
            switch (op & 3) {
            case 0:
                b[i] = v[i] + cst;
                break;
            case 1:
                b[i] = v[i] - cst;
                break;
            case 2:
                b[i] = v[i] * mul + cst;
                break;
            default:
                b[i] = v[n - 1 - i] ^ cst;
                break;
            }
        }
        vf_desc(rep, " | pair: second = %s %llu (mul %llu)",
                (op & 3) == 0   ? "first +"
                : (op & 3) == 1 ? "first -"
                : (op & 3) == 2 ? "first * mul +"
                                : "reversed first ^",
                (unsigned long long)cst, (unsigned long long)mul);
        vf_class("gen.pair");
        break;
    }
    default:
        n = gen_general(r, sz, 0, &v, rep);
        vf_class("gen.array");
        break;
    }

    /* the two dimensions every case has: how the caller holds the meta
     * object, and the history of calls */
    take_meta(r, &m);
    meta_describe(rep, &m);
    uint8_t hb = vf_u8(r);
    unsigned extra = take_extra(hb);
    int defer = (hb >> 4) & 1;
    if (b) {
        defer = !defer; /* the pair is deferred unless the case says otherwise */
    }
    if (b || extra) {
        /* first request: -1 automatic, 0..3, 4 -> TAGGED; BITMAP when the
         * case asks for it and the array is in its domain */
        int type = (int)(fm0 % 6) - 1;
        if (type == 4) {
            type = VARINT_ADAPTIVE_TAGGED;
        }
        if (!b && (fm0 & 0x10) && (g == 4 || (fm0 & 0x20))) {
            type = VARINT_ADAPTIVE_BITMAP; /* falls back to auto if illegal */
        }
        vf_desc(rep, " history%s: first request=%s", defer ? " (deferred)" : "",
                type < 0 ? "auto" : enc_name[type]);
        history(&c, &m, r, v, n, type, b, extra, defer);
        free(b);
        free(v);
        return;
    }
    vf_desc(rep, " forced=0x%02x", fm);
    roundtrip(&c, &m, v, n, fm);
    free(v);
}

/* ------------------------------------------------------ deterministic sweep
 * small arrays on a grid around every threshold of the selection tree */
static uint64_t sweep_case(vf_report *rep, const uint8_t *bytes, size_t len) {
    vf_rd r = {bytes, len, 0};
    rep->desclen = 0;
    rep->desc[0] = 0;
    vf_run(&r, rep);
    return 1;
}

void vf_sweep(vf_report *rep) {
    uint64_t evals = 0;
    uint8_t b[40];
    /* uniq steer: n 2..40, every distinct count, 3 orders, steps around the
     * density threshold, small base and a base putting max next to 65536 */
    static const uint8_t steps[] = {0, 17, 18, 19, 20, 21, 22, 39};
    for (unsigned n = 2; n <= 40 && !rep->violated; n++) {
        for (unsigned u = 1; u <= n && !rep->violated; u++) {
            for (unsigned order = 0; order < 3; order++) {
                for (unsigned si = 0; si < sizeof(steps); si++) {
                    for (unsigned bsel = 0; bsel < 2 && !rep->violated;
                         bsel++) {
                        memset(b, 0, sizeof(b));
                        b[0] = 5;                   /* gen_uniq */
                        b[1] = 0;                   /* small */
                        b[2] = 0;                   /* auto only */
                        b[3] = (uint8_t)(n - 2);    /* len lo */
                        b[4] = 0;                   /* len hi */
                        b[5] = (uint8_t)(3 | (order << 2)); /* explicit u */
                        b[6] = (uint8_t)((u - 1) & 0xff);   /* u16 lo */
                        b[7] = 0;
                        b[8] = steps[si];
                        b[9] = bsel ? 2 : 0; /* max = 65535 / base 0 */
                        b[10] = 7;           /* shuffle seed */
                        evals += sweep_case(rep, b, 14);
                    }
                }
            }
        }
    }
    /* delta steer: T around 1000 and around min/10, asc and desc */
    for (unsigned n = 2; n <= 24 && !rep->violated; n++) {
        for (unsigned desc = 0; desc < 2; desc++) {
            for (unsigned tsel = 0; tsel < 2; tsel++) {
                for (unsigned di = 0; di < 5; di++) {
                    for (unsigned bsel = 0; bsel < 3 && !rep->violated;
                         bsel++) {
                        memset(b, 0, sizeof(b));
                        b[0] = 7;
                        b[2] = (uint8_t)(F_DELTA | F_FOR | F_PFOR);
                        b[3] = (uint8_t)(n - 2);
                        b[5] = (uint8_t)(desc | (bsel << 1) | (tsel << 3) |
                                         (di << 5));
                        size_t k = 6;
                        if (bsel) {
                            b[k++] = 0x39; /* u16 argument of the base */
                            b[k++] = 0x05;
                        }
                        b[k++] = (uint8_t)(n / 2); /* e */
                        b[k++] = 0;
                        b[k++] = (uint8_t)(n & 3); /* jitter */
                        evals += sweep_case(rep, b, k);
                    }
                }
            }
        }
    }
    /* cluster steer: n around 20/40/60/100, k around 0.05 n, R around 100 n,
     * W = range top (w = 0) or the one-byte marker 255 + d (w = 1) */
    static const uint8_t ns[] = {19, 20, 21, 39, 40, 41, 59, 60, 61, 64};
    for (unsigned ni = 0; ni < sizeof(ns) && !rep->violated; ni++) {
        for (unsigned ksel = 0; ksel < 2; ksel++) {
            for (unsigned di = 0; di < 5; di++) {
                for (unsigned d2 = 0; d2 < 5; d2++) {
                    for (unsigned osel = 0; osel < 3; osel++) {
                        for (unsigned w = 0; w < 2 && !rep->violated; w++) {
                            memset(b, 0, sizeof(b));
                            b[0] = 8;
                            b[2] = (uint8_t)(F_PFOR | F_FOR);
                            b[3] = (uint8_t)(ns[ni] - 2);
                            /* rsel 0 (100n + d2) or, for the marker widths, a
                             * wide range so that W is not clipped */
                            b[5] = (uint8_t)((w ? 6 : 0) | (osel << 3));
                            b[6] = (uint8_t)((w ? 1 : 0) | (ksel << 2) |
                                             (di << 4));
                            b[7] = (uint8_t)(d2 | ((di & 3) << 3));
                            size_t k = 8;
                            if (w) {
                                b[k++] = 0xff;             /* R = n * 256 */
                                b[k++] = (uint8_t)(w - 1); /* marker width */
                            }
                            b[k++] = 0x11; /* seed */
                            b[k++] = 0x22;
                            evals += sweep_case(rep, b, k + 2);
                        }
                    }
                }
            }
        }
    }
    /* histories through every meta handling: two base arrays, the first
     * request, a second array of the same length in a different frame (above,
     * below, wider, unrelated) with every request, a third one below the
     * second with four requests */
    for (unsigned ni = 0; ni < 2 && !rep->violated; ni++) {
        for (unsigned mm = 0; mm < 8; mm++) {
            for (unsigned r0 = 0; r0 < 6; r0++) {
                for (unsigned k1 = 0; k1 < 4; k1++) {
                    for (unsigned r1 = 0; r1 < 8 && !rep->violated; r1++) {
                        static const uint8_t kinds[4] = {1, 2, 3, 5};
                        static const uint8_t r2s[4] = {2, 0, 3, 7};
                        for (unsigned r2 = 0; r2 < 4 && !rep->violated; r2++) {
                            size_t k = 0;
                            memset(b, 0, sizeof(b));
                            b[k++] = 5;          /* gen_uniq */
                            b[k++] = 0;          /* small */
                            b[k++] = (uint8_t)r0; /* first request */
                            b[k++] = ni ? 6 : 1; /* n = 8 / 3 */
                            b[k++] = 0;
                            b[k++] = 0;    /* all distinct, ascending */
                            b[k++] = 16;   /* step 17 */
                            b[k++] = 1;    /* base = u16 */
                            b[k++] = 0xe8; /* 1000 */
                            b[k++] = 0x03;
                            k += 4; /* shuffle seed (unused) */
                            b[k++] = (uint8_t)(mm | ((r1 & 1) << 3) |
                                               ((r2 & 1) << 4));
                            if (mm == 2 || mm == 6) {
                                b[k++] = (uint8_t)(r0 & 3); /* poison byte */
                            }
                            b[k++] = (uint8_t)(10 | ((k1 & 1) << 4)); /* 2 more */
                            b[k++] = (uint8_t)(kinds[k1] | (r1 << 3));
                            if (kinds[k1] == 3) {
                                b[k++] = 0; /* multiplier 2 */
                            }
                            b[k++] = 3; /* constant: u16 */
                            b[k++] = 0x60;
                            b[k++] = kinds[k1] == 2 ? 0x03 : 0xea; /* 864/60000 */
                            if (kinds[k1] == 5) {
                                b[k++] = 0x11; /* 24 bits */
                                b[k++] = 0x77; /* seed */
                                b[k++] = 0x01;
                            }
                            b[k++] = (uint8_t)(2 | (r2s[r2] << 3)); /* prev - c */
                            b[k++] = 2; /* constant: u8 */
                            b[k++] = 99;
                            evals += sweep_case(rep, b, k);
                        }
                    }
                }
            }
        }
    }
    /* thorough tier: dictionary payloads on both sides of 1 MiB, two through
     * the automatic selection (seconds each), four forced */
    if (vf_tier() == 1 && !rep->violated) {
        static const uint8_t huge[6][10] = {
            /* mode magic flags var, then palette / length / bits / seed.
             * flags & 7 == 0: automatic selection as well as forced DICT */
            /* n = 1048569, two 1-byte values: payload exactly 2^20 (passes) */
            {0xC6, 0x6D, 0x08, 0x00, 0x00, 0x09, 0x0a, 0x03, 0x05},
            /* 2-byte indices, 513 9-byte values, n = 524999: above */
            {0xC6, 0x6D, 0x08, 0x01, 0x00, 0x01, 0x6f, 0x17, 0x7f, 0x06},
            /* n = 1048570: one byte above 2^20 */
            {0xC6, 0x6D, 0x01, 0x00, 0x00, 0x0a, 0x0a, 0x03, 0x07},
            {0xC6, 0x6D, 0x01, 0x00, 0xc6, 0xff, 0x0f, 0x7f, 0x08},
            {0xC6, 0x6D, 0x01, 0x02, 0x05, 0x10, 0x0a, 0x21, 0x09},
            {0xC6, 0x6D, 0x01, 0x03, 0x80, 0x02, 0x00, 0x10, 0x41, 0x0a},
        };
        for (unsigned i = 0; i < 6 && !rep->violated; i++) {
            evals += sweep_case(rep, huge[i], sizeof(huge[i]));
        }
    }
    vf_evals(evals);
    vf_class_n("sweep.cases", evals);
}
