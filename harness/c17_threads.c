/* C17 - stateless codecs are safe to call concurrently.
 *
 * case layout:  threads:1 (2..16)  repeats:1  pool: 3 x array-descriptor
 *               then per thread  nops:1 (1..8) x { codec:1 input:1 }.
 *
 * The pool (three integer arrays, their domain-conforming variants, doubles,
 * one pre-encoded buffer per codec and one prebuilt varintDict) is built by
 * the main thread and is read-only afterwards.  A sequential pass computes a
 * hash of every operation's outputs (returned lengths, bytes up to the
 * returned length, decoded values, metadata fields the library writes).  Then
 * T pthreads start behind a barrier and run their operation lists `repeats`
 * times, writing only to thread-private outputs.
 *
 * oracle: in the `tsan` configuration any ThreadSanitizer report kills the
 * process (halt_on_error=1, exitcode=87; the framework captures the in-flight
 * case); in every configuration each thread's hash of each operation must
 * equal the sequential hash.  Packed-array and bitstream histories run on
 * thread-private storage. */
#include "vf.h"
#include "vf_arr.h"

#include <pthread.h>

#include "varint.h"
#include "varintAdaptive.h"
#include "varintBP128.h"
#include "varintBitstream.h"
#include "varintChained.h"
#include "varintChainedSimple.h"
#include "varintDelta.h"
#include "varintDict.h"
#include "varintElias.h"
#include "varintExternal.h"
#include "varintExternalBigEndian.h"
#include "varintFOR.h"
#include "varintFloat.h"
#include "varintGroup.h"
#include "varintPFOR.h"
#include "varintRLE.h"
#include "varintSplit.h"
#include "varintSplitFull.h"
#include "varintSplitFull16.h"
#include "varintSplitFullNoZero.h"
#include "varintTagged.h"

/* the 12-bit instantiation the tree itself uses (varintPackedTest.c) */
#define PACK_STATIC 1 /* varintDimension.c already exports varintPacked12* */
#define PACK_FUNCTION_PREFIX c17Packed
#define PACK_STORAGE_BITS 12
#define PACK_STORAGE_SLOT_STORAGE_TYPE uint32_t
#define PACK_STORAGE_VALUE_TYPE uint16_t
#define PACK_STORAGE_MICRO_PROMOTION_TYPE uint32_t
#include "varintPacked.h"

const char *vf_prop_id = "C17";
const size_t vf_case_maxlen = 200;

#define NPOOL 3
#define MAXTHREADS 16
#define MAXOPS 8

enum enc_kind {
    E_FOR = 0,
    E_PFOR,
    E_DICT,
    E_RLE,
    E_RLEH,
    E_ELIAS_G,
    E_ELIAS_D,
    E_BP64,
    E_BPD64,
    E_BP32,
    E_FLOAT,
    E_ADAPTIVE,
    E_DELTA,
    E_GROUP,
    E_COUNT
};

typedef struct pool_entry {
    size_t n;
    uint64_t *raw;    /* as generated */
    uint64_t *ge1;    /* every value >= 1 */
    uint64_t *sorted; /* non-decreasing */
    int64_t *sd;      /* differences representable */
    uint32_t *u32;
    uint32_t *s32; /* sorted, 32-bit */
    double *dbl;
    uint8_t *enc[E_COUNT]; /* shared pre-encoded buffers */
    size_t enclen[E_COUNT];
    size_t encbits[E_COUNT]; /* Elias */
    varintPFORMeta pforMeta;
} pool_entry;

typedef struct shared {
    pool_entry p[NPOOL];
    varintDict *dict; /* prebuilt from p[0].raw, read-only */
} shared;

enum op_kind {
    O_TAGGED = 0,
    O_EXTERNAL,
    O_CHAINED,
    O_SPLIT,
    O_DELTA_U,
    O_DELTA_S,
    O_FOR,
    O_FOR_BATCH,
    O_PFOR,
    O_GROUP,
    O_DICT,
    O_DICT_SHARED,
    O_RLE,
    O_ELIAS,
    O_BP128_32,
    O_BP128_64,
    O_FLOAT,
    O_ADAPT_AUTO,
    O_ADAPT_FORCED,
    O_DECODE_SHARED,
    O_PACKED,
    O_BITSTREAM,
    O_COUNT
};

static const char *const op_name[O_COUNT] = {
    "scalar.tagged", "scalar.external", "scalar.chained", "scalar.split",
    "delta.unsigned", "delta.signed",   "for",            "for.batch",
    "pfor",          "group",           "dict",           "dict.shared",
    "rle",           "elias",           "bp128.32",       "bp128.64",
    "float",         "adaptive.auto",   "adaptive.forced", "decode.shared",
    "packed12",      "bitstream"};

static uint64_t HB(uint64_t h, const void *p, size_t n) {
    return vf_hash_bytes(h, p, n);
}

static void *xmalloc(size_t n) {
    void *p = malloc(n ? n : 1);
    if (!p) {
        abort();
    }
    return p;
}

static void *xzalloc(size_t n) {
    void *p = calloc(n ? n : 1, 1);
    if (!p) {
        abort();
    }
    return p;
}

static int cmp_u64(const void *a, const void *b) {
    uint64_t x = *(const uint64_t *)a, y = *(const uint64_t *)b;
    return x < y ? -1 : x > y;
}

static int cmp_u32(const void *a, const void *b) {
    uint32_t x = *(const uint32_t *)a, y = *(const uint32_t *)b;
    return x < y ? -1 : x > y;
}

/* ------------------------------------------------------------ encoders used
 * both by the pool setup and by the operations */
static size_t cap_for(size_t n) {
    return n * 27 + 8400;
}

static size_t enc_for(uint8_t *dst, const uint64_t *v, size_t n, int batch,
                      uint64_t *h) {
    varintFORMeta m;
    memset(&m, 0, sizeof(m));
    size_t len = batch ? varintFORBatchEncode(dst, v, n, &m)
                       : varintFOREncode(dst, v, n, &m);
    if (h) {
        *h = vf_mix(*h, m.minValue);
        *h = vf_mix(*h, m.maxValue);
        *h = vf_mix(*h, m.range);
        *h = vf_mix(*h, m.count);
        *h = vf_mix(*h, m.encodedSize);
        *h = vf_mix(*h, (uint64_t)m.offsetWidth);
    }
    return len;
}

static size_t enc_pfor(uint8_t *dst, const uint64_t *v, size_t n, unsigned thr,
                       varintPFORMeta *m, uint64_t *h) {
    static const uint32_t t[3] = {VARINT_PFOR_THRESHOLD_95,
                                  VARINT_PFOR_THRESHOLD_90,
                                  VARINT_PFOR_THRESHOLD_99};
    memset(m, 0, sizeof(*m));
    size_t len = varintPFOREncode(dst, v, (uint32_t)n, t[thr % 3], m);
    if (h && len) {
        *h = vf_mix(*h, m->min);
        *h = vf_mix(*h, m->exceptionMarker);
        *h = vf_mix(*h, m->thresholdValue);
        *h = vf_mix(*h, (uint64_t)m->width);
        *h = vf_mix(*h, m->count);
        *h = vf_mix(*h, m->exceptionCount);
        *h = vf_mix(*h, m->threshold);
    }
    return len;
}

/* ------------------------------------------------------------- operations */
static uint64_t op_scalar(const pool_entry *p, unsigned kind, unsigned par) {
    uint64_t h = kind;
    size_t k = p->n < 48 ? p->n : 48;
    for (size_t i = 0; i < k; i++) {
        uint64_t v = p->raw[i], r = 0;
        uint8_t b[24];
        memset(b, 0, sizeof(b));
        unsigned l = 0, g = 0;
        switch (kind) {
        case O_TAGGED:
            l = varintTaggedPut64(b, v);
            g = varintTaggedGet64(b, &r);
            h = vf_mix(h, varintTaggedLen(v));
            break;
        case O_EXTERNAL:
            if (par & 1) {
                l = varintExternalBigEndianPut(b, v);
                r = varintExternalBigEndianGet(b, (varintWidth)l);
            } else {
                l = varintExternalPut(b, v);
                r = varintExternalGet(b, (varintWidth)l);
            }
            g = l;
            break;
        case O_CHAINED:
            if (par & 1) {
                l = varintChainedSimpleEncode64(b, v);
                g = varintChainedSimpleDecode64(b, &r);
            } else {
                l = varintChainedPutVarint(b, v);
                g = varintChainedGetVarint(b, &r);
            }
            break;
        default:
            switch (par & 3) {
            case 0:
                varintSplitPut_(b, l, v);
                varintSplitGet_(b, g, r);
                break;
            case 1:
                varintSplitFullPut_(b, l, v);
                varintSplitFullGet_(b, g, r);
                break;
            case 2:
                varintSplitFull16Put_(b, l, v);
                varintSplitFull16Get_(b, g, r);
                break;
            default:
                if (v == 0) {
                    v = 1;
                }
                varintSplitFullNoZeroPut_(b, l, v);
                varintSplitFullNoZeroGet_(b, g, r);
                break;
            }
            break;
        }
        h = vf_mix(h, l);
        h = vf_mix(h, g);
        h = vf_mix(h, r);
        h = HB(h, b, l <= 16 ? l : 16);
    }
    return h;
}

static uint64_t op_delta(const pool_entry *p, int is_signed) {
    const size_t n = p->n;
    uint8_t *dst = (uint8_t *)xzalloc(n * 9 + 64);
    uint64_t *out = (uint64_t *)xzalloc(n * 8);
    size_t len, used;
    if (is_signed) {
        len = varintDeltaEncode(dst, p->sd, n);
        used = varintDeltaDecode(dst, n, (int64_t *)out);
    } else {
        len = varintDeltaEncodeUnsigned(dst, p->raw, n);
        used = varintDeltaDecodeUnsigned(dst, n, out);
    }
    uint64_t h = vf_mix(len, used);
    h = HB(h, dst, len);
    h = HB(h, out, n * 8);
    free(out);
    free(dst);
    return h;
}

static uint64_t op_for(const pool_entry *p, int batch, unsigned par) {
    const size_t n = p->n;
    uint8_t *dst = (uint8_t *)xzalloc(n * 8 + 64);
    uint64_t *out = (uint64_t *)xzalloc(n * 8);
    uint64_t h = 0x46;
    if (par & 1) {
        varintFORMeta a;
        memset(&a, 0, sizeof(a));
        if (batch) {
            varintFORBatchAnalyze(p->raw, n, &a);
        } else {
            varintFORAnalyze(p->raw, n, &a);
        }
        h = vf_mix(h, a.minValue ^ a.range ^ (uint64_t)a.offsetWidth);
        h = vf_mix(h, varintFORSize(&a));
    }
    size_t len = enc_for(dst, p->raw, n, batch, &h);
    size_t c = batch ? varintFORBatchDecode(dst, out, n)
                     : varintFORDecode(dst, out, n);
    h = vf_mix(h, len);
    h = vf_mix(h, c);
    h = HB(h, dst, len);
    h = HB(h, out, (c < n ? c : n) * 8);
    h = vf_mix(h, varintFORGetAt(dst, (par >> 1) % n));
    h = vf_mix(h, varintFORGetCount(dst));
    free(out);
    free(dst);
    return h;
}

static uint64_t op_pfor(const pool_entry *p, unsigned par) {
    const size_t n = p->n;
    uint8_t *dst = (uint8_t *)xzalloc(n * 27 + 128);
    uint64_t *out = (uint64_t *)xzalloc(n * 8);
    uint64_t h = 0x50;
    varintPFORMeta m;
    size_t len = enc_pfor(dst, p->raw, n, par, &m, &h);
    h = vf_mix(h, len);
    if (len) {
        h = HB(h, dst, len);
        varintPFORMeta dm;
        memset(&dm, 0, sizeof(dm));
        size_t c = varintPFORDecode(dst, out, &dm);
        h = vf_mix(h, c);
        h = HB(h, out, (c < n ? c : n) * 8);
        h = vf_mix(h, varintPFORGetAt(dst, (uint32_t)((par >> 2) % n), &m));
        h = vf_mix(h, varintPFORSize(&m));
    }
    free(out);
    free(dst);
    return h;
}

static uint64_t op_group(const pool_entry *p, unsigned par) {
    const size_t n = p->n > 64 ? 64 : p->n;
    uint8_t dst[1 + 16 + 64 * 8 + 16];
    uint64_t out[64];
    memset(dst, 0, sizeof(dst));
    memset(out, 0, sizeof(out));
    size_t len = varintGroupEncode(dst, p->raw, (uint8_t)n);
    uint8_t fc = 0;
    size_t used = varintGroupDecode(dst, out, &fc, 64);
    uint64_t fv = 0;
    size_t fr = varintGroupGetField(dst, (uint8_t)(par % n), &fv);
    uint64_t h = vf_mix(len, used);
    h = vf_mix(h, fc);
    h = vf_mix(h, fr);
    h = vf_mix(h, fv);
    h = vf_mix(h, varintGroupGetSize(dst));
    h = HB(h, dst, len);
    h = HB(h, out, (size_t)fc * 8);
    return h;
}

static uint64_t dict_decode_both(uint64_t h, const uint8_t *buf, size_t len,
                                 size_t n) {
    uint64_t *out = (uint64_t *)xzalloc(n * 8);
    size_t c = varintDictDecodeInto(buf, len, out, n);
    h = vf_mix(h, c);
    h = HB(h, out, (c < n ? c : n) * 8);
    size_t oc = 0;
    uint64_t *al = varintDictDecode(buf, len, &oc);
    h = vf_mix(h, al != NULL);
    if (al) {
        h = vf_mix(h, oc);
        h = HB(h, al, (oc < n ? oc : n) * 8);
        free(al);
    }
    free(out);
    return h;
}

static uint64_t op_dict(const shared *S, const pool_entry *p, int use_shared,
                        unsigned par) {
    /* the shared dictionary was built from pool array 0, so that is the array
     * it can encode */
    const pool_entry *q = use_shared ? &S->p[0] : p;
    const size_t n = q->n;
    uint8_t *dst = (uint8_t *)xzalloc(n * 13 + 128);
    uint64_t h = 0x44;
    size_t len;
    if (use_shared) {
        len = varintDictEncodeWithDict(dst, S->dict, q->raw, n);
        h = vf_mix(h, (uint64_t)(int64_t)varintDictFind(S->dict,
                                                        q->raw[par % n]));
        h = vf_mix(h, varintDictLookup(S->dict, par % (S->dict->size + 1)));
        h = vf_mix(h, varintDictEncodedSizeWithDict(S->dict, n));
    } else {
        len = varintDictEncode(dst, q->raw, n);
        h = vf_mix(h, varintDictEncodedSize(q->raw, n));
        if (par & 1) {
            varintDictStats st;
            memset(&st, 0, sizeof(st));
            if (varintDictGetStats(q->raw, n, &st) == 0) {
                h = vf_mix(h, st.uniqueCount);
                h = vf_mix(h, st.totalBytes);
            }
        }
    }
    h = vf_mix(h, len);
    if (len) {
        h = HB(h, dst, len);
        h = dict_decode_both(h, dst, len, n);
    }
    free(dst);
    return h;
}

static uint64_t op_rle(const pool_entry *p, unsigned par) {
    const size_t n = p->n;
    const int hdr = par & 1;
    uint8_t *dst = (uint8_t *)xzalloc(n * 18 + 64);
    uint64_t *out = (uint64_t *)xzalloc(n * 8);
    varintRLEMeta m;
    memset(&m, 0, sizeof(m));
    size_t len = hdr ? varintRLEEncodeWithHeader(dst, p->raw, n, &m)
                     : varintRLEEncode(dst, p->raw, n, &m);
    size_t c = hdr ? varintRLEDecodeWithHeader(dst, out, n)
                   : varintRLEDecode(dst, out, n);
    uint64_t h = vf_mix(len, c);
    h = vf_mix(h, m.count);
    h = vf_mix(h, m.runCount);
    h = vf_mix(h, m.encodedSize);
    h = HB(h, dst, len);
    h = HB(h, out, (c < n ? c : n) * 8);
    h = vf_mix(h, varintRLESize(p->raw, n));
    if (!hdr) {
        h = vf_mix(h, varintRLEGetAt(dst, (par >> 1) % n));
    }
    free(out);
    free(dst);
    return h;
}

static uint64_t op_elias(const pool_entry *p, unsigned par) {
    const size_t n = p->n;
    const int delta = par & 1;
    uint8_t *dst = (uint8_t *)xzalloc(n * 16 + 64);
    uint64_t *out = (uint64_t *)xzalloc(n * 8);
    varintEliasMeta m;
    memset(&m, 0, sizeof(m));
    size_t len = delta ? varintEliasDeltaEncodeArray(dst, p->ge1, n, &m)
                       : varintEliasGammaEncodeArray(dst, p->ge1, n, &m);
    size_t bits = m.totalBits <= len * 8 ? m.totalBits : len * 8;
    size_t c = delta ? varintEliasDeltaDecodeArray(dst, bits, out, n)
                     : varintEliasGammaDecodeArray(dst, bits, out, n);
    uint64_t h = vf_mix(len, c);
    h = vf_mix(h, m.totalBits);
    h = vf_mix(h, m.encodedBytes);
    h = HB(h, dst, len);
    h = HB(h, out, (c < n ? c : n) * 8);
    free(out);
    free(dst);
    return h;
}

static uint64_t mix_bpmeta(uint64_t h, const varintBP128Meta *m) {
    h = vf_mix(h, m->count);
    h = vf_mix(h, m->blockCount);
    h = vf_mix(h, m->encodedBytes);
    h = vf_mix(h, m->lastBlockSize);
    h = vf_mix(h, m->maxBitWidth);
    return h;
}

static uint64_t op_bp128(const pool_entry *p, int wide, unsigned par) {
    const size_t n = p->n;
    const int delta = par & 1;
    uint8_t *dst = (uint8_t *)xzalloc(n * 9 + 128);
    varintBP128Meta m;
    memset(&m, 0, sizeof(m));
    uint64_t h = 0x42;
    size_t len, c;
    if (wide) {
        uint64_t *out = (uint64_t *)xzalloc(n * 8);
        if (delta) {
            len = varintBP128DeltaEncode64(dst, p->sorted, n, &m);
            c = varintBP128DeltaDecode64(dst, out, n);
        } else {
            len = varintBP128Encode64(dst, p->raw, n, &m);
            c = varintBP128Decode64(dst, out, n);
        }
        h = HB(h, out, (c < n ? c : n) * 8);
        free(out);
    } else {
        uint32_t *out = (uint32_t *)xzalloc(n * 4);
        if (delta) {
            len = varintBP128DeltaEncode32(dst, p->s32, n, &m);
            c = varintBP128DeltaDecode32(dst, out, n);
        } else {
            len = varintBP128Encode32(dst, p->u32, n, &m);
            c = varintBP128Decode32(dst, out, n);
        }
        h = HB(h, out, (c < n ? c : n) * 4);
        free(out);
    }
    h = vf_mix(h, len);
    h = vf_mix(h, c);
    h = mix_bpmeta(h, &m);
    h = HB(h, dst, len);
    free(dst);
    return h;
}

static uint64_t op_float(const pool_entry *p, unsigned par) {
    const size_t n = p->n;
    uint8_t *dst = (uint8_t *)xzalloc(n * 27 + 128);
    double *out = (double *)xzalloc(n * 8);
    varintFloatPrecision prec = (varintFloatPrecision)(par & 3);
    varintFloatEncodingMode mode = (varintFloatEncodingMode)((par >> 2) % 3);
    size_t len = varintFloatEncode(dst, p->dbl, n, prec, mode);
    uint64_t h = vf_mix(0x66, len);
    if (len) {
        size_t used = varintFloatDecode(dst, n, out);
        h = vf_mix(h, used);
        h = HB(h, dst, len);
        h = HB(h, out, n * 8);
    }
    free(out);
    free(dst);
    return h;
}

static uint64_t adaptive_decode(uint64_t h, const uint8_t *buf, size_t n) {
    uint64_t *out = (uint64_t *)xzalloc(n * 8);
    varintAdaptiveMeta dm;
    memset(&dm, 0, sizeof(dm));
    size_t c = varintAdaptiveDecode(buf, out, n, &dm);
    h = vf_mix(h, c);
    h = vf_mix(h, (uint64_t)dm.encodingType);
    h = vf_mix(h, dm.originalCount);
    h = HB(h, out, (c < n ? c : n) * 8);
    free(out);
    return h;
}

static uint64_t op_adaptive(const pool_entry *p, int forced, unsigned par) {
    const size_t n = p->n;
    uint8_t *dst = (uint8_t *)xzalloc(cap_for(n));
    varintAdaptiveMeta m;
    memset(&m, 0, sizeof(m));
    size_t len =
        forced ? varintAdaptiveEncodeWith(
                     dst, p->raw, n, (varintAdaptiveEncodingType)(par % 6), &m)
               : varintAdaptiveEncode(dst, p->raw, n, &m);
    uint64_t h = vf_mix(0x41, len);
    if (len) {
        h = vf_mix(h, m.originalCount);
        h = vf_mix(h, m.encodedSize);
        h = vf_mix(h, (uint64_t)m.encodingType);
        h = HB(h, dst, len);
        h = adaptive_decode(h, dst, n);
    }
    free(dst);
    return h;
}

/* decode-only of a shared pre-encoded buffer */
static uint64_t op_decode_shared(const pool_entry *p, unsigned par) {
    const size_t n = p->n;
    const unsigned e = par % E_COUNT;
    const uint8_t *buf = p->enc[e];
    const size_t len = p->enclen[e];
    uint64_t h = vf_mix(0x53, e);
    if (!buf || len == 0) {
        return h;
    }
    uint64_t *out = (uint64_t *)xzalloc(n * 8 + 8);
    size_t c = 0;
    switch (e) {
    case E_FOR:
        c = varintFORDecode(buf, out, n);
        h = vf_mix(h, varintFORGetAt(buf, (par / E_COUNT) % n));
        break;
    case E_PFOR: {
        varintPFORMeta dm;
        memset(&dm, 0, sizeof(dm));
        c = varintPFORDecode(buf, out, &dm);
        h = vf_mix(h, varintPFORGetAt(buf, (uint32_t)((par / E_COUNT) % n),
                                      &p->pforMeta));
        break;
    }
    case E_DICT:
        h = dict_decode_both(h, buf, len, n);
        break;
    case E_RLE:
        c = varintRLEDecode(buf, out, n);
        h = vf_mix(h, varintRLEGetAt(buf, (par / E_COUNT) % n));
        h = vf_mix(h, varintRLEGetRunCount(buf, len));
        break;
    case E_RLEH:
        c = varintRLEDecodeWithHeader(buf, out, n);
        h = vf_mix(h, varintRLEGetCount(buf));
        break;
    case E_ELIAS_G:
        c = varintEliasGammaDecodeArray(buf, p->encbits[e], out, n);
        break;
    case E_ELIAS_D:
        c = varintEliasDeltaDecodeArray(buf, p->encbits[e], out, n);
        break;
    case E_BP64:
        c = varintBP128Decode64(buf, out, n);
        h = vf_mix(h, varintBP128GetCount(buf, len));
        break;
    case E_BPD64:
        c = varintBP128DeltaDecode64(buf, out, n);
        break;
    case E_BP32: {
        uint32_t *o32 = (uint32_t *)xzalloc(n * 4);
        c = varintBP128Decode32(buf, o32, n);
        h = HB(h, o32, (c < n ? c : n) * 4);
        free(o32);
        c = 0;
        break;
    }
    case E_FLOAT: {
        size_t used = varintFloatDecode(buf, n, (double *)out);
        h = vf_mix(h, used);
        c = n;
        break;
    }
    case E_ADAPTIVE:
        h = adaptive_decode(h, buf, n);
        break;
    case E_DELTA:
        h = vf_mix(h, varintDeltaDecodeUnsigned(buf, n, out));
        c = n;
        break;
    default: { /* E_GROUP */
        uint8_t fc = 0;
        uint64_t g[64];
        memset(g, 0, sizeof(g));
        size_t used = varintGroupDecode(buf, g, &fc, 64);
        h = vf_mix(h, used);
        h = HB(h, g, (size_t)fc * 8);
        break;
    }
    }
    h = vf_mix(h, c);
    h = HB(h, out, (c < n ? c : n) * 8);
    free(out);
    return h;
}

/* packed-array history on thread-private storage, driven by the pool array */
#define PK_CAP 120
static uint64_t op_packed(const pool_entry *p, unsigned par) {
    uint32_t holder[64]; /* 2048 bits = 170 elements of 12 bits */
    memset(holder, 0, sizeof(holder));
    uint32_t len = 0;
    uint64_t h = 0x4b;
    size_t steps = p->n < 200 ? p->n : 200;
    for (size_t i = 0; i < steps; i++) {
        uint64_t x = p->raw[i] * 0x9e3779b97f4a7c15ULL + par;
        uint16_t val = (uint16_t)((x >> 20) & 0xfff);
        switch ((x >> 8) % 5) {
        case 0:
        case 1:
            if (len < PK_CAP) {
                c17Packed12InsertSorted(holder, len, val);
                len++;
            }
            break;
        case 2:
            if (len > 0 && c17Packed12DeleteMember(holder, len, val)) {
                len--;
                h = vf_mix(h, 1);
            }
            break;
        case 3:
            h = vf_mix(h, (uint64_t)c17Packed12Member(holder, len, val));
            break;
        default:
            if (len > 0) {
                h = vf_mix(h, c17Packed12Get(holder, (uint32_t)(x % len)));
            }
            break;
        }
    }
    for (uint32_t i = 0; i < len; i++) {
        h = vf_mix(h, c17Packed12Get(holder, i));
    }
    /* unsorted slots: plain set / get above the sorted prefix */
    for (uint32_t i = 0; i < 16; i++) {
        c17Packed12Set(holder, PK_CAP + 1 + i, (uint16_t)((par * 37u + i * 259u) & 0xfff));
    }
    for (uint32_t i = 0; i < 16; i++) {
        h = vf_mix(h, c17Packed12Get(holder, PK_CAP + 1 + i));
    }
    return vf_mix(h, len);
}

/* bitstream history on thread-private storage */
static uint64_t op_bitstream(const pool_entry *p, unsigned par) {
    vbits bs[18];
    memset(bs, 0, sizeof(bs));
    uint64_t h = 0x62;
    size_t steps = p->n < 120 ? p->n : 120;
    for (size_t i = 0; i < steps; i++) {
        uint64_t x = p->raw[i] * 0xff51afd7ed558ccdULL + par + i;
        size_t width = 1 + (size_t)((x >> 3) % 64);
        size_t off = (size_t)((x >> 12) % (16 * 64 - width + 1));
        uint64_t val = p->raw[i] ^ x;
        if (width < 64) {
            val &= (1ULL << width) - 1;
        }
        varintBitstreamSet(bs, off, width, val);
        h = vf_mix(h, varintBitstreamGet(bs, off, width));
        h = vf_mix(h, varintBitstreamGet(bs, (off * 7) % (15 * 64), 1 + (i % 64)));
    }
    return HB(h, bs, sizeof(bs));
}

static uint64_t op_run(const shared *S, unsigned codec, unsigned input) {
    const pool_entry *p = &S->p[input % NPOOL];
    const unsigned par = input / NPOOL;
    switch (codec) {
    case O_TAGGED:
    case O_EXTERNAL:
    case O_CHAINED:
    case O_SPLIT:
        return op_scalar(p, codec, par);
    case O_DELTA_U:
        return op_delta(p, 0);
    case O_DELTA_S:
        return op_delta(p, 1);
    case O_FOR:
        return op_for(p, 0, par);
    case O_FOR_BATCH:
        return op_for(p, 1, par);
    case O_PFOR:
        return op_pfor(p, par);
    case O_GROUP:
        return op_group(p, par);
    case O_DICT:
        return op_dict(S, p, 0, par);
    case O_DICT_SHARED:
        return op_dict(S, p, 1, par);
    case O_RLE:
        return op_rle(p, par);
    case O_ELIAS:
        return op_elias(p, par);
    case O_BP128_32:
        return op_bp128(p, 0, par);
    case O_BP128_64:
        return op_bp128(p, 1, par);
    case O_FLOAT:
        return op_float(p, par);
    case O_ADAPT_AUTO:
        return op_adaptive(p, 0, par);
    case O_ADAPT_FORCED:
        return op_adaptive(p, 1, par);
    case O_DECODE_SHARED:
        return op_decode_shared(p, par);
    case O_PACKED:
        return op_packed(p, par);
    default:
        return op_bitstream(p, par);
    }
}

/* -------------------------------------------------------------- pool setup */
static void pool_build(pool_entry *p, const vf_arr *a) {
    const size_t n = a->n;
    memset(p, 0, sizeof(*p));
    p->n = n;
    p->raw = (uint64_t *)xmalloc(n * 8);
    p->ge1 = (uint64_t *)xmalloc(n * 8);
    p->sorted = (uint64_t *)xmalloc(n * 8);
    p->sd = (int64_t *)xmalloc(n * 8);
    p->u32 = (uint32_t *)xmalloc(n * 4);
    p->s32 = (uint32_t *)xmalloc(n * 4);
    p->dbl = (double *)xmalloc(n * 8);
    for (size_t i = 0; i < n; i++) {
        uint64_t v = a->v[i];
        p->raw[i] = v;
        p->ge1[i] = v ? v : 1;
        p->sorted[i] = v;
        int64_t s = (int64_t)v;
        if (s > (int64_t)(1ULL << 62) || s < -(int64_t)(1ULL << 62)) {
            s >>= 2;
        }
        p->sd[i] = s;
        p->u32[i] = (uint32_t)v;
        p->s32[i] = (uint32_t)v;
        /* doubles: a window of exponents, both signs, some specials */
        uint64_t u;
        switch (v % 11) {
        case 0:
            u = 0;
            break;
        case 1:
            u = 0x7ffULL << 52;
            break;
        case 2:
            u = v >> 13; /* denormal */
            break;
        default:
            u = ((v >> 63) << 63) |
                ((uint64_t)(0x3ffu - 30u + (unsigned)((v >> 5) % 60)) << 52) |
                ((v * 0x9e3779b97f4a7c15ULL) & 0xfffffffffffffULL);
            break;
        }
        memcpy(&p->dbl[i], &u, 8);
    }
    qsort(p->sorted, n, 8, cmp_u64);
    qsort(p->s32, n, 4, cmp_u32);
}

/* shared pre-encoded buffers (the first library calls of the main thread) */
static void pool_encode(pool_entry *p) {
    const size_t n = p->n;
    for (unsigned e = 0; e < E_COUNT; e++) {
        p->enc[e] = (uint8_t *)xzalloc(cap_for(n));
    }
    p->enclen[E_FOR] = enc_for(p->enc[E_FOR], p->raw, n, 0, NULL);
    p->enclen[E_PFOR] = enc_pfor(p->enc[E_PFOR], p->raw, n, 0, &p->pforMeta, NULL);
    p->enclen[E_DICT] = varintDictEncode(p->enc[E_DICT], p->raw, n);
    p->enclen[E_RLE] = varintRLEEncode(p->enc[E_RLE], p->raw, n, NULL);
    p->enclen[E_RLEH] = varintRLEEncodeWithHeader(p->enc[E_RLEH], p->raw, n, NULL);
    {
        varintEliasMeta m;
        memset(&m, 0, sizeof(m));
        p->enclen[E_ELIAS_G] =
            varintEliasGammaEncodeArray(p->enc[E_ELIAS_G], p->ge1, n, &m);
        p->encbits[E_ELIAS_G] = m.totalBits <= p->enclen[E_ELIAS_G] * 8
                                    ? m.totalBits
                                    : p->enclen[E_ELIAS_G] * 8;
        memset(&m, 0, sizeof(m));
        p->enclen[E_ELIAS_D] =
            varintEliasDeltaEncodeArray(p->enc[E_ELIAS_D], p->ge1, n, &m);
        p->encbits[E_ELIAS_D] = m.totalBits <= p->enclen[E_ELIAS_D] * 8
                                    ? m.totalBits
                                    : p->enclen[E_ELIAS_D] * 8;
    }
    p->enclen[E_BP64] = varintBP128Encode64(p->enc[E_BP64], p->raw, n, NULL);
    p->enclen[E_BPD64] =
        varintBP128DeltaEncode64(p->enc[E_BPD64], p->sorted, n, NULL);
    p->enclen[E_BP32] = varintBP128Encode32(p->enc[E_BP32], p->u32, n, NULL);
    p->enclen[E_FLOAT] =
        varintFloatEncode(p->enc[E_FLOAT], p->dbl, n, VARINT_FLOAT_PRECISION_HIGH,
                          VARINT_FLOAT_MODE_DELTA_EXPONENT);
    p->enclen[E_ADAPTIVE] =
        varintAdaptiveEncode(p->enc[E_ADAPTIVE], p->raw, n, NULL);
    p->enclen[E_DELTA] = varintDeltaEncodeUnsigned(p->enc[E_DELTA], p->raw, n);
    p->enclen[E_GROUP] =
        varintGroupEncode(p->enc[E_GROUP], p->raw, (uint8_t)(n > 64 ? 64 : n));
}

static void pool_free(pool_entry *p) {
    free(p->raw);
    free(p->ge1);
    free(p->sorted);
    free(p->sd);
    free(p->u32);
    free(p->s32);
    free(p->dbl);
    for (unsigned e = 0; e < E_COUNT; e++) {
        free(p->enc[e]);
    }
}


/* ----------------------------------------------------------------- threads */
typedef struct oprec {
    uint8_t codec, input;
    uint64_t expect;
} oprec;

typedef struct worker {
    const shared *S;
    pthread_barrier_t *bar;
    unsigned id, nops, repeats;
    int cold; /* cold-start pass: every codec once, hashes recorded */
    oprec ops[MAXOPS];
    /* thread-private results */
    uint64_t cold_hash[O_COUNT];
    int bad;
    unsigned bad_op, bad_rep;
    uint64_t got;
} worker;

/* input selector used by thread t for codec k in the cold-start pass */
static unsigned cold_input(unsigned t, unsigned k) {
    return ((t + k) % NPOOL) + NPOOL * ((k + t / NPOOL) & 7);
}

static int cold_capable(unsigned k) {
    /* these two need inputs that only exist after the main thread has called
     * the library (pre-encoded buffers, the prebuilt dictionary) */
    return k != O_DECODE_SHARED && k != O_DICT_SHARED;
}

static void *worker_main(void *arg) {
    worker *w = (worker *)arg;
    pthread_barrier_wait(w->bar);
    if (w->cold) {
        for (unsigned j = 0; j < O_COUNT; j++) {
            unsigned k = (j + 5 * w->id) % O_COUNT;
            if (cold_capable(k)) {
                w->cold_hash[k] = op_run(w->S, k, cold_input(w->id, k));
            }
        }
        return NULL;
    }
    for (unsigned rep = 0; rep < w->repeats; rep++) {
        for (unsigned i = 0; i < w->nops; i++) {
            uint64_t h = op_run(w->S, w->ops[i].codec, w->ops[i].input);
            if (h != w->ops[i].expect && !w->bad) {
                w->bad = 1;
                w->bad_op = i;
                w->bad_rep = rep;
                w->got = h;
            }
        }
    }
    return NULL;
}

/* returns 0 when the threads could not be created */
static int run_threads(worker *W, unsigned nthreads, pthread_barrier_t *bar) {
    pthread_t tid[MAXTHREADS];
    unsigned started = 0;
    for (unsigned t = 0; t < nthreads; t++) {
        if (pthread_create(&tid[t], NULL, worker_main, &W[t]) != 0) {
            break;
        }
        started++;
    }
    /* the main thread stands in for threads that could not be created so the
     * ones already waiting are released */
    for (unsigned t = started; t < nthreads; t++) {
        pthread_barrier_wait(bar);
    }
    for (unsigned t = 0; t < started; t++) {
        pthread_join(tid[t], NULL);
    }
    return started == nthreads;
}

/* the library has not been called by this process yet: lazily initialised
 * state would be initialised inside the first concurrent phase */
static int g_warm;

static void run_case(vf_report *rep, shared *S, worker *W, unsigned nthreads) {
    pthread_barrier_t bar;
    int did_cold = 0;
    if (!g_warm) {
        g_warm = 1;
        did_cold = 1;
        vf_class("coldstart");
        pthread_barrier_init(&bar, NULL, nthreads);
        for (unsigned t = 0; t < nthreads; t++) {
            W[t].bar = &bar;
            W[t].cold = 1;
        }
        int ok = run_threads(W, nthreads, &bar);
        pthread_barrier_destroy(&bar);
        for (unsigned t = 0; t < nthreads; t++) {
            W[t].cold = 0;
        }
        if (!ok) {
            vf_discard("pthread_create failed");
            return;
        }
    }

    /* first library calls of the main thread */
    for (unsigned i = 0; i < NPOOL; i++) {
        pool_encode(&S->p[i]);
    }
    S->dict = varintDictCreate();
    if (!S->dict || varintDictBuild(S->dict, S->p[0].raw, S->p[0].n) != 0) {
        abort();
    }

    if (did_cold) {
        for (unsigned k = 0; k < O_COUNT; k++) {
            if (!cold_capable(k)) {
                continue;
            }
            for (unsigned t = 0; t < nthreads; t++) {
                uint64_t want = op_run(S, k, cold_input(t, k));
                if (W[t].cold_hash[k] != want) {
                    char site[64];
                    snprintf(site, sizeof(site), "%s", op_name[k]);
                    vf_fail(rep, site, "value",
                            "cold start: thread %u of %u, %s input=%u: output "
                            "hash 0x%016llx differs from the sequential run's "
                            "0x%016llx",
                            t, nthreads, op_name[k], cold_input(t, k),
                            (unsigned long long)W[t].cold_hash[k],
                            (unsigned long long)want);
                    return;
                }
            }
        }
    }

    /* sequential expectations, then the generated assignment concurrently */
    for (unsigned t = 0; t < nthreads; t++) {
        for (unsigned i = 0; i < W[t].nops; i++) {
            W[t].ops[i].expect = op_run(S, W[t].ops[i].codec, W[t].ops[i].input);
        }
    }
    pthread_barrier_init(&bar, NULL, nthreads);
    for (unsigned t = 0; t < nthreads; t++) {
        W[t].bar = &bar;
    }
    int ok = run_threads(W, nthreads, &bar);
    pthread_barrier_destroy(&bar);
    if (!ok) {
        vf_discard("pthread_create failed");
        return;
    }
    for (unsigned t = 0; t < nthreads; t++) {
        worker *w = &W[t];
        if (w->bad) {
            const oprec *o = &w->ops[w->bad_op];
            char site[64];
            snprintf(site, sizeof(site), "%s", op_name[o->codec]);
            vf_fail(rep, site, "value",
                    "thread %u of %u, repeat %u, op #%u %s input=%u (pool "
                    "array %u, n=%zu): output hash 0x%016llx differs from the "
                    "sequential run's 0x%016llx",
                    t, nthreads, w->bad_rep, w->bad_op, op_name[o->codec],
                    o->input, o->input % NPOOL, S->p[o->input % NPOOL].n,
                    (unsigned long long)w->got, (unsigned long long)o->expect);
            return;
        }
    }
}

static void case_free(shared *S, worker *W) {
    if (S->dict) {
        varintDictFree(S->dict);
    }
    for (unsigned i = 0; i < NPOOL; i++) {
        pool_free(&S->p[i]);
    }
    free(W);
    free(S);
}

void vf_run(vf_rd *r, vf_report *rep) {
    unsigned nthreads = 2 + vf_u8(r) % (MAXTHREADS - 1);
    unsigned repeats = 1 + vf_u8(r) % (vf_tier() ? 50 : 16);
    if (strcmp(vf_config(), "tsan") != 0) {
        /* uninstrumented builds are ~10x faster: keep the threads contending
         * for a comparable time */
        repeats *= 8;
    }
    shared *S = (shared *)xzalloc(sizeof(shared));
    const size_t maxlen = vf_tier() ? 4200 : 600;
    vf_desc(rep, "threads=%u repeats=%u pool=[", nthreads, repeats);
    for (unsigned i = 0; i < NPOOL; i++) {
        vf_arr a;
        vf_take_array(r, &a, maxlen, 0);
        pool_build(&S->p[i], &a);
        vf_desc(rep, "%s%.60s", i ? " | " : "", a.desc);
        vf_arr_free(&a);
    }

    worker *W = (worker *)xzalloc(sizeof(worker) * nthreads);
    /* assignment */
    unsigned seen[O_COUNT][NPOOL]; /* bitmask of threads using (codec, pool) */
    memset(seen, 0, sizeof(seen));
    uint64_t ch = vf_mix(nthreads, repeats);
    for (unsigned i = 0; i < NPOOL; i++) {
        ch = HB(ch, S->p[i].raw, S->p[i].n * 8);
    }
    vf_desc(rep, "] ops=");
    for (unsigned t = 0; t < nthreads; t++) {
        worker *w = &W[t];
        w->S = S;
        w->id = t;
        w->repeats = repeats;
        w->nops = 1 + vf_u8(r) % MAXOPS;
        vf_desc(rep, "%st%u:", t ? " " : "", t);
        for (unsigned i = 0; i < w->nops; i++) {
            w->ops[i].codec = (uint8_t)(vf_u8(r) % O_COUNT);
            w->ops[i].input = vf_u8(r);
            seen[w->ops[i].codec][w->ops[i].input % NPOOL] |= 1u << t;
            ch = vf_mix(ch, ((uint64_t)t << 16) |
                                ((uint64_t)w->ops[i].codec << 8) |
                                w->ops[i].input);
            vf_desc(rep, "%s%s/%u", i ? "," : "", op_name[w->ops[i].codec],
                    w->ops[i].input);
            char cls[48];
            snprintf(cls, sizeof(cls), "op.%s", op_name[w->ops[i].codec]);
            vf_class(cls);
        }
    }
    int shared_pair = 0;
    for (unsigned c = 0; c < O_COUNT; c++) {
        for (unsigned i = 0; i < NPOOL; i++) {
            unsigned m = seen[c][i];
            if (m & (m - 1)) {
                shared_pair = 1;
                char cls[64];
                snprintf(cls, sizeof(cls), "concurrent.%s", op_name[c]);
                vf_class(cls);
            }
        }
    }
    {
        char cls[32];
        snprintf(cls, sizeof(cls), "threads.%s",
                 nthreads <= 4 ? "2-4" : nthreads <= 8 ? "5-8" : "9-16");
        vf_class(cls);
    }
    if (shared_pair) {
        vf_nontrivial(ch);
    }
    run_case(rep, S, W, nthreads);
    case_free(S, W);
}

/* deterministic smoke case: 16 threads, every codec in several threads on
 * three fixed pool arrays (also a cold start when nothing ran before it in
 * this process) */
void vf_sweep(vf_report *rep) {
    static const uint8_t pool[] = {
        /* 128 values of 20 random bits */
        2, 9, 0, VF_SH_RANDOM_WIDTH, 38, 1, 0x11, 0x22, 0x33, 0x44, 0x55, 0x66,
        0x77, 0x08,
        /* 300 sorted values of 40 random bits */
        3, 44, 2, VF_SH_SORTED_RANDOM, 78, 1, 0x91, 0xa2, 0xb3, 0xc4, 0xd5, 0xe6,
        0xf7, 0x18,
        /* 30 values from a palette of three */
        0, 29, 0, VF_SH_FEW_UNIQUE, 2, 2, 7, 2, 200, 2, 9, 0x21, 0x43, 0x65,
        0x07};
    uint8_t c[2 + sizeof(pool) + 16 * (1 + 2 * MAXOPS)];
    size_t k = 0;
    c[k++] = 14; /* 16 threads */
    c[k++] = 3;  /* repeats */
    memcpy(c + k, pool, sizeof(pool));
    k += sizeof(pool);
    for (unsigned t = 0; t < 16; t++) {
        c[k++] = MAXOPS - 1;
        for (unsigned i = 0; i < MAXOPS; i++) {
            c[k++] = (uint8_t)((t * 3 + i * 5) % O_COUNT);
            c[k++] = (uint8_t)(i * 7 + t);
        }
    }
    vf_rd r = {c, k, 0};
    vf_run(&r, rep);
}
