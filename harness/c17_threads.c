/* C17 - stateless codecs are safe to call concurrently.
 *
 * case layout:  threads:1 (2..16)  repeats:1  lenmix:1
 *               hot: { kind:1 par:1 sel:1 units:1 }   (units 0 = no hot loop)
 *               roles:8   (4 bits per thread: member 0..3, private copy?)
 *               pool: 3 x array-descriptor
 *               then per thread  nops:1 (1..8) x { codec:1 input:1 }.
 *
 * The pool (three integer arrays, their domain-conforming variants, doubles,
 * one pre-encoded buffer per codec and one prebuilt varintDict) is built by
 * the main thread and is read-only afterwards.  `lenmix` gives each pool slot
 * a minimum length (none / 64 / 256 / 1024; a shorter generated array is
 * tiled up to it), so arrays beyond the small-input paths of the codecs are
 * always present.
 *
 * A sequential pass computes the expectation of every operation (hash of
 * returned lengths, bytes up to the returned length, decoded values, metadata
 * fields the library writes).  Then T pthreads start behind a barrier and run
 *
 *   phase 1  their generated operation lists `repeats` times (every
 *            repetition of every operation is compared), and
 *   phase 2  a hot loop: every thread calls the SAME codec entry point (one
 *            of 17 lean encode / analyse / decode calls, or any of the 22
 *            phase-1 operations) back to back on one member of a group of
 *            four inputs of EQUAL length and different contents (member 0 =
 *            pool array `sel & 3`, members 1,2
 *            = the contents of the other two pool arrays tiled to that
 *            length, member 3 = member 0 reversed and shifted).  `role` gives
 *            the member and whether the thread reads the shared copy or a
 *            thread-private copy of it.  Threads with the same member hammer
 *            the same (codec, input) pair - what a memo or cache keyed by the
 *            input would hit - while the others feed the same codec different
 *            inputs of the same length.  Every iteration's returned length,
 *            metadata fields and output bytes are compared with the
 *            sequentially computed ones.
 *
 * All outputs are thread-private.  oracle: in the `tsan` configuration any
 * ThreadSanitizer report kills the process (halt_on_error=1, exitcode=87; the
 * framework captures the in-flight case); in every configuration every result
 * of every thread must equal the sequential one.  The uninstrumented `rel`
 * configuration runs ~10x the repetitions (narrow windows need volume).
 *
 * Schedule dependence: a result mismatch is a fact about one schedule.  To
 * keep shrinking and confirmation meaningful (a) once this process has
 * reported a violation, a later case (= a shrink candidate) is reported only
 * if it fails twice in three runs, and at most SHRINK_BUDGET candidates are
 * executed at all; (b) the first case of a process (= a replay, or the
 * deterministic sweep) is run REPLAY_ATTEMPTS times unless it fails earlier.
 * Neither can create a violation that did not occur.
 *
 * Barriers are bounded (a thread that does not arrive within ~20 s breaks the
 * barrier for everybody and the case is discarded), so a worker cannot hang
 * on a missing thread. */
#include "vf.h"
#include "vf_arr.h"

#include <pthread.h>
#include <sched.h>
#include <stdarg.h>
#include <stdatomic.h>
#include <time.h>

#include "varint.h"
#include "varintAdaptive.h"
#include "varintBP128.h"
#include "varintBitstream.h"
#include "varintChained.h"
#include "varintChainedSimple.h"
#include "varintDelta.h"
#include "varintDict.h"
#include "varintElias.h"
#include "varintExternal.h"
#include "varintExternalBigEndian.h"
#include "varintFOR.h"
#include "varintFloat.h"
#include "varintGroup.h"
#include "varintPFOR.h"
#include "varintRLE.h"
#include "varintSplit.h"
#include "varintSplitFull.h"
#include "varintSplitFull16.h"
#include "varintSplitFullNoZero.h"
#include "varintTagged.h"

/* the 12-bit instantiation the tree itself uses (varintPackedTest.c) */
#define PACK_STATIC 1 /* varintDimension.c already exports varintPacked12* */
#define PACK_FUNCTION_PREFIX c17Packed
#define PACK_STORAGE_BITS 12
#define PACK_STORAGE_SLOT_STORAGE_TYPE uint32_t
#define PACK_STORAGE_VALUE_TYPE uint16_t
#define PACK_STORAGE_MICRO_PROMOTION_TYPE uint32_t
#include "varintPacked.h"

const char *vf_prop_id = "C17";
const size_t vf_case_maxlen = 400;

#define NPOOL 3
#define MAXTHREADS 16
#define MAXOPS 8

enum enc_kind {
    E_FOR = 0,
    E_PFOR,
    E_DICT,
    E_RLE,
    E_RLEH,
    E_ELIAS_G,
    E_ELIAS_D,
    E_BP64,
    E_BPD64,
    E_BP32,
    E_FLOAT,
    E_ADAPTIVE,
    E_DELTA,
    E_GROUP,
    E_COUNT
};

typedef struct pool_entry {
    size_t n;
    uint64_t *raw;    /* as generated */
    uint64_t *ge1;    /* every value >= 1 */
    uint64_t *sorted; /* non-decreasing */
    int64_t *sd;      /* differences representable */
    uint32_t *u32;
    uint32_t *s32; /* sorted, 32-bit */
    double *dbl;
    uint8_t *enc[E_COUNT]; /* shared pre-encoded buffers */
    size_t enclen[E_COUNT];
    size_t encbits[E_COUNT]; /* Elias */
    varintPFORMeta pforMeta;
} pool_entry;

typedef struct shared {
    pool_entry p[NPOOL];
    varintDict *dict; /* prebuilt from p[0].raw, read-only */
} shared;

enum op_kind {
    O_TAGGED = 0,
    O_EXTERNAL,
    O_CHAINED,
    O_SPLIT,
    O_DELTA_U,
    O_DELTA_S,
    O_FOR,
    O_FOR_BATCH,
    O_PFOR,
    O_GROUP,
    O_DICT,
    O_DICT_SHARED,
    O_RLE,
    O_ELIAS,
    O_BP128_32,
    O_BP128_64,
    O_FLOAT,
    O_ADAPT_AUTO,
    O_ADAPT_FORCED,
    O_DECODE_SHARED,
    O_PACKED,
    O_BITSTREAM,
    O_COUNT
};

static const char *const op_name[O_COUNT] = {
    "scalar.tagged", "scalar.external", "scalar.chained", "scalar.split",
    "delta.unsigned", "delta.signed",   "for",            "for.batch",
    "pfor",          "group",           "dict",           "dict.shared",
    "rle",           "elias",           "bp128.32",       "bp128.64",
    "float",         "adaptive.auto",   "adaptive.forced", "decode.shared",
    "packed12",      "bitstream"};

static uint64_t HB(uint64_t h, const void *p, size_t n) {
    return vf_hash_bytes(h, p, n);
}

static void *xmalloc(size_t n) {
    void *p = malloc(n ? n : 1);
    if (!p) {
        abort();
    }
    return p;
}

static void *xzalloc(size_t n) {
    void *p = calloc(n ? n : 1, 1);
    if (!p) {
        abort();
    }
    return p;
}

static int cmp_u64(const void *a, const void *b) {
    uint64_t x = *(const uint64_t *)a, y = *(const uint64_t *)b;
    return x < y ? -1 : x > y;
}

static int cmp_u32(const void *a, const void *b) {
    uint32_t x = *(const uint32_t *)a, y = *(const uint32_t *)b;
    return x < y ? -1 : x > y;
}

/* ------------------------------------------------------------ encoders used
 * both by the pool setup and by the operations */
static size_t cap_for(size_t n) {
    return n * 27 + 8400;
}

static size_t enc_for(uint8_t *dst, const uint64_t *v, size_t n, int batch,
                      uint64_t *h) {
    varintFORMeta m;
    memset(&m, 0, sizeof(m));
    size_t len = batch ? varintFORBatchEncode(dst, v, n, &m)
                       : varintFOREncode(dst, v, n, &m);
    if (h) {
        *h = vf_mix(*h, m.minValue);
        *h = vf_mix(*h, m.maxValue);
        *h = vf_mix(*h, m.range);
        *h = vf_mix(*h, m.count);
        *h = vf_mix(*h, m.encodedSize);
        *h = vf_mix(*h, (uint64_t)m.offsetWidth);
    }
    return len;
}

static size_t enc_pfor(uint8_t *dst, const uint64_t *v, size_t n, unsigned thr,
                       varintPFORMeta *m, uint64_t *h) {
    static const uint32_t t[3] = {VARINT_PFOR_THRESHOLD_95,
                                  VARINT_PFOR_THRESHOLD_90,
                                  VARINT_PFOR_THRESHOLD_99};
    memset(m, 0, sizeof(*m));
    size_t len = varintPFOREncode(dst, v, (uint32_t)n, t[thr % 3], m);
    if (h && len) {
        *h = vf_mix(*h, m->min);
        *h = vf_mix(*h, m->exceptionMarker);
        *h = vf_mix(*h, m->thresholdValue);
        *h = vf_mix(*h, (uint64_t)m->width);
        *h = vf_mix(*h, m->count);
        *h = vf_mix(*h, m->exceptionCount);
        *h = vf_mix(*h, m->threshold);
    }
    return len;
}

/* ------------------------------------------------------------- operations */
static uint64_t op_scalar(const pool_entry *p, unsigned kind, unsigned par) {
    uint64_t h = kind;
    size_t k = p->n < 48 ? p->n : 48;
    for (size_t i = 0; i < k; i++) {
        uint64_t v = p->raw[i], r = 0;
        uint8_t b[24];
        memset(b, 0, sizeof(b));
        unsigned l = 0, g = 0;
        switch (kind) {
        case O_TAGGED:
            l = varintTaggedPut64(b, v);
            g = varintTaggedGet64(b, &r);
            h = vf_mix(h, varintTaggedLen(v));
            break;
        case O_EXTERNAL:
            if (par & 1) {
                l = varintExternalBigEndianPut(b, v);
                r = varintExternalBigEndianGet(b, (varintWidth)l);
            } else {
                l = varintExternalPut(b, v);
                r = varintExternalGet(b, (varintWidth)l);
            }
            g = l;
            break;
        case O_CHAINED:
            if (par & 1) {
                l = varintChainedSimpleEncode64(b, v);
                g = varintChainedSimpleDecode64(b, &r);
            } else {
                l = varintChainedPutVarint(b, v);
                g = varintChainedGetVarint(b, &r);
            }
            break;
        default:
            switch (par & 3) {
            case 0:
                varintSplitPut_(b, l, v);
                varintSplitGet_(b, g, r);
                break;
            case 1:
                varintSplitFullPut_(b, l, v);
                varintSplitFullGet_(b, g, r);
                break;
            case 2:
                varintSplitFull16Put_(b, l, v);
                varintSplitFull16Get_(b, g, r);
                break;
            default:
                if (v == 0) {
                    v = 1;
                }
                varintSplitFullNoZeroPut_(b, l, v);
                varintSplitFullNoZeroGet_(b, g, r);
                break;
            }
            break;
        }
        h = vf_mix(h, l);
        h = vf_mix(h, g);
        h = vf_mix(h, r);
        h = HB(h, b, l <= 16 ? l : 16);
    }
    return h;
}

static uint64_t op_delta(const pool_entry *p, int is_signed) {
    const size_t n = p->n;
    uint8_t *dst = (uint8_t *)xzalloc(n * 9 + 64);
    uint64_t *out = (uint64_t *)xzalloc(n * 8);
    size_t len, used;
    if (is_signed) {
        len = varintDeltaEncode(dst, p->sd, n);
        used = varintDeltaDecode(dst, n, (int64_t *)out);
    } else {
        len = varintDeltaEncodeUnsigned(dst, p->raw, n);
        used = varintDeltaDecodeUnsigned(dst, n, out);
    }
    uint64_t h = vf_mix(len, used);
    h = HB(h, dst, len);
    h = HB(h, out, n * 8);
    free(out);
    free(dst);
    return h;
}

static uint64_t op_for(const pool_entry *p, int batch, unsigned par) {
    const size_t n = p->n;
    uint8_t *dst = (uint8_t *)xzalloc(n * 8 + 64);
    uint64_t *out = (uint64_t *)xzalloc(n * 8);
    uint64_t h = 0x46;
    if (par & 1) {
        varintFORMeta a;
        memset(&a, 0, sizeof(a));
        if (batch) {
            varintFORBatchAnalyze(p->raw, n, &a);
        } else {
            varintFORAnalyze(p->raw, n, &a);
        }
        h = vf_mix(h, a.minValue ^ a.range ^ (uint64_t)a.offsetWidth);
        h = vf_mix(h, varintFORSize(&a));
    }
    size_t len = enc_for(dst, p->raw, n, batch, &h);
    size_t c = batch ? varintFORBatchDecode(dst, out, n)
                     : varintFORDecode(dst, out, n);
    h = vf_mix(h, len);
    h = vf_mix(h, c);
    h = HB(h, dst, len);
    h = HB(h, out, (c < n ? c : n) * 8);
    h = vf_mix(h, varintFORGetAt(dst, (par >> 1) % n));
    h = vf_mix(h, varintFORGetCount(dst));
    free(out);
    free(dst);
    return h;
}

static uint64_t op_pfor(const pool_entry *p, unsigned par) {
    const size_t n = p->n;
    uint8_t *dst = (uint8_t *)xzalloc(n * 27 + 128);
    uint64_t *out = (uint64_t *)xzalloc(n * 8);
    uint64_t h = 0x50;
    varintPFORMeta m;
    size_t len = enc_pfor(dst, p->raw, n, par, &m, &h);
    h = vf_mix(h, len);
    if (len) {
        h = HB(h, dst, len);
        varintPFORMeta dm;
        memset(&dm, 0, sizeof(dm));
        size_t c = varintPFORDecode(dst, out, &dm);
        h = vf_mix(h, c);
        h = HB(h, out, (c < n ? c : n) * 8);
        h = vf_mix(h, varintPFORGetAt(dst, (uint32_t)((par >> 2) % n), &m));
        h = vf_mix(h, varintPFORSize(&m));
    }
    free(out);
    free(dst);
    return h;
}

static uint64_t op_group(const pool_entry *p, unsigned par) {
    const size_t n = p->n > 64 ? 64 : p->n;
    uint8_t dst[1 + 16 + 64 * 8 + 16];
    uint64_t out[64];
    memset(dst, 0, sizeof(dst));
    memset(out, 0, sizeof(out));
    size_t len = varintGroupEncode(dst, p->raw, (uint8_t)n);
    uint8_t fc = 0;
    size_t used = varintGroupDecode(dst, out, &fc, 64);
    uint64_t fv = 0;
    size_t fr = varintGroupGetField(dst, (uint8_t)(par % n), &fv);
    uint64_t h = vf_mix(len, used);
    h = vf_mix(h, fc);
    h = vf_mix(h, fr);
    h = vf_mix(h, fv);
    h = vf_mix(h, varintGroupGetSize(dst));
    h = HB(h, dst, len);
    h = HB(h, out, (size_t)fc * 8);
    return h;
}

static uint64_t dict_decode_both(uint64_t h, const uint8_t *buf, size_t len,
                                 size_t n) {
    uint64_t *out = (uint64_t *)xzalloc(n * 8);
    size_t c = varintDictDecodeInto(buf, len, out, n);
    h = vf_mix(h, c);
    h = HB(h, out, (c < n ? c : n) * 8);
    size_t oc = 0;
    uint64_t *al = varintDictDecode(buf, len, &oc);
    h = vf_mix(h, al != NULL);
    if (al) {
        h = vf_mix(h, oc);
        h = HB(h, al, (oc < n ? oc : n) * 8);
        free(al);
    }
    free(out);
    return h;
}

static uint64_t op_dict(const shared *S, const pool_entry *p, int use_shared,
                        unsigned par) {
    /* the shared dictionary was built from pool array 0, so that is the array
     * it can encode */
    const pool_entry *q = use_shared ? &S->p[0] : p;
    const size_t n = q->n;
    uint8_t *dst = (uint8_t *)xzalloc(n * 13 + 128);
    uint64_t h = 0x44;
    size_t len;
    if (use_shared) {
        len = varintDictEncodeWithDict(dst, S->dict, q->raw, n);
        h = vf_mix(h, (uint64_t)(int64_t)varintDictFind(S->dict,
                                                        q->raw[par % n]));
        h = vf_mix(h, varintDictLookup(S->dict, par % (S->dict->size + 1)));
        h = vf_mix(h, varintDictEncodedSizeWithDict(S->dict, n));
    } else {
        len = varintDictEncode(dst, q->raw, n);
        h = vf_mix(h, varintDictEncodedSize(q->raw, n));
        if (par & 1) {
            varintDictStats st;
            memset(&st, 0, sizeof(st));
            if (varintDictGetStats(q->raw, n, &st) == 0) {
                h = vf_mix(h, st.uniqueCount);
                h = vf_mix(h, st.totalBytes);
            }
        }
    }
    h = vf_mix(h, len);
    if (len) {
        h = HB(h, dst, len);
        h = dict_decode_both(h, dst, len, n);
    }
    free(dst);
    return h;
}

static uint64_t op_rle(const pool_entry *p, unsigned par) {
    const size_t n = p->n;
    const int hdr = par & 1;
    uint8_t *dst = (uint8_t *)xzalloc(n * 18 + 64);
    uint64_t *out = (uint64_t *)xzalloc(n * 8);
    varintRLEMeta m;
    memset(&m, 0, sizeof(m));
    size_t len = hdr ? varintRLEEncodeWithHeader(dst, p->raw, n, &m)
                     : varintRLEEncode(dst, p->raw, n, &m);
    size_t c = hdr ? varintRLEDecodeWithHeader(dst, out, n)
                   : varintRLEDecode(dst, out, n);
    uint64_t h = vf_mix(len, c);
    h = vf_mix(h, m.count);
    h = vf_mix(h, m.runCount);
    h = vf_mix(h, m.encodedSize);
    h = HB(h, dst, len);
    h = HB(h, out, (c < n ? c : n) * 8);
    h = vf_mix(h, varintRLESize(p->raw, n));
    if (!hdr) {
        h = vf_mix(h, varintRLEGetAt(dst, (par >> 1) % n));
    }
    free(out);
    free(dst);
    return h;
}

static uint64_t op_elias(const pool_entry *p, unsigned par) {
    const size_t n = p->n;
    const int delta = par & 1;
    uint8_t *dst = (uint8_t *)xzalloc(n * 16 + 64);
    uint64_t *out = (uint64_t *)xzalloc(n * 8);
    varintEliasMeta m;
    memset(&m, 0, sizeof(m));
    size_t len = delta ? varintEliasDeltaEncodeArray(dst, p->ge1, n, &m)
                       : varintEliasGammaEncodeArray(dst, p->ge1, n, &m);
    size_t bits = m.totalBits <= len * 8 ? m.totalBits : len * 8;
    size_t c = delta ? varintEliasDeltaDecodeArray(dst, bits, out, n)
                     : varintEliasGammaDecodeArray(dst, bits, out, n);
    uint64_t h = vf_mix(len, c);
    h = vf_mix(h, m.totalBits);
    h = vf_mix(h, m.encodedBytes);
    h = HB(h, dst, len);
    h = HB(h, out, (c < n ? c : n) * 8);
    free(out);
    free(dst);
    return h;
}

static uint64_t mix_bpmeta(uint64_t h, const varintBP128Meta *m) {
    h = vf_mix(h, m->count);
    h = vf_mix(h, m->blockCount);
    h = vf_mix(h, m->encodedBytes);
    h = vf_mix(h, m->lastBlockSize);
    h = vf_mix(h, m->maxBitWidth);
    return h;
}

static uint64_t op_bp128(const pool_entry *p, int wide, unsigned par) {
    const size_t n = p->n;
    const int delta = par & 1;
    uint8_t *dst = (uint8_t *)xzalloc(n * 9 + 128);
    varintBP128Meta m;
    memset(&m, 0, sizeof(m));
    uint64_t h = 0x42;
    size_t len, c;
    if (wide) {
        uint64_t *out = (uint64_t *)xzalloc(n * 8);
        if (delta) {
            len = varintBP128DeltaEncode64(dst, p->sorted, n, &m);
            c = varintBP128DeltaDecode64(dst, out, n);
        } else {
            len = varintBP128Encode64(dst, p->raw, n, &m);
            c = varintBP128Decode64(dst, out, n);
        }
        h = HB(h, out, (c < n ? c : n) * 8);
        free(out);
    } else {
        uint32_t *out = (uint32_t *)xzalloc(n * 4);
        if (delta) {
            len = varintBP128DeltaEncode32(dst, p->s32, n, &m);
            c = varintBP128DeltaDecode32(dst, out, n);
        } else {
            len = varintBP128Encode32(dst, p->u32, n, &m);
            c = varintBP128Decode32(dst, out, n);
        }
        h = HB(h, out, (c < n ? c : n) * 4);
        free(out);
    }
    h = vf_mix(h, len);
    h = vf_mix(h, c);
    h = mix_bpmeta(h, &m);
    h = HB(h, dst, len);
    free(dst);
    return h;
}

static uint64_t op_float(const pool_entry *p, unsigned par) {
    const size_t n = p->n;
    uint8_t *dst = (uint8_t *)xzalloc(n * 27 + 128);
    double *out = (double *)xzalloc(n * 8);
    varintFloatPrecision prec = (varintFloatPrecision)(par & 3);
    varintFloatEncodingMode mode = (varintFloatEncodingMode)((par >> 2) % 3);
    size_t len = varintFloatEncode(dst, p->dbl, n, prec, mode);
    uint64_t h = vf_mix(0x66, len);
    if (len) {
        size_t used = varintFloatDecode(dst, n, out);
        h = vf_mix(h, used);
        h = HB(h, dst, len);
        h = HB(h, out, n * 8);
    }
    free(out);
    free(dst);
    return h;
}

static uint64_t adaptive_decode(uint64_t h, const uint8_t *buf, size_t n) {
    uint64_t *out = (uint64_t *)xzalloc(n * 8);
    varintAdaptiveMeta dm;
    memset(&dm, 0, sizeof(dm));
    size_t c = varintAdaptiveDecode(buf, out, n, &dm);
    h = vf_mix(h, c);
    h = vf_mix(h, (uint64_t)dm.encodingType);
    h = vf_mix(h, dm.originalCount);
    h = HB(h, out, (c < n ? c : n) * 8);
    free(out);
    return h;
}

static uint64_t op_adaptive(const pool_entry *p, int forced, unsigned par) {
    const size_t n = p->n;
    uint8_t *dst = (uint8_t *)xzalloc(cap_for(n));
    varintAdaptiveMeta m;
    memset(&m, 0, sizeof(m));
    size_t len =
        forced ? varintAdaptiveEncodeWith(
                     dst, p->raw, n, (varintAdaptiveEncodingType)(par % 6), &m)
               : varintAdaptiveEncode(dst, p->raw, n, &m);
    uint64_t h = vf_mix(0x41, len);
    if (len) {
        h = vf_mix(h, m.originalCount);
        h = vf_mix(h, m.encodedSize);
        h = vf_mix(h, (uint64_t)m.encodingType);
        h = HB(h, dst, len);
        h = adaptive_decode(h, dst, n);
    }
    free(dst);
    return h;
}

/* decode-only of a shared pre-encoded buffer */
static uint64_t op_decode_shared(const pool_entry *p, unsigned par) {
    const size_t n = p->n;
    const unsigned e = par % E_COUNT;
    const uint8_t *buf = p->enc[e];
    const size_t len = p->enclen[e];
    uint64_t h = vf_mix(0x53, e);
    if (!buf || len == 0) {
        return h;
    }
    uint64_t *out = (uint64_t *)xzalloc(n * 8 + 8);
    size_t c = 0;
    switch (e) {
    case E_FOR:
        c = varintFORDecode(buf, out, n);
        h = vf_mix(h, varintFORGetAt(buf, (par / E_COUNT) % n));
        break;
    case E_PFOR: {
        varintPFORMeta dm;
        memset(&dm, 0, sizeof(dm));
        c = varintPFORDecode(buf, out, &dm);
        h = vf_mix(h, varintPFORGetAt(buf, (uint32_t)((par / E_COUNT) % n),
                                      &p->pforMeta));
        break;
    }
    case E_DICT:
        h = dict_decode_both(h, buf, len, n);
        break;
    case E_RLE:
        c = varintRLEDecode(buf, out, n);
        h = vf_mix(h, varintRLEGetAt(buf, (par / E_COUNT) % n));
        h = vf_mix(h, varintRLEGetRunCount(buf, len));
        break;
    case E_RLEH:
        c = varintRLEDecodeWithHeader(buf, out, n);
        h = vf_mix(h, varintRLEGetCount(buf));
        break;
    case E_ELIAS_G:
        c = varintEliasGammaDecodeArray(buf, p->encbits[e], out, n);
        break;
    case E_ELIAS_D:
        c = varintEliasDeltaDecodeArray(buf, p->encbits[e], out, n);
        break;
    case E_BP64:
        c = varintBP128Decode64(buf, out, n);
        h = vf_mix(h, varintBP128GetCount(buf, len));
        break;
    case E_BPD64:
        c = varintBP128DeltaDecode64(buf, out, n);
        break;
    case E_BP32: {
        uint32_t *o32 = (uint32_t *)xzalloc(n * 4);
        c = varintBP128Decode32(buf, o32, n);
        h = HB(h, o32, (c < n ? c : n) * 4);
        free(o32);
        c = 0;
        break;
    }
    case E_FLOAT: {
        size_t used = varintFloatDecode(buf, n, (double *)out);
        h = vf_mix(h, used);
        c = n;
        break;
    }
    case E_ADAPTIVE:
        h = adaptive_decode(h, buf, n);
        break;
    case E_DELTA:
        h = vf_mix(h, varintDeltaDecodeUnsigned(buf, n, out));
        c = n;
        break;
    default: { /* E_GROUP */
        uint8_t fc = 0;
        uint64_t g[64];
        memset(g, 0, sizeof(g));
        size_t used = varintGroupDecode(buf, g, &fc, 64);
        h = vf_mix(h, used);
        h = HB(h, g, (size_t)fc * 8);
        break;
    }
    }
    h = vf_mix(h, c);
    h = HB(h, out, (c < n ? c : n) * 8);
    free(out);
    return h;
}

/* packed-array history on thread-private storage, driven by the pool array */
#define PK_CAP 120
static uint64_t op_packed(const pool_entry *p, unsigned par) {
    uint32_t holder[64]; /* 2048 bits = 170 elements of 12 bits */
    memset(holder, 0, sizeof(holder));
    uint32_t len = 0;
    uint64_t h = 0x4b;
    size_t steps = p->n < 200 ? p->n : 200;
    for (size_t i = 0; i < steps; i++) {
        uint64_t x = p->raw[i] * 0x9e3779b97f4a7c15ULL + par;
        uint16_t val = (uint16_t)((x >> 20) & 0xfff);
        switch ((x >> 8) % 5) {
        case 0:
        case 1:
            if (len < PK_CAP) {
                c17Packed12InsertSorted(holder, len, val);
                len++;
            }
            break;
        case 2:
            if (len > 0 && c17Packed12DeleteMember(holder, len, val)) {
                len--;
                h = vf_mix(h, 1);
            }
            break;
        case 3:
            h = vf_mix(h, (uint64_t)c17Packed12Member(holder, len, val));
            break;
        default:
            if (len > 0) {
                h = vf_mix(h, c17Packed12Get(holder, (uint32_t)(x % len)));
            }
            break;
        }
    }
    for (uint32_t i = 0; i < len; i++) {
        h = vf_mix(h, c17Packed12Get(holder, i));
    }
    /* unsorted slots: plain set / get above the sorted prefix */
    for (uint32_t i = 0; i < 16; i++) {
        c17Packed12Set(holder, PK_CAP + 1 + i, (uint16_t)((par * 37u + i * 259u) & 0xfff));
    }
    for (uint32_t i = 0; i < 16; i++) {
        h = vf_mix(h, c17Packed12Get(holder, PK_CAP + 1 + i));
    }
    return vf_mix(h, len);
}

/* bitstream history on thread-private storage */
static uint64_t op_bitstream(const pool_entry *p, unsigned par) {
    vbits bs[18];
    memset(bs, 0, sizeof(bs));
    uint64_t h = 0x62;
    size_t steps = p->n < 120 ? p->n : 120;
    for (size_t i = 0; i < steps; i++) {
        uint64_t x = p->raw[i] * 0xff51afd7ed558ccdULL + par + i;
        size_t width = 1 + (size_t)((x >> 3) % 64);
        size_t off = (size_t)((x >> 12) % (16 * 64 - width + 1));
        uint64_t val = p->raw[i] ^ x;
        if (width < 64) {
            val &= (1ULL << width) - 1;
        }
        varintBitstreamSet(bs, off, width, val);
        h = vf_mix(h, varintBitstreamGet(bs, off, width));
        h = vf_mix(h, varintBitstreamGet(bs, (off * 7) % (15 * 64), 1 + (i % 64)));
    }
    return HB(h, bs, sizeof(bs));
}

static uint64_t op_run_on(const shared *S, const pool_entry *p, unsigned codec,
                          unsigned par) {
    switch (codec) {
    case O_TAGGED:
    case O_EXTERNAL:
    case O_CHAINED:
    case O_SPLIT:
        return op_scalar(p, codec, par);
    case O_DELTA_U:
        return op_delta(p, 0);
    case O_DELTA_S:
        return op_delta(p, 1);
    case O_FOR:
        return op_for(p, 0, par);
    case O_FOR_BATCH:
        return op_for(p, 1, par);
    case O_PFOR:
        return op_pfor(p, par);
    case O_GROUP:
        return op_group(p, par);
    case O_DICT:
        return op_dict(S, p, 0, par);
    case O_DICT_SHARED:
        return op_dict(S, p, 1, par);
    case O_RLE:
        return op_rle(p, par);
    case O_ELIAS:
        return op_elias(p, par);
    case O_BP128_32:
        return op_bp128(p, 0, par);
    case O_BP128_64:
        return op_bp128(p, 1, par);
    case O_FLOAT:
        return op_float(p, par);
    case O_ADAPT_AUTO:
        return op_adaptive(p, 0, par);
    case O_ADAPT_FORCED:
        return op_adaptive(p, 1, par);
    case O_DECODE_SHARED:
        return op_decode_shared(p, par);
    case O_PACKED:
        return op_packed(p, par);
    default:
        return op_bitstream(p, par);
    }
}

static uint64_t op_run(const shared *S, unsigned codec, unsigned input) {
    return op_run_on(S, &S->p[input % NPOOL], codec, input / NPOOL);
}

/* -------------------------------------------------------------- pool setup */
static void pool_build(pool_entry *p, const uint64_t *src, size_t n) {
    memset(p, 0, sizeof(*p));
    p->n = n;
    p->raw = (uint64_t *)xmalloc(n * 8);
    p->ge1 = (uint64_t *)xmalloc(n * 8);
    p->sorted = (uint64_t *)xmalloc(n * 8);
    p->sd = (int64_t *)xmalloc(n * 8);
    p->u32 = (uint32_t *)xmalloc(n * 4);
    p->s32 = (uint32_t *)xmalloc(n * 4);
    p->dbl = (double *)xmalloc(n * 8);
    for (size_t i = 0; i < n; i++) {
        uint64_t v = src[i];
        p->raw[i] = v;
        p->ge1[i] = v ? v : 1;
        p->sorted[i] = v;
        int64_t s = (int64_t)v;
        if (s > (int64_t)(1ULL << 62) || s < -(int64_t)(1ULL << 62)) {
            s >>= 2;
        }
        p->sd[i] = s;
        p->u32[i] = (uint32_t)v;
        p->s32[i] = (uint32_t)v;
        /* doubles: a window of exponents, both signs, some specials */
        uint64_t u;
        switch (v % 11) {
        case 0:
            u = 0;
            break;
        case 1:
            u = 0x7ffULL << 52;
            break;
        case 2:
            u = v >> 13; /* denormal */
            break;
        default:
            u = ((v >> 63) << 63) |
                ((uint64_t)(0x3ffu - 30u + (unsigned)((v >> 5) % 60)) << 52) |
                ((v * 0x9e3779b97f4a7c15ULL) & 0xfffffffffffffULL);
            break;
        }
        memcpy(&p->dbl[i], &u, 8);
    }
    qsort(p->sorted, n, 8, cmp_u64);
    qsort(p->s32, n, 4, cmp_u32);
}

/* shared pre-encoded buffers (the first library calls of the main thread) */
static void pool_encode(pool_entry *p) {
    const size_t n = p->n;
    for (unsigned e = 0; e < E_COUNT; e++) {
        p->enc[e] = (uint8_t *)xzalloc(cap_for(n));
    }
    p->enclen[E_FOR] = enc_for(p->enc[E_FOR], p->raw, n, 0, NULL);
    p->enclen[E_PFOR] = enc_pfor(p->enc[E_PFOR], p->raw, n, 0, &p->pforMeta, NULL);
    p->enclen[E_DICT] = varintDictEncode(p->enc[E_DICT], p->raw, n);
    p->enclen[E_RLE] = varintRLEEncode(p->enc[E_RLE], p->raw, n, NULL);
    p->enclen[E_RLEH] = varintRLEEncodeWithHeader(p->enc[E_RLEH], p->raw, n, NULL);
    {
        varintEliasMeta m;
        memset(&m, 0, sizeof(m));
        p->enclen[E_ELIAS_G] =
            varintEliasGammaEncodeArray(p->enc[E_ELIAS_G], p->ge1, n, &m);
        p->encbits[E_ELIAS_G] = m.totalBits <= p->enclen[E_ELIAS_G] * 8
                                    ? m.totalBits
                                    : p->enclen[E_ELIAS_G] * 8;
        memset(&m, 0, sizeof(m));
        p->enclen[E_ELIAS_D] =
            varintEliasDeltaEncodeArray(p->enc[E_ELIAS_D], p->ge1, n, &m);
        p->encbits[E_ELIAS_D] = m.totalBits <= p->enclen[E_ELIAS_D] * 8
                                    ? m.totalBits
                                    : p->enclen[E_ELIAS_D] * 8;
    }
    p->enclen[E_BP64] = varintBP128Encode64(p->enc[E_BP64], p->raw, n, NULL);
    p->enclen[E_BPD64] =
        varintBP128DeltaEncode64(p->enc[E_BPD64], p->sorted, n, NULL);
    p->enclen[E_BP32] = varintBP128Encode32(p->enc[E_BP32], p->u32, n, NULL);
    p->enclen[E_FLOAT] =
        varintFloatEncode(p->enc[E_FLOAT], p->dbl, n, VARINT_FLOAT_PRECISION_HIGH,
                          VARINT_FLOAT_MODE_DELTA_EXPONENT);
    p->enclen[E_ADAPTIVE] =
        varintAdaptiveEncode(p->enc[E_ADAPTIVE], p->raw, n, NULL);
    p->enclen[E_DELTA] = varintDeltaEncodeUnsigned(p->enc[E_DELTA], p->raw, n);
    p->enclen[E_GROUP] =
        varintGroupEncode(p->enc[E_GROUP], p->raw, (uint8_t)(n > 64 ? 64 : n));
}

static void pool_free(pool_entry *p) {
    free(p->raw);
    free(p->ge1);
    free(p->sorted);
    free(p->sd);
    free(p->u32);
    free(p->s32);
    free(p->dbl);
    for (unsigned e = 0; e < E_COUNT; e++) {
        free(p->enc[e]);
    }
}


/* a deep copy of the inputs of `src` (thread-private variant of the hot loop);
 * pre-encoded buffers are copied only when the hot kind decodes */
static void pool_clone(pool_entry *c, const pool_entry *src, int with_enc) {
    const size_t n = src->n;
    *c = *src;
#define DUP(field, sz)                                                         \
    c->field = xmalloc((sz));                                                  \
    memcpy(c->field, src->field, (sz))
    DUP(raw, n * 8);
    DUP(ge1, n * 8);
    DUP(sorted, n * 8);
    DUP(sd, n * 8);
    DUP(u32, n * 4);
    DUP(s32, n * 4);
    DUP(dbl, n * 8);
#undef DUP
    for (unsigned e = 0; e < E_COUNT; e++) {
        c->enc[e] = NULL;
        if (with_enc && src->enc[e]) {
            /* the shared buffers have zeroed slack behind the encoding; keep
             * some so that both variants see the same bytes there */
            c->enc[e] = (uint8_t *)xzalloc(src->enclen[e] + 64);
            memcpy(c->enc[e], src->enc[e], src->enclen[e]);
        }
    }
}

/* ---------------------------------------------------------------- hot loop
 * lean entry points: one library call (plus its size/analysis companion),
 * results kept as (returned value, metadata words, output bytes) so that each
 * iteration can be compared field by field */
enum hot_kind {
    H_FOR_ENC = 0,
    H_FOR_ANALYZE,
    H_PFOR_ENC,
    H_PFOR_THRESHOLD,
    H_DICT_ENC,
    H_DICT_SIZE,
    H_RLE_ENC,
    H_RLE_ANALYZE,
    H_ELIAS_ENC,
    H_BP128_ENC,
    H_FLOAT_ENC,
    H_ADAPT_AUTO,
    H_ADAPT_FORCED,
    H_ADAPT_ANALYZE,
    H_DELTA_ENC,
    H_GROUP_ENC,
    H_DECODE,
    H_COUNT
};

static const char *const hot_name[H_COUNT] = {
    "for.encode",     "for.analyze",      "pfor.encode",  "pfor.threshold",
    "dict.encode",    "dict.size",        "rle.encode",   "rle.analyze",
    "elias.encode",   "bp128.encode",     "float.encode", "adaptive.encode",
    "adaptive.forced", "adaptive.analyze", "delta.encode", "group.encode",
    "decode"};

/* names of the metadata words, in the order hot_call() stores them */
static const char *const hot_meta[H_COUNT] = {
    "minValue,maxValue,range,count,encodedSize,offsetWidth",
    "minValue,maxValue,range,count,encodedSize,offsetWidth",
    "min,exceptionMarker,thresholdValue,width,count,exceptionCount,threshold",
    "returnedWidth,min,exceptionMarker,thresholdValue,width,count,"
    "exceptionCount,threshold",
    "",
    "statsOk,uniqueCount,totalCount,dictBytes,indexBytes,totalBytes",
    "count,runCount,encodedSize",
    "beneficial,count,runCount,encodedSize,uniqueValues",
    "count,totalBits,encodedBytes",
    "count,blockCount,encodedBytes,lastBlockSize,maxBitWidth",
    "",
    "originalCount,encodedSize,encodingType",
    "originalCount,encodedSize,encodingType",
    "count,minValue,maxValue,range,uniqueCount,avgDelta,maxDelta,outlierCount,"
    "uniqueRatio,outlierRatio,isSorted,isReverseSorted,fitsInBitmapRange,"
    "selectedEncoding",
    "",
    "groupSize",
    "aux0,aux1,aux2"};

/* rough relative cost per element, used only to size the iteration count */
static const uint8_t hot_weight[H_COUNT] = {1, 1, 16, 12, 16, 12, 2, 2, 6,
                                            1, 8, 16, 8,  12, 2,  1, 3};

#define HOT_MAXMETA 16

typedef struct hot_io {
    uint8_t *dst;  /* private output, cap_for(n) bytes */
    uint64_t *out; /* private decode output, max(n, 64) + 8 words */
    size_t ret;
    const void *bytes;
    size_t nbytes;
    uint64_t meta[HOT_MAXMETA];
    unsigned nmeta;
} hot_io;

static uint64_t f32bits(float f) {
    uint32_t u;
    memcpy(&u, &f, 4);
    return u;
}

static void hot_decode(unsigned par, const pool_entry *p, hot_io *io) {
    const size_t n = p->n;
    const unsigned e = par % E_COUNT;
    const uint8_t *buf = p->enc[e];
    const size_t len = p->enclen[e];
    uint64_t *out = io->out;
    size_t c = 0, width = 8;
#define M(x) io->meta[io->nmeta++] = (uint64_t)(x)
    M(e);
    if (!buf || len == 0) {
        return;
    }
    switch (e) {
    case E_FOR:
        c = varintFORDecode(buf, out, n);
        M(varintFORGetAt(buf, (par / E_COUNT) % n));
        break;
    case E_PFOR: {
        varintPFORMeta dm;
        memset(&dm, 0, sizeof(dm));
        c = varintPFORDecode(buf, out, &dm);
        M(varintPFORGetAt(buf, (uint32_t)((par / E_COUNT) % n), &p->pforMeta));
        break;
    }
    case E_DICT: {
        c = varintDictDecodeInto(buf, len, out, n);
        size_t oc = 0;
        uint64_t *al = varintDictDecode(buf, len, &oc);
        M(al != NULL);
        if (al) {
            M(HB(oc, al, (oc < n ? oc : n) * 8));
            free(al);
        }
        break;
    }
    case E_RLE:
        c = varintRLEDecode(buf, out, n);
        M(varintRLEGetAt(buf, (par / E_COUNT) % n));
        M(varintRLEGetRunCount(buf, len));
        break;
    case E_RLEH:
        c = varintRLEDecodeWithHeader(buf, out, n);
        M(varintRLEGetCount(buf));
        break;
    case E_ELIAS_G:
        c = varintEliasGammaDecodeArray(buf, p->encbits[e], out, n);
        break;
    case E_ELIAS_D:
        c = varintEliasDeltaDecodeArray(buf, p->encbits[e], out, n);
        break;
    case E_BP64:
        c = varintBP128Decode64(buf, out, n);
        M(varintBP128GetCount(buf, len));
        break;
    case E_BPD64:
        c = varintBP128DeltaDecode64(buf, out, n);
        break;
    case E_BP32:
        c = varintBP128Decode32(buf, (uint32_t *)out, n);
        width = 4;
        break;
    case E_FLOAT:
        M(varintFloatDecode(buf, n, (double *)out));
        c = n;
        break;
    case E_ADAPTIVE: {
        varintAdaptiveMeta dm;
        memset(&dm, 0, sizeof(dm));
        c = varintAdaptiveDecode(buf, out, n, &dm);
        M(dm.encodingType);
        M(dm.originalCount);
        break;
    }
    case E_DELTA:
        M(varintDeltaDecodeUnsigned(buf, n, out));
        c = n;
        break;
    default: { /* E_GROUP: out has room for 64 fields */
        uint8_t fc = 0;
        M(varintGroupDecode(buf, out, &fc, 64));
        c = fc;
        io->ret = c;
        io->bytes = out;
        io->nbytes = c * 8;
        return;
    }
    }
    io->ret = c;
    io->bytes = out;
    io->nbytes = (c < n ? c : n) * width;
}

static void hot_call(unsigned kind, unsigned par, const pool_entry *p,
                     hot_io *io) {
    static const uint32_t thr[3] = {VARINT_PFOR_THRESHOLD_95,
                                    VARINT_PFOR_THRESHOLD_90,
                                    VARINT_PFOR_THRESHOLD_99};
    const size_t n = p->n;
    uint8_t *dst = io->dst;
    io->ret = 0;
    io->bytes = dst;
    io->nbytes = 0;
    io->nmeta = 0;
    switch (kind) {
    case H_FOR_ENC:
    case H_FOR_ANALYZE: {
        varintFORMeta m;
        memset(&m, 0, sizeof(m));
        if (kind == H_FOR_ENC) {
            io->ret = (par & 1) ? varintFORBatchEncode(dst, p->raw, n, &m)
                                : varintFOREncode(dst, p->raw, n, &m);
            io->nbytes = io->ret;
        } else {
            if (par & 1) {
                varintFORBatchAnalyze(p->raw, n, &m);
            } else {
                varintFORAnalyze(p->raw, n, &m);
            }
            io->ret = varintFORSize(&m);
        }
        M(m.minValue);
        M(m.maxValue);
        M(m.range);
        M(m.count);
        M(m.encodedSize);
        M(m.offsetWidth);
        break;
    }
    case H_PFOR_ENC:
    case H_PFOR_THRESHOLD: {
        varintPFORMeta m;
        memset(&m, 0, sizeof(m));
        if (kind == H_PFOR_ENC) {
            io->ret = varintPFOREncode(dst, p->raw, (uint32_t)n, thr[par % 3], &m);
            io->nbytes = io->ret;
            if (io->ret == 0) {
                break; /* allocation failure: metadata unspecified */
            }
        } else {
            M(varintPFORComputeThreshold(p->raw, (uint32_t)n, thr[par % 3], &m));
            io->ret = varintPFORSize(&m);
        }
        M(m.min);
        M(m.exceptionMarker);
        M(m.thresholdValue);
        M(m.width);
        M(m.count);
        M(m.exceptionCount);
        M(m.threshold);
        break;
    }
    case H_DICT_ENC:
        io->ret = varintDictEncode(dst, p->raw, n);
        io->nbytes = io->ret;
        break;
    case H_DICT_SIZE: {
        io->ret = varintDictEncodedSize(p->raw, n);
        varintDictStats st;
        memset(&st, 0, sizeof(st));
        int ok = varintDictGetStats(p->raw, n, &st) == 0;
        M(ok);
        if (ok) {
            M(st.uniqueCount);
            M(st.totalCount);
            M(st.dictBytes);
            M(st.indexBytes);
            M(st.totalBytes);
        }
        break;
    }
    case H_RLE_ENC: {
        varintRLEMeta m;
        memset(&m, 0, sizeof(m));
        io->ret = (par & 1) ? varintRLEEncodeWithHeader(dst, p->raw, n, &m)
                            : varintRLEEncode(dst, p->raw, n, &m);
        io->nbytes = io->ret;
        M(m.count);
        M(m.runCount);
        M(m.encodedSize);
        break;
    }
    case H_RLE_ANALYZE: {
        varintRLEMeta m;
        memset(&m, 0, sizeof(m));
        M(varintRLEAnalyze(p->raw, n, &m));
        io->ret = varintRLESize(p->raw, n);
        M(m.count);
        M(m.runCount);
        M(m.encodedSize);
        M(m.uniqueValues);
        break;
    }
    case H_ELIAS_ENC: {
        varintEliasMeta m;
        memset(&m, 0, sizeof(m));
        io->ret = (par & 1) ? varintEliasDeltaEncodeArray(dst, p->ge1, n, &m)
                            : varintEliasGammaEncodeArray(dst, p->ge1, n, &m);
        io->nbytes = io->ret;
        M(m.count);
        M(m.totalBits);
        M(m.encodedBytes);
        break;
    }
    case H_BP128_ENC: {
        varintBP128Meta m;
        memset(&m, 0, sizeof(m));
        switch (par & 3) {
        case 0:
            io->ret = varintBP128Encode32(dst, p->u32, n, &m);
            break;
        case 1:
            io->ret = varintBP128DeltaEncode32(dst, p->s32, n, &m);
            break;
        case 2:
            io->ret = varintBP128Encode64(dst, p->raw, n, &m);
            break;
        default:
            io->ret = varintBP128DeltaEncode64(dst, p->sorted, n, &m);
            break;
        }
        io->nbytes = io->ret;
        M(m.count);
        M(m.blockCount);
        M(m.encodedBytes);
        M(m.lastBlockSize);
        M(m.maxBitWidth);
        break;
    }
    case H_FLOAT_ENC:
        io->ret = varintFloatEncode(dst, p->dbl, n,
                                    (varintFloatPrecision)(par & 3),
                                    (varintFloatEncodingMode)((par >> 2) % 3));
        io->nbytes = io->ret;
        break;
    case H_ADAPT_AUTO:
    case H_ADAPT_FORCED: {
        varintAdaptiveMeta m;
        memset(&m, 0, sizeof(m));
        io->ret = kind == H_ADAPT_FORCED
                      ? varintAdaptiveEncodeWith(
                            dst, p->raw, n,
                            (varintAdaptiveEncodingType)(par % 6), &m)
                      : varintAdaptiveEncode(dst, p->raw, n, &m);
        io->nbytes = io->ret;
        if (io->ret) {
            M(m.originalCount);
            M(m.encodedSize);
            M(m.encodingType);
        }
        break;
    }
    case H_ADAPT_ANALYZE: {
        varintAdaptiveDataStats st;
        memset(&st, 0, sizeof(st));
        varintAdaptiveAnalyze(p->raw, n, &st);
        M(st.count);
        M(st.minValue);
        M(st.maxValue);
        M(st.range);
        M(st.uniqueCount);
        M(st.avgDelta);
        M(st.maxDelta);
        M(st.outlierCount);
        M(f32bits(st.uniqueRatio));
        M(f32bits(st.outlierRatio));
        M(st.isSorted);
        M(st.isReverseSorted);
        M(st.fitsInBitmapRange);
        M(varintAdaptiveSelectEncoding(&st));
        io->ret = st.count;
        break;
    }
    case H_DELTA_ENC:
        io->ret = (par & 1) ? varintDeltaEncode(dst, p->sd, n)
                            : varintDeltaEncodeUnsigned(dst, p->raw, n);
        io->nbytes = io->ret;
        break;
    case H_GROUP_ENC: {
        const uint8_t k = (uint8_t)(n > 64 ? 64 : n);
        io->ret = varintGroupEncode(dst, p->raw, k);
        io->nbytes = io->ret;
        M(varintGroupSize(p->raw, k));
        break;
    }
    default:
        hot_decode(par, p, io);
        break;
    }
#undef M
}

/* k-th name of a comma separated list */
static void nth_name(const char *list, unsigned k, char *out, size_t cap) {
    const char *s = list;
    while (k && *s) {
        if (*s++ == ',') {
            k--;
        }
    }
    size_t i = 0;
    while (*s && *s != ',' && i + 1 < cap) {
        out[i++] = *s++;
    }
    out[i] = 0;
    if (i == 0) {
        snprintf(out, cap, "#%u", k);
    }
}

#define NMEMB 4

typedef struct hot_exp {
    size_t ret, nbytes;
    uint8_t *bytes;
    uint64_t meta[HOT_MAXMETA];
    unsigned nmeta;
    uint64_t ophash; /* op kinds */
} hot_exp;

typedef struct hotctx {
    int on;
    unsigned kind; /* < H_COUNT: lean entry point; else H_COUNT + op_kind */
    unsigned par, group, shift;
    size_t n;
    unsigned iters;
    int need_enc;
    pool_entry memb[NMEMB]; /* [0] aliases the pool array of the group */
    hot_exp exp[NMEMB];
} hotctx;

static const char *hot_kind_name(const hotctx *H, char *buf, size_t cap) {
    if (H->kind < H_COUNT) {
        snprintf(buf, cap, "hot.%s", hot_name[H->kind]);
    } else {
        snprintf(buf, cap, "hot.op.%s", op_name[H->kind - H_COUNT]);
    }
    return buf;
}

/* ----------------------------------------------------------------- threads */
/* bounded barrier: a participant that does not arrive within ~20 s (or a
 * thread that could not be created) breaks it for everybody */
#define XBAR_TIMEOUT_S 20
typedef struct xbar {
    atomic_uint arrived, gen;
    atomic_int broken;
    unsigned n;
} xbar;

static void xbar_init(xbar *b, unsigned n) {
    atomic_init(&b->arrived, 0);
    atomic_init(&b->gen, 0);
    atomic_init(&b->broken, 0);
    b->n = n;
}

static int xbar_wait(xbar *b) {
    if (atomic_load(&b->broken)) {
        return -1;
    }
    const unsigned g = atomic_load(&b->gen);
    if (atomic_fetch_add(&b->arrived, 1) + 1 == b->n) {
        atomic_store(&b->arrived, 0);
        atomic_fetch_add(&b->gen, 1);
        return 0;
    }
    time_t deadline = 0;
    for (unsigned long i = 0;; i++) {
        if (atomic_load(&b->gen) != g) {
            return 0;
        }
        if (atomic_load(&b->broken)) {
            return -1;
        }
        if (i < 3000) {
#if defined(__x86_64__) || defined(__i386__)
            __builtin_ia32_pause();
#endif
        } else if (i < 6000) {
            sched_yield();
        } else {
            /* watchdog only: the clock never influences a verdict, a broken
             * barrier discards the case */
            struct timespec ts = {0, 250000}, now;
            nanosleep(&ts, NULL);
            if ((i & 63) == 0) {
                clock_gettime(CLOCK_MONOTONIC, &now);
                if (deadline == 0) {
                    deadline = now.tv_sec + XBAR_TIMEOUT_S;
                } else if (now.tv_sec > deadline) {
                    atomic_store(&b->broken, 1);
                    return -1;
                }
            }
        }
    }
}

typedef struct failrec {
    int bad;
    char site[64], kind[32], detail[420];
} failrec;

typedef struct oprec {
    uint8_t codec, input;
    uint64_t expect;
} oprec;

typedef struct ctl {
    xbar bar;
    atomic_int stop; /* somebody saw a mismatch: finish early */
    const shared *S;
    const hotctx *H;
    unsigned nthreads;
} ctl;

typedef struct worker {
    ctl *C;
    unsigned id, nops, repeats;
    int cold; /* cold-start pass: every codec once, hashes recorded */
    oprec ops[MAXOPS];
    /* hot loop */
    unsigned member;
    int priv;
    pool_entry clone;
    hot_io io;
    /* thread-private results */
    uint64_t cold_hash[O_COUNT];
    unsigned long hot_done;
    failrec fail;
} worker;

/* input selector used by thread t for codec k in the cold-start pass */
static unsigned cold_input(unsigned t, unsigned k) {
    return ((t + k) % NPOOL) + NPOOL * ((k + t / NPOOL) & 7);
}

static int cold_capable(unsigned k) {
    /* these two need inputs that only exist after the main thread has called
     * the library (pre-encoded buffers, the prebuilt dictionary) */
    return k != O_DECODE_SHARED && k != O_DICT_SHARED;
}

static void rec_fail(worker *w, const char *site, const char *kind,
                     const char *fmt, ...) __attribute__((format(printf, 4, 5)));
static void rec_fail(worker *w, const char *site, const char *kind,
                     const char *fmt, ...) {
    if (w->fail.bad) {
        return;
    }
    w->fail.bad = 1;
    snprintf(w->fail.site, sizeof(w->fail.site), "%s", site);
    snprintf(w->fail.kind, sizeof(w->fail.kind), "%s", kind);
    va_list ap;
    va_start(ap, fmt);
    vsnprintf(w->fail.detail, sizeof(w->fail.detail), fmt, ap);
    va_end(ap);
    atomic_store_explicit(&w->C->stop, 1, memory_order_relaxed);
}

static int stopped(const ctl *C) {
    return atomic_load_explicit(&((ctl *)C)->stop, memory_order_relaxed);
}

static void hot_loop(worker *w) {
    const ctl *C = w->C;
    const hotctx *H = C->H;
    const pool_entry *p = w->priv ? &w->clone : &H->memb[w->member];
    const hot_exp *e = &H->exp[w->member];
    char site[64];
    hot_kind_name(H, site, sizeof(site));
    const char *variant = w->priv ? "thread-private copy" : "shared copy";
    for (unsigned it = 0; it < H->iters; it++) {
        if ((it & 7) == 0 && stopped(C)) {
            break;
        }
        w->hot_done++;
        if (H->kind >= H_COUNT) {
            uint64_t h = op_run_on(C->S, p, H->kind - H_COUNT, H->par);
            if (h != e->ophash) {
                rec_fail(w, site, "value",
                         "hot loop: thread %u of %u, iteration %u of %u, %s "
                         "par=%u on member %u (%s, n=%zu): output hash "
                         "0x%016llx differs from the sequential run's "
                         "0x%016llx",
                         w->id, C->nthreads, it, H->iters,
                         op_name[H->kind - H_COUNT], H->par, w->member, variant,
                         p->n, (unsigned long long)h,
                         (unsigned long long)e->ophash);
                return;
            }
            continue;
        }
        hot_io *io = &w->io;
        hot_call(H->kind, H->par, p, io);
        if (io->ret != e->ret) {
            rec_fail(w, site, "length",
                     "hot loop: thread %u of %u, iteration %u of %u, %s par=%u "
                     "on member %u (%s, n=%zu): returned %zu, the sequential "
                     "call returned %zu",
                     w->id, C->nthreads, it, H->iters, hot_name[H->kind], H->par,
                     w->member, variant, p->n, io->ret, e->ret);
            return;
        }
        if (io->nmeta != e->nmeta ||
            memcmp(io->meta, e->meta, io->nmeta * sizeof(io->meta[0])) != 0) {
            unsigned k = 0;
            while (k < io->nmeta && k < e->nmeta && io->meta[k] == e->meta[k]) {
                k++;
            }
            char fname[40];
            nth_name(hot_meta[H->kind], k, fname, sizeof(fname));
            rec_fail(w, site, "meta",
                     "hot loop: thread %u of %u, iteration %u of %u, %s par=%u "
                     "on member %u (%s, n=%zu): metadata field %s = %llu, the "
                     "sequential call gave %llu",
                     w->id, C->nthreads, it, H->iters, hot_name[H->kind], H->par,
                     w->member, variant, p->n, fname,
                     (unsigned long long)(k < io->nmeta ? io->meta[k] : 0),
                     (unsigned long long)(k < e->nmeta ? e->meta[k] : 0));
            return;
        }
        if (io->nbytes != e->nbytes ||
            memcmp(io->bytes, e->bytes, io->nbytes) != 0) {
            size_t k = 0;
            const uint8_t *a = (const uint8_t *)io->bytes;
            while (k < io->nbytes && k < e->nbytes && a[k] == e->bytes[k]) {
                k++;
            }
            rec_fail(w, site, "value",
                     "hot loop: thread %u of %u, iteration %u of %u, %s par=%u "
                     "on member %u (%s, n=%zu): output of %zu bytes differs "
                     "from the sequential call's at byte %zu (0x%02x, "
                     "sequential 0x%02x)",
                     w->id, C->nthreads, it, H->iters, hot_name[H->kind], H->par,
                     w->member, variant, p->n, io->nbytes, k,
                     k < io->nbytes ? a[k] : 0, k < e->nbytes ? e->bytes[k] : 0);
            return;
        }
    }
}

static void *worker_main(void *arg) {
    worker *w = (worker *)arg;
    ctl *C = w->C;
    const shared *S = C->S;
#ifdef C17_SELFTEST_BARRIER
    /* self-test of the bounded barrier: one thread never arrives */
    if (w->id == 1 && !w->cold) {
        return NULL;
    }
#endif
    if (xbar_wait(&C->bar) != 0) {
        return NULL;
    }
    if (w->cold) {
        for (unsigned j = 0; j < O_COUNT; j++) {
            unsigned k = (j + 5 * w->id) % O_COUNT;
            if (cold_capable(k)) {
                w->cold_hash[k] = op_run(S, k, cold_input(w->id, k));
            }
        }
        return NULL;
    }
    /* phase 1: the generated operation list, every repetition compared */
    for (unsigned rep = 0; rep < w->repeats && !stopped(C); rep++) {
        for (unsigned i = 0; i < w->nops; i++) {
            const oprec *o = &w->ops[i];
            uint64_t h = op_run(S, o->codec, o->input);
            if (h != o->expect) {
                rec_fail(w, op_name[o->codec], "value",
                         "thread %u of %u, repeat %u, op #%u %s input=%u (pool "
                         "array %u, n=%zu): output hash 0x%016llx differs from "
                         "the sequential run's 0x%016llx",
                         w->id, C->nthreads, rep, i, op_name[o->codec], o->input,
                         o->input % NPOOL, S->p[o->input % NPOOL].n,
                         (unsigned long long)h, (unsigned long long)o->expect);
                break;
            }
        }
    }
    /* phase 2: hot loop, all threads together */
    if (C->H && C->H->on) {
        if (xbar_wait(&C->bar) != 0) {
            return NULL;
        }
        hot_loop(w);
    }
    return NULL;
}

/* returns 0 when the threads could not be created or a barrier broke */
static int run_threads(worker *W, unsigned nthreads, ctl *C) {
    pthread_t tid[MAXTHREADS];
    unsigned started = 0;
    xbar_init(&C->bar, nthreads);
    atomic_store(&C->stop, 0);
    C->nthreads = nthreads;
    for (unsigned t = 0; t < nthreads; t++) {
        W[t].C = C;
        if (pthread_create(&tid[t], NULL, worker_main, &W[t]) != 0) {
            /* release the ones already waiting */
            atomic_store(&C->bar.broken, 1);
            break;
        }
        started++;
    }
    for (unsigned t = 0; t < started; t++) {
        pthread_join(tid[t], NULL);
    }
    return started == nthreads && !atomic_load(&C->bar.broken);
}

/* the library has not been called by this process yet: lazily initialised
 * state would be initialised inside the first concurrent phase */
static int g_warm;
/* schedule dependence (see the header comment) */
#define SHRINK_BUDGET 120
#define REPLAY_ATTEMPTS 10
static unsigned long g_cases_run;
static int g_fail_seen;
static unsigned g_shrink_runs;

static void hot_free(hotctx *H) {
    for (unsigned m = 1; m < NMEMB; m++) {
        if (H->memb[m].raw) {
            pool_free(&H->memb[m]);
        }
    }
    for (unsigned m = 0; m < NMEMB; m++) {
        free(H->exp[m].bytes);
    }
}

/* build the group of equal-length inputs and the sequential expectations */
static void hot_setup(shared *S, hotctx *H) {
    const pool_entry *base = &S->p[H->group];
    const size_t n = base->n;
    H->n = n;
    H->memb[0] = *base; /* alias: not freed through H */
    uint64_t *v = (uint64_t *)xmalloc(n * 8);
    for (unsigned m = 1; m < NMEMB; m++) {
        if (m < 3) {
            const pool_entry *o = &S->p[(H->group + m) % NPOOL];
            for (size_t i = 0; i < n; i++) {
                v[i] = o->raw[i % o->n];
            }
        } else {
            for (size_t i = 0; i < n; i++) {
                v[i] = base->raw[n - 1 - i] >> H->shift;
            }
        }
        pool_build(&H->memb[m], v, n);
        if (H->need_enc) {
            pool_encode(&H->memb[m]);
        }
    }
    free(v);
    hot_io io;
    memset(&io, 0, sizeof(io));
    io.dst = (uint8_t *)xmalloc(cap_for(n));
    io.out = (uint64_t *)xmalloc(((n > 64 ? n : 64) + 8) * 8);
    for (unsigned m = 0; m < NMEMB; m++) {
        hot_exp *e = &H->exp[m];
        if (H->kind >= H_COUNT) {
            e->ophash = op_run_on(S, &H->memb[m], H->kind - H_COUNT, H->par);
            continue;
        }
        hot_call(H->kind, H->par, &H->memb[m], &io);
        e->ret = io.ret;
        e->nbytes = io.nbytes;
        e->nmeta = io.nmeta;
        memcpy(e->meta, io.meta, sizeof(e->meta));
        e->bytes = (uint8_t *)xmalloc(io.nbytes);
        memcpy(e->bytes, io.bytes, io.nbytes);
    }
    free(io.dst);
    free(io.out);
}

/* which parts of the pattern "same pair hammered while others feed the codec
 * different inputs of the same length" this assignment realises */
static void hot_classes(const hotctx *H, const worker *W, unsigned nthreads) {
    unsigned users[NMEMB] = {0, 0, 0, 0}, shared_users[NMEMB] = {0, 0, 0, 0};
    int priv = 0;
    for (unsigned t = 0; t < nthreads; t++) {
        users[W[t].member]++;
        if (W[t].priv) {
            priv = 1;
        } else {
            shared_users[W[t].member]++;
        }
    }
    int same = 0, other = 0;
    for (unsigned a = 0; a < NMEMB; a++) {
        if (shared_users[a] >= 2) {
            same = 1;
        }
        for (unsigned b = a + 1; b < NMEMB; b++) {
            if (users[a] && users[b] &&
                memcmp(H->memb[a].raw, H->memb[b].raw, H->n * 8) != 0) {
                other = 1;
            }
        }
    }
    if (same) {
        vf_class("hot.same-input.shared");
    }
    if (priv) {
        vf_class("hot.same-input.private");
    }
    if (other) {
        vf_class("hot.other-input");
        if (same || priv) {
            vf_class("hot.pattern");
        }
    }
}

/* one concurrent execution of the case; *f receives the first mismatch.
 * returns 0 when the case has to be discarded */
static int run_attempt(shared *S, hotctx *H, worker *W, unsigned nthreads,
                       failrec *f) {
    ctl C;
    memset(&C, 0, sizeof(C));
    C.S = S;
    C.H = H;
    for (unsigned t = 0; t < nthreads; t++) {
        W[t].fail.bad = 0;
        W[t].hot_done = 0;
    }
    if (!run_threads(W, nthreads, &C)) {
        return 0;
    }
    f->bad = 0;
    for (unsigned t = 0; t < nthreads; t++) {
        if (W[t].fail.bad) {
            *f = W[t].fail;
            break;
        }
    }
    return 1;
}

static void run_case(vf_report *rep, shared *S, hotctx *H, worker *W,
                     unsigned nthreads) {
    int did_cold = 0;
    const int first_case = g_cases_run == 0;
    g_cases_run++;
    if (!g_warm) {
        g_warm = 1;
        did_cold = 1;
        vf_class("coldstart");
        ctl C;
        memset(&C, 0, sizeof(C));
        C.S = S;
        for (unsigned t = 0; t < nthreads; t++) {
            W[t].cold = 1;
        }
        int ok = run_threads(W, nthreads, &C);
        for (unsigned t = 0; t < nthreads; t++) {
            W[t].cold = 0;
        }
        if (!ok) {
            vf_discard("pthread_create failed or barrier timed out");
            return;
        }
    }

    /* first library calls of the main thread */
    for (unsigned i = 0; i < NPOOL; i++) {
        pool_encode(&S->p[i]);
    }
    S->dict = varintDictCreate();
    if (!S->dict || varintDictBuild(S->dict, S->p[0].raw, S->p[0].n) != 0) {
        abort();
    }

    if (did_cold) {
        for (unsigned k = 0; k < O_COUNT; k++) {
            if (!cold_capable(k)) {
                continue;
            }
            for (unsigned t = 0; t < nthreads; t++) {
                uint64_t want = op_run(S, k, cold_input(t, k));
                if (W[t].cold_hash[k] != want) {
                    char site[64];
                    snprintf(site, sizeof(site), "%s", op_name[k]);
                    vf_fail(rep, site, "value",
                            "cold start: thread %u of %u, %s input=%u: output "
                            "hash 0x%016llx differs from the sequential run's "
                            "0x%016llx",
                            t, nthreads, op_name[k], cold_input(t, k),
                            (unsigned long long)W[t].cold_hash[k],
                            (unsigned long long)want);
                    g_fail_seen = 1;
                    return;
                }
            }
        }
    }

    /* sequential expectations, then the generated assignment concurrently */
    for (unsigned t = 0; t < nthreads; t++) {
        for (unsigned i = 0; i < W[t].nops; i++) {
            W[t].ops[i].expect = op_run(S, W[t].ops[i].codec, W[t].ops[i].input);
        }
    }
    if (H->on) {
        hot_setup(S, H);
        hot_classes(H, W, nthreads);
        const size_t n = H->n;
        for (unsigned t = 0; t < nthreads; t++) {
            worker *w = &W[t];
            if (w->priv) {
                pool_clone(&w->clone, &H->memb[w->member], H->need_enc);
            }
            if (H->kind < H_COUNT) {
                w->io.dst = (uint8_t *)xmalloc(cap_for(n));
                w->io.out = (uint64_t *)xmalloc(((n > 64 ? n : 64) + 8) * 8);
            }
        }
    }

    failrec f;
    memset(&f, 0, sizeof(f));
    unsigned attempts = first_case ? REPLAY_ATTEMPTS : 1;
    int ok = 1;
    for (unsigned a = 0; a < attempts && ok && !f.bad; a++) {
        ok = run_attempt(S, H, W, nthreads, &f);
    }
    if (ok && f.bad && g_fail_seen) {
        /* a shrink candidate: accept it only if it fails again in one of two
         * further runs, so that what is kept reproduces */
        failrec f2;
        memset(&f2, 0, sizeof(f2));
        for (unsigned a = 0; a < 2 && ok && !f2.bad; a++) {
            ok = run_attempt(S, H, W, nthreads, &f2);
        }
        if (!f2.bad) {
            vf_class("shrink.unconfirmed");
            f.bad = 0;
        }
    }
    unsigned long done = 0;
    for (unsigned t = 0; t < nthreads; t++) {
        done += W[t].hot_done;
    }
    vf_class_n("hot.iterations", done);
    if (!ok) {
        vf_discard("pthread_create failed or barrier timed out");
        return;
    }
    if (f.bad) {
        g_fail_seen = 1;
        vf_fail(rep, f.site, f.kind, "%s", f.detail);
    }
}

static void case_free(shared *S, hotctx *H, worker *W, unsigned nthreads) {
    for (unsigned t = 0; t < nthreads; t++) {
        if (W[t].clone.raw) {
            pool_free(&W[t].clone);
        }
        free(W[t].io.dst);
        free(W[t].io.out);
    }
    hot_free(H);
    if (S->dict) {
        varintDictFree(S->dict);
    }
    for (unsigned i = 0; i < NPOOL; i++) {
        pool_free(&S->p[i]);
    }
    free(W);
    free(H);
    free(S);
}

/* elements one hot iteration touches (some entry points look at a prefix) */
static size_t hot_span(unsigned kind, size_t n) {
    size_t cap = n;
    if (kind == H_GROUP_ENC) {
        cap = 64;
    } else if (kind >= H_COUNT) {
        switch (kind - H_COUNT) {
        case O_TAGGED:
        case O_EXTERNAL:
        case O_CHAINED:
        case O_SPLIT:
            cap = 48;
            break;
        case O_GROUP:
            cap = 64;
            break;
        case O_PACKED:
            cap = 200;
            break;
        case O_BITSTREAM:
            cap = 120;
            break;
        default:
            break;
        }
    }
    return n < cap ? n : cap;
}

static void len_classes(const char *prefix, size_t n) {
    static const size_t lim[3] = {64, 256, 1024};
    for (unsigned i = 0; i < 3; i++) {
        if (n >= lim[i]) {
            char cls[48];
            snprintf(cls, sizeof(cls), "%s.len>=%zu", prefix, lim[i]);
            vf_class(cls);
        }
    }
}

void vf_run(vf_rd *r, vf_report *rep) {
    if (g_fail_seen) {
        /* everything after the first violation of a process is a shrink
         * candidate (or a later file of a replay list) */
        if (g_shrink_runs >= SHRINK_BUDGET) {
            vf_class("shrink.budget-exhausted");
            vf_desc(rep, "not executed: shrink budget exhausted");
            return;
        }
        g_shrink_runs++;
    }
    const int tsan = strcmp(vf_config(), "tsan") == 0;
    unsigned nthreads = 2 + vf_u8(r) % (MAXTHREADS - 1);
    unsigned repeats = 1 + vf_u8(r) % (vf_tier() ? 50 : 16);
    if (!tsan) {
        /* uninstrumented builds are ~10x faster: keep the threads contending
         * for a comparable time */
        repeats *= 8;
    }
    const uint8_t lenmix = vf_u8(r);
    const uint8_t hkind = vf_u8(r), hpar = vf_u8(r), hsel = vf_u8(r),
                  hunits = vf_u8(r);
    uint8_t roles[MAXTHREADS]; /* 4 bits per thread */
    for (unsigned t = 0; t < MAXTHREADS; t += 2) {
        const uint8_t b = vf_u8(r);
        roles[t] = b & 15;
        roles[t + 1] = b >> 4;
    }
    shared *S = (shared *)xzalloc(sizeof(shared));
    hotctx *H = (hotctx *)xzalloc(sizeof(hotctx));
    const size_t maxlen = vf_tier() ? 4200 : 600;
    static const uint16_t minlen[4] = {0, 64, 256, 1024};
    size_t maxn = 0;
    vf_desc(rep, "threads=%u repeats=%u pool=[", nthreads, repeats);
    for (unsigned i = 0; i < NPOOL; i++) {
        vf_arr a;
        vf_take_array(r, &a, maxlen, 0);
        const size_t want = minlen[(lenmix >> (2 * i)) & 3];
        if (a.n < want) {
            /* tile the generated array up to the slot's minimum length */
            const size_t n2 = want + a.n - 1;
            uint64_t *v = (uint64_t *)xmalloc(n2 * 8);
            for (size_t k = 0; k < n2; k++) {
                v[k] = a.v[k % a.n];
            }
            pool_build(&S->p[i], v, n2);
            free(v);
            vf_desc(rep, "%stiled to n=%zu: %.44s", i ? " | " : "", n2, a.desc);
        } else {
            pool_build(&S->p[i], a.v, a.n);
            vf_desc(rep, "%s%.60s", i ? " | " : "", a.desc);
        }
        if (S->p[i].n > maxn) {
            maxn = S->p[i].n;
        }
        vf_arr_free(&a);
    }
    len_classes("pool", maxn);

    /* hot loop parameters */
    H->on = hunits != 0;
    H->kind = hkind % (H_COUNT + O_COUNT);
    H->par = hpar;
    H->group = (hsel & 3) % NPOOL;
    H->shift = 8 * ((hsel >> 2) & 7);
    H->need_enc =
        H->kind == H_DECODE || H->kind == H_COUNT + (unsigned)O_DECODE_SHARED;
    char hname[64];
    hot_kind_name(H, hname, sizeof(hname));
    if (H->on) {
        const size_t n = S->p[H->group].n;
        const unsigned weight = H->kind < H_COUNT ? hot_weight[H->kind] : 10;
        const uint64_t unit = (tsan ? 640u : 8192u) * (vf_tier() ? 2u : 1u);
        uint64_t it = (uint64_t)hunits * unit / (hot_span(H->kind, n) * weight);
        H->iters = it < 4 ? 4 : it > 40000 ? 40000 : (unsigned)it;
        vf_desc(rep, "] hot=%s par=%u group=%u n=%zu shift=%u iters=%u roles=",
                hname + 4, H->par, H->group, n, H->shift, H->iters);
        vf_class(hname);
        len_classes("hot", n);
    } else {
        vf_desc(rep, "] hot=off roles=");
        vf_class("hot.off");
    }

    worker *W = (worker *)xzalloc(sizeof(worker) * nthreads);
    /* assignment */
    unsigned seen[O_COUNT][NPOOL]; /* bitmask of threads using (codec, pool) */
    memset(seen, 0, sizeof(seen));
    uint64_t ch = vf_mix(nthreads, repeats);
    for (unsigned i = 0; i < NPOOL; i++) {
        ch = HB(ch, S->p[i].raw, S->p[i].n * 8);
    }
    ch = vf_mix(ch, ((uint64_t)H->on << 40) | ((uint64_t)H->kind << 32) |
                        (H->par << 16) | (H->group << 8) | H->shift);
    ch = vf_mix(ch, H->iters);
    unsigned shared_users[NMEMB] = {0, 0, 0, 0};
    for (unsigned t = 0; t < nthreads; t++) {
        worker *w = &W[t];
        w->id = t;
        w->repeats = repeats;
        const uint8_t role = roles[t];
        w->member = role & 3;
        w->priv = (role >> 2) & 1;
        if (!w->priv) {
            shared_users[w->member]++;
        }
        ch = vf_mix(ch, role & 7);
        vf_desc(rep, "%u%c", w->member, w->priv ? 'p' : 's');
    }
    vf_desc(rep, " ops=");
    for (unsigned t = 0; t < nthreads; t++) {
        worker *w = &W[t];
        w->nops = 1 + vf_u8(r) % MAXOPS;
        vf_desc(rep, "%st%u:", t ? " " : "", t);
        for (unsigned i = 0; i < w->nops; i++) {
            w->ops[i].codec = (uint8_t)(vf_u8(r) % O_COUNT);
            w->ops[i].input = vf_u8(r);
            seen[w->ops[i].codec][w->ops[i].input % NPOOL] |= 1u << t;
            ch = vf_mix(ch, ((uint64_t)t << 16) |
                                ((uint64_t)w->ops[i].codec << 8) |
                                w->ops[i].input);
            vf_desc(rep, "%s%s/%u", i ? "," : "", op_name[w->ops[i].codec],
                    w->ops[i].input);
            char cls[48];
            snprintf(cls, sizeof(cls), "op.%s", op_name[w->ops[i].codec]);
            vf_class(cls);
        }
    }
    int shared_pair = 0;
    for (unsigned c = 0; c < O_COUNT; c++) {
        for (unsigned i = 0; i < NPOOL; i++) {
            unsigned m = seen[c][i];
            if (m & (m - 1)) {
                shared_pair = 1;
                char cls[64];
                snprintf(cls, sizeof(cls), "concurrent.%s", op_name[c]);
                vf_class(cls);
            }
        }
    }
    if (H->on) {
        for (unsigned m = 0; m < NMEMB; m++) {
            if (shared_users[m] >= 2) {
                shared_pair = 1;
            }
        }
    }
    {
        char cls[32];
        snprintf(cls, sizeof(cls), "threads.%s",
                 nthreads <= 4 ? "2-4" : nthreads <= 8 ? "5-8" : "9-16");
        vf_class(cls);
    }
    if (shared_pair) {
        vf_nontrivial(ch);
    }
    run_case(rep, S, H, W, nthreads);
    case_free(S, H, W, nthreads);
}

/* deterministic smoke case: 16 threads, every codec in several threads on
 * three fixed pool arrays, then a hot loop of PFOR encodes over all four
 * members, shared and private (also a cold start when nothing ran before it
 * in this process) */
void vf_sweep(vf_report *rep) {
    static const uint8_t pool[] = {
        /* 128 values of 20 random bits */
        2, 9, 0, VF_SH_RANDOM_WIDTH, 38, 1, 0x11, 0x22, 0x33, 0x44, 0x55, 0x66,
        0x77, 0x08,
        /* 300 sorted values of 40 random bits */
        3, 44, 2, VF_SH_SORTED_RANDOM, 78, 1, 0x91, 0xa2, 0xb3, 0xc4, 0xd5, 0xe6,
        0xf7, 0x18,
        /* 30 values from a palette of three (tiled to 1053) */
        0, 29, 0, VF_SH_FEW_UNIQUE, 2, 2, 7, 2, 200, 2, 9, 0x21, 0x43, 0x65,
        0x07};
    uint8_t c[7 + 8 + sizeof(pool) + 16 * (1 + 2 * MAXOPS)];
    size_t k = 0;
    c[k++] = 14;         /* 16 threads */
    c[k++] = 3;          /* repeats */
    c[k++] = 0x31;       /* minimum lengths: 64, none, 1024 */
    c[k++] = H_PFOR_ENC; /* hot entry point */
    c[k++] = 0;          /* par */
    c[k++] = 1 << 2;     /* group 0, member 3 shifted by 8 bits */
    c[k++] = 40;         /* units */
    for (unsigned t = 0; t < 16; t += 2) {
        /* member t & 3, private copy for t & 4 */
        c[k++] = (uint8_t)((t & 7) | (((t + 1) & 7) << 4));
    }
    memcpy(c + k, pool, sizeof(pool));
    k += sizeof(pool);
    for (unsigned t = 0; t < 16; t++) {
        c[k++] = MAXOPS - 1;
        for (unsigned i = 0; i < MAXOPS; i++) {
            c[k++] = (uint8_t)((t * 3 + i * 5) % O_COUNT);
            c[k++] = (uint8_t)(i * 7 + t);
        }
    }
    vf_rd r = {c, k, 0};
    vf_run(&r, rep);
}
