/* C17 - stateless codecs are safe to call concurrently.
 *
 * case layout:  threads:1 (2..16)  repeats:1  lenmix:1
 *               hot: { kind:1 par:1 sel:1 units:1 }   (units 0 = no hot loop)
 *               roles:8   (4 bits per thread: member 0..3, private copy?)
 *               pool: 3 x array-descriptor
 *               then per thread  nops:1 (1..8) x { codec:1 input:1 }.
 *
 * The pool (three integer arrays, their domain-conforming variants, doubles,
 * one pre-encoded buffer per codec and one prebuilt varintDict) is built by
 * the main thread and is read-only afterwards.  `lenmix` gives each pool slot
 * a minimum length (none / 64 / 256 / 1024; a shorter generated array is
 * tiled up to it), so arrays beyond the small-input paths of the codecs are
 * always present.
 *
 * A sequential pass computes the expectation of every operation (hash of
 * returned lengths, bytes up to the returned length, decoded values, metadata
 * fields the library writes).  Then T pthreads start behind a barrier and run
 *
 *   phase 1  their generated operation lists `repeats` times (every
 *            repetition of every operation is compared), and
 *   phase 2  a hot loop: every thread calls the SAME codec entry point (one
 *            of 17 lean encode / analyse / decode calls, one of the 11
 *            scalar / helper operations whose trace is compared byte by
 *            byte, or any of the 22 older phase-1 operations) back to back
 *            on one member of a group of
 *            four inputs of EQUAL length and different contents (member 0 =
 *            pool array `sel & 3`, members 1,2
 *            = the contents of the other two pool arrays tiled to that
 *            length, member 3 = member 0 reversed and shifted).  `role` gives
 *            the member and whether the thread reads the shared copy or a
 *            thread-private copy of it.  Threads with the same member hammer
 *            the same (codec, input) pair - what a memo or cache keyed by the
 *            input would hit - while the others feed the same codec different
 *            inputs of the same length.  Every iteration's returned length,
 *            metadata fields and output bytes are compared with the
 *            sequentially computed ones.
 *
 * Operations (33): the array codecs and scalar put/get pairs of the first
 * version, plus - after an audit of the op table against the headers and the
 * exported symbols of /repo/src - one operation per group of scalar entry
 * points that nothing called: the in-place adds (histories on a private
 * slot), fixed-width / quick-macro / 128-bit forms, 32-bit chained entry
 * points, reversed split forms, single-value Elias coders with a private bit
 * writer, varintDeltaPut/Get + zig-zag, dimension headers and a private
 * matrix history, positional packed-array operations, and the remaining pure
 * helpers of the array codecs (see the comment above sc_run).
 *
 * All outputs are thread-private.  oracle: in the `tsan` configuration any
 * ThreadSanitizer report kills the process (halt_on_error=1, exitcode=87; the
 * framework captures the in-flight case); in every configuration every result
 * of every thread must equal the sequential one.  The uninstrumented `rel`
 * configuration runs ~10x the repetitions (narrow windows need volume).
 *
 * Schedule dependence: a result mismatch is a fact about one schedule.  To
 * keep shrinking and confirmation meaningful (a) once this process has
 * reported a violation, a later case (= a shrink candidate) is reported only
 * if it fails twice in three runs, and at most SHRINK_BUDGET candidates are
 * executed at all; (b) the first case of a process (= a replay, or the
 * deterministic sweep) is run REPLAY_ATTEMPTS times unless it fails earlier.
 * Neither can create a violation that did not occur.
 *
 * Barriers are bounded (a thread that does not arrive within ~20 s breaks the
 * barrier for everybody and the case is discarded), so a worker cannot hang
 * on a missing thread. */
#include "vf.h"
#include "vf_arr.h"

#include <pthread.h>
#include <sched.h>
#include <stdarg.h>
#include <stdatomic.h>
#include <time.h>

#include "varint.h"
#include "varintAdaptive.h"
#include "varintBP128.h"
#include "varintBitstream.h"
#include "varintChained.h"
#include "varintChainedSimple.h"
#include "varintDelta.h"
#include "varintDict.h"
#include "varintDimension.h"
#include "varintElias.h"
#include "varintExternal.h"
#include "varintExternalBigEndian.h"
#include "varintFOR.h"
#include "varintFloat.h"
#include "varintGroup.h"
#include "varintPFOR.h"
#include "varintRLE.h"
#include "varintSplit.h"
#include "varintSplitFull.h"
#include "varintSplitFull16.h"
#include "varintSplitFullNoZero.h"
#include "varintTagged.h"

/* the 12-bit instantiation the tree itself uses (varintPackedTest.c) */
#define PACK_STATIC 1 /* varintDimension.c already exports varintPacked12* */
#define PACK_FUNCTION_PREFIX c17Packed
#define PACK_STORAGE_BITS 12
#define PACK_STORAGE_SLOT_STORAGE_TYPE uint32_t
#define PACK_STORAGE_VALUE_TYPE uint16_t
#define PACK_STORAGE_MICRO_PROMOTION_TYPE uint32_t
#include "varintPacked.h"

const char *vf_prop_id = "C17";
const size_t vf_case_maxlen = 400;

#define NPOOL 3
#define MAXTHREADS 16
#define MAXOPS 8

enum enc_kind {
    E_FOR = 0,
    E_PFOR,
    E_DICT,
    E_RLE,
    E_RLEH,
    E_ELIAS_G,
    E_ELIAS_D,
    E_BP64,
    E_BPD64,
    E_BP32,
    E_FLOAT,
    E_ADAPTIVE,
    E_DELTA,
    E_GROUP,
    E_COUNT
};

typedef struct pool_entry {
    size_t n;
    uint64_t *raw;    /* as generated */
    uint64_t *ge1;    /* every value >= 1 */
    uint64_t *sorted; /* non-decreasing */
    int64_t *sd;      /* differences representable */
    uint32_t *u32;
    uint32_t *s32; /* sorted, 32-bit */
    double *dbl;
    uint8_t *enc[E_COUNT]; /* shared pre-encoded buffers */
    size_t enclen[E_COUNT];
    size_t encbits[E_COUNT]; /* Elias */
    varintPFORMeta pforMeta;
} pool_entry;

typedef struct shared {
    pool_entry p[NPOOL];
    varintDict *dict; /* prebuilt from p[0].raw, read-only */
} shared;

enum op_kind {
    O_TAGGED = 0,
    O_EXTERNAL,
    O_CHAINED,
    O_SPLIT,
    O_DELTA_U,
    O_DELTA_S,
    O_FOR,
    O_FOR_BATCH,
    O_PFOR,
    O_GROUP,
    O_DICT,
    O_DICT_SHARED,
    O_RLE,
    O_ELIAS,
    O_BP128_32,
    O_BP128_64,
    O_FLOAT,
    O_ADAPT_AUTO,
    O_ADAPT_FORCED,
    O_DECODE_SHARED,
    O_PACKED,
    O_BITSTREAM,
    /* scalar entry points on thread-private storage (audit of the public
     * scalar API, see the comment above sc_run) */
    O_TAGGED_ADD,
    O_EXTERNAL_ADD,
    O_FIXED,
    O_CHAINED32,
    O_SPLIT_REV,
    O_ELIAS_SINGLE,
    O_DELTA_SCALAR,
    O_DIM_HEADER,
    O_DIM_MATRIX,
    O_PACKED_POS,
    O_HELPERS,
    O_COUNT
};
#define O_OLD_COUNT ((unsigned)O_BITSTREAM + 1) /* reachable as hot.op.* */
#define O_SC_FIRST ((unsigned)O_TAGGED_ADD)
#define SC_COUNT ((unsigned)O_COUNT - (unsigned)O_TAGGED_ADD)

static const char *const op_name[O_COUNT] = {
    "scalar.tagged", "scalar.external", "scalar.chained", "scalar.split",
    "delta.unsigned", "delta.signed",   "for",            "for.batch",
    "pfor",          "group",           "dict",           "dict.shared",
    "rle",           "elias",           "bp128.32",       "bp128.64",
    "float",         "adaptive.auto",   "adaptive.forced", "decode.shared",
    "packed12",      "bitstream",
    "scalar.tagged.add", "scalar.external.add", "scalar.fixed",
    "scalar.chained32",  "scalar.split.reversed", "elias.single",
    "delta.scalar",      "dimension.header",    "dimension.matrix",
    "packed12.positional", "array.helpers"};

static uint64_t HB(uint64_t h, const void *p, size_t n) {
    return vf_hash_bytes(h, p, n);
}

static void *xmalloc(size_t n) {
    void *p = malloc(n ? n : 1);
    if (!p) {
        abort();
    }
    return p;
}

static void *xzalloc(size_t n) {
    void *p = calloc(n ? n : 1, 1);
    if (!p) {
        abort();
    }
    return p;
}

static int cmp_u64(const void *a, const void *b) {
    uint64_t x = *(const uint64_t *)a, y = *(const uint64_t *)b;
    return x < y ? -1 : x > y;
}

static int cmp_u32(const void *a, const void *b) {
    uint32_t x = *(const uint32_t *)a, y = *(const uint32_t *)b;
    return x < y ? -1 : x > y;
}

/* ------------------------------------------------------------ encoders used
 * both by the pool setup and by the operations */
static size_t cap_for(size_t n) {
    return n * 27 + 8400;
}

static size_t enc_for(uint8_t *dst, const uint64_t *v, size_t n, int batch,
                      uint64_t *h) {
    varintFORMeta m;
    memset(&m, 0, sizeof(m));
    size_t len = batch ? varintFORBatchEncode(dst, v, n, &m)
                       : varintFOREncode(dst, v, n, &m);
    if (h) {
        *h = vf_mix(*h, m.minValue);
        *h = vf_mix(*h, m.maxValue);
        *h = vf_mix(*h, m.range);
        *h = vf_mix(*h, m.count);
        *h = vf_mix(*h, m.encodedSize);
        *h = vf_mix(*h, (uint64_t)m.offsetWidth);
    }
    return len;
}

static size_t enc_pfor(uint8_t *dst, const uint64_t *v, size_t n, unsigned thr,
                       varintPFORMeta *m, uint64_t *h) {
    static const uint32_t t[3] = {VARINT_PFOR_THRESHOLD_95,
                                  VARINT_PFOR_THRESHOLD_90,
                                  VARINT_PFOR_THRESHOLD_99};
    memset(m, 0, sizeof(*m));
    size_t len = varintPFOREncode(dst, v, (uint32_t)n, t[thr % 3], m);
    if (h && len) {
        *h = vf_mix(*h, m->min);
        *h = vf_mix(*h, m->exceptionMarker);
        *h = vf_mix(*h, m->thresholdValue);
        *h = vf_mix(*h, (uint64_t)m->width);
        *h = vf_mix(*h, m->count);
        *h = vf_mix(*h, m->exceptionCount);
        *h = vf_mix(*h, m->threshold);
    }
    return len;
}

/* ------------------------------------------------------------- operations */
static uint64_t op_scalar(const pool_entry *p, unsigned kind, unsigned par) {
    uint64_t h = kind;
    size_t k = p->n < 48 ? p->n : 48;
    for (size_t i = 0; i < k; i++) {
        uint64_t v = p->raw[i], r = 0;
        uint8_t b[24];
        memset(b, 0, sizeof(b));
        unsigned l = 0, g = 0;
        switch (kind) {
        case O_TAGGED:
            l = varintTaggedPut64(b, v);
            g = varintTaggedGet64(b, &r);
            h = vf_mix(h, varintTaggedLen(v));
            break;
        case O_EXTERNAL:
            if (par & 1) {
                l = varintExternalBigEndianPut(b, v);
                r = varintExternalBigEndianGet(b, (varintWidth)l);
            } else {
                l = varintExternalPut(b, v);
                r = varintExternalGet(b, (varintWidth)l);
            }
            g = l;
            break;
        case O_CHAINED:
            if (par & 1) {
                l = varintChainedSimpleEncode64(b, v);
                g = varintChainedSimpleDecode64(b, &r);
            } else {
                l = varintChainedPutVarint(b, v);
                g = varintChainedGetVarint(b, &r);
            }
            break;
        default:
            switch (par & 3) {
            case 0:
                varintSplitPut_(b, l, v);
                varintSplitGet_(b, g, r);
                break;
            case 1:
                varintSplitFullPut_(b, l, v);
                varintSplitFullGet_(b, g, r);
                break;
            case 2:
                varintSplitFull16Put_(b, l, v);
                varintSplitFull16Get_(b, g, r);
                break;
            default:
                if (v == 0) {
                    v = 1;
                }
                varintSplitFullNoZeroPut_(b, l, v);
                varintSplitFullNoZeroGet_(b, g, r);
                break;
            }
            break;
        }
        h = vf_mix(h, l);
        h = vf_mix(h, g);
        h = vf_mix(h, r);
        h = HB(h, b, l <= 16 ? l : 16);
    }
    return h;
}

static uint64_t op_delta(const pool_entry *p, int is_signed) {
    const size_t n = p->n;
    uint8_t *dst = (uint8_t *)xzalloc(n * 9 + 64);
    uint64_t *out = (uint64_t *)xzalloc(n * 8);
    size_t len, used;
    if (is_signed) {
        len = varintDeltaEncode(dst, p->sd, n);
        used = varintDeltaDecode(dst, n, (int64_t *)out);
    } else {
        len = varintDeltaEncodeUnsigned(dst, p->raw, n);
        used = varintDeltaDecodeUnsigned(dst, n, out);
    }
    uint64_t h = vf_mix(len, used);
    h = HB(h, dst, len);
    h = HB(h, out, n * 8);
    free(out);
    free(dst);
    return h;
}

static uint64_t op_for(const pool_entry *p, int batch, unsigned par) {
    const size_t n = p->n;
    uint8_t *dst = (uint8_t *)xzalloc(n * 8 + 64);
    uint64_t *out = (uint64_t *)xzalloc(n * 8);
    uint64_t h = 0x46;
    if (par & 1) {
        varintFORMeta a;
        memset(&a, 0, sizeof(a));
        if (batch) {
            varintFORBatchAnalyze(p->raw, n, &a);
        } else {
            varintFORAnalyze(p->raw, n, &a);
        }
        h = vf_mix(h, a.minValue ^ a.range ^ (uint64_t)a.offsetWidth);
        h = vf_mix(h, varintFORSize(&a));
    }
    size_t len = enc_for(dst, p->raw, n, batch, &h);
    size_t c = batch ? varintFORBatchDecode(dst, out, n)
                     : varintFORDecode(dst, out, n);
    h = vf_mix(h, len);
    h = vf_mix(h, c);
    h = HB(h, dst, len);
    h = HB(h, out, (c < n ? c : n) * 8);
    h = vf_mix(h, varintFORGetAt(dst, (par >> 1) % n));
    h = vf_mix(h, varintFORGetCount(dst));
    free(out);
    free(dst);
    return h;
}

static uint64_t op_pfor(const pool_entry *p, unsigned par) {
    const size_t n = p->n;
    uint8_t *dst = (uint8_t *)xzalloc(n * 27 + 128);
    uint64_t *out = (uint64_t *)xzalloc(n * 8);
    uint64_t h = 0x50;
    varintPFORMeta m;
    size_t len = enc_pfor(dst, p->raw, n, par, &m, &h);
    h = vf_mix(h, len);
    if (len) {
        h = HB(h, dst, len);
        varintPFORMeta dm;
        memset(&dm, 0, sizeof(dm));
        size_t c = varintPFORDecode(dst, out, &dm);
        h = vf_mix(h, c);
        h = HB(h, out, (c < n ? c : n) * 8);
        h = vf_mix(h, varintPFORGetAt(dst, (uint32_t)((par >> 2) % n), &m));
        h = vf_mix(h, varintPFORSize(&m));
    }
    free(out);
    free(dst);
    return h;
}

static uint64_t op_group(const pool_entry *p, unsigned par) {
    const size_t n = p->n > 64 ? 64 : p->n;
    uint8_t dst[1 + 16 + 64 * 8 + 16];
    uint64_t out[64];
    memset(dst, 0, sizeof(dst));
    memset(out, 0, sizeof(out));
    size_t len = varintGroupEncode(dst, p->raw, (uint8_t)n);
    uint8_t fc = 0;
    size_t used = varintGroupDecode(dst, out, &fc, 64);
    uint64_t fv = 0;
    size_t fr = varintGroupGetField(dst, (uint8_t)(par % n), &fv);
    uint64_t h = vf_mix(len, used);
    h = vf_mix(h, fc);
    h = vf_mix(h, fr);
    h = vf_mix(h, fv);
    h = vf_mix(h, varintGroupGetSize(dst));
    h = HB(h, dst, len);
    h = HB(h, out, (size_t)fc * 8);
    return h;
}

static uint64_t dict_decode_both(uint64_t h, const uint8_t *buf, size_t len,
                                 size_t n) {
    uint64_t *out = (uint64_t *)xzalloc(n * 8);
    size_t c = varintDictDecodeInto(buf, len, out, n);
    h = vf_mix(h, c);
    h = HB(h, out, (c < n ? c : n) * 8);
    size_t oc = 0;
    uint64_t *al = varintDictDecode(buf, len, &oc);
    h = vf_mix(h, al != NULL);
    if (al) {
        h = vf_mix(h, oc);
        h = HB(h, al, (oc < n ? oc : n) * 8);
        free(al);
    }
    free(out);
    return h;
}

static uint64_t op_dict(const shared *S, const pool_entry *p, int use_shared,
                        unsigned par) {
    /* the shared dictionary was built from pool array 0, so that is the array
     * it can encode */
    const pool_entry *q = use_shared ? &S->p[0] : p;
    const size_t n = q->n;
    uint8_t *dst = (uint8_t *)xzalloc(n * 13 + 128);
    uint64_t h = 0x44;
    size_t len;
    if (use_shared) {
        len = varintDictEncodeWithDict(dst, S->dict, q->raw, n);
        h = vf_mix(h, (uint64_t)(int64_t)varintDictFind(S->dict,
                                                        q->raw[par % n]));
        h = vf_mix(h, varintDictLookup(S->dict, par % (S->dict->size + 1)));
        h = vf_mix(h, varintDictEncodedSizeWithDict(S->dict, n));
    } else {
        len = varintDictEncode(dst, q->raw, n);
        h = vf_mix(h, varintDictEncodedSize(q->raw, n));
        if (par & 1) {
            varintDictStats st;
            memset(&st, 0, sizeof(st));
            if (varintDictGetStats(q->raw, n, &st) == 0) {
                h = vf_mix(h, st.uniqueCount);
                h = vf_mix(h, st.totalBytes);
            }
        }
    }
    h = vf_mix(h, len);
    if (len) {
        h = HB(h, dst, len);
        h = dict_decode_both(h, dst, len, n);
    }
    free(dst);
    return h;
}

static uint64_t op_rle(const pool_entry *p, unsigned par) {
    const size_t n = p->n;
    const int hdr = par & 1;
    uint8_t *dst = (uint8_t *)xzalloc(n * 18 + 64);
    uint64_t *out = (uint64_t *)xzalloc(n * 8);
    varintRLEMeta m;
    memset(&m, 0, sizeof(m));
    size_t len = hdr ? varintRLEEncodeWithHeader(dst, p->raw, n, &m)
                     : varintRLEEncode(dst, p->raw, n, &m);
    size_t c = hdr ? varintRLEDecodeWithHeader(dst, out, n)
                   : varintRLEDecode(dst, out, n);
    uint64_t h = vf_mix(len, c);
    h = vf_mix(h, m.count);
    h = vf_mix(h, m.runCount);
    h = vf_mix(h, m.encodedSize);
    h = HB(h, dst, len);
    h = HB(h, out, (c < n ? c : n) * 8);
    h = vf_mix(h, varintRLESize(p->raw, n));
    if (!hdr) {
        h = vf_mix(h, varintRLEGetAt(dst, (par >> 1) % n));
    }
    free(out);
    free(dst);
    return h;
}

static uint64_t op_elias(const pool_entry *p, unsigned par) {
    const size_t n = p->n;
    const int delta = par & 1;
    uint8_t *dst = (uint8_t *)xzalloc(n * 16 + 64);
    uint64_t *out = (uint64_t *)xzalloc(n * 8);
    varintEliasMeta m;
    memset(&m, 0, sizeof(m));
    size_t len = delta ? varintEliasDeltaEncodeArray(dst, p->ge1, n, &m)
                       : varintEliasGammaEncodeArray(dst, p->ge1, n, &m);
    size_t bits = m.totalBits <= len * 8 ? m.totalBits : len * 8;
    size_t c = delta ? varintEliasDeltaDecodeArray(dst, bits, out, n)
                     : varintEliasGammaDecodeArray(dst, bits, out, n);
    uint64_t h = vf_mix(len, c);
    h = vf_mix(h, m.totalBits);
    h = vf_mix(h, m.encodedBytes);
    h = HB(h, dst, len);
    h = HB(h, out, (c < n ? c : n) * 8);
    free(out);
    free(dst);
    return h;
}

static uint64_t mix_bpmeta(uint64_t h, const varintBP128Meta *m) {
    h = vf_mix(h, m->count);
    h = vf_mix(h, m->blockCount);
    h = vf_mix(h, m->encodedBytes);
    h = vf_mix(h, m->lastBlockSize);
    h = vf_mix(h, m->maxBitWidth);
    return h;
}

static uint64_t op_bp128(const pool_entry *p, int wide, unsigned par) {
    const size_t n = p->n;
    const int delta = par & 1;
    uint8_t *dst = (uint8_t *)xzalloc(n * 9 + 128);
    varintBP128Meta m;
    memset(&m, 0, sizeof(m));
    uint64_t h = 0x42;
    size_t len, c;
    if (wide) {
        uint64_t *out = (uint64_t *)xzalloc(n * 8);
        if (delta) {
            len = varintBP128DeltaEncode64(dst, p->sorted, n, &m);
            c = varintBP128DeltaDecode64(dst, out, n);
        } else {
            len = varintBP128Encode64(dst, p->raw, n, &m);
            c = varintBP128Decode64(dst, out, n);
        }
        h = HB(h, out, (c < n ? c : n) * 8);
        free(out);
    } else {
        uint32_t *out = (uint32_t *)xzalloc(n * 4);
        if (delta) {
            len = varintBP128DeltaEncode32(dst, p->s32, n, &m);
            c = varintBP128DeltaDecode32(dst, out, n);
        } else {
            len = varintBP128Encode32(dst, p->u32, n, &m);
            c = varintBP128Decode32(dst, out, n);
        }
        h = HB(h, out, (c < n ? c : n) * 4);
        free(out);
    }
    h = vf_mix(h, len);
    h = vf_mix(h, c);
    h = mix_bpmeta(h, &m);
    h = HB(h, dst, len);
    free(dst);
    return h;
}

static uint64_t op_float(const pool_entry *p, unsigned par) {
    const size_t n = p->n;
    uint8_t *dst = (uint8_t *)xzalloc(n * 27 + 128);
    double *out = (double *)xzalloc(n * 8);
    varintFloatPrecision prec = (varintFloatPrecision)(par & 3);
    varintFloatEncodingMode mode = (varintFloatEncodingMode)((par >> 2) % 3);
    size_t len = varintFloatEncode(dst, p->dbl, n, prec, mode);
    uint64_t h = vf_mix(0x66, len);
    if (len) {
        size_t used = varintFloatDecode(dst, n, out);
        h = vf_mix(h, used);
        h = HB(h, dst, len);
        h = HB(h, out, n * 8);
    }
    free(out);
    free(dst);
    return h;
}

static uint64_t adaptive_decode(uint64_t h, const uint8_t *buf, size_t n) {
    uint64_t *out = (uint64_t *)xzalloc(n * 8);
    varintAdaptiveMeta dm;
    memset(&dm, 0, sizeof(dm));
    size_t c = varintAdaptiveDecode(buf, out, n, &dm);
    h = vf_mix(h, c);
    h = vf_mix(h, (uint64_t)dm.encodingType);
    h = vf_mix(h, dm.originalCount);
    h = HB(h, out, (c < n ? c : n) * 8);
    free(out);
    return h;
}

static uint64_t op_adaptive(const pool_entry *p, int forced, unsigned par) {
    const size_t n = p->n;
    uint8_t *dst = (uint8_t *)xzalloc(cap_for(n));
    varintAdaptiveMeta m;
    memset(&m, 0, sizeof(m));
    size_t len =
        forced ? varintAdaptiveEncodeWith(
                     dst, p->raw, n, (varintAdaptiveEncodingType)(par % 6), &m)
               : varintAdaptiveEncode(dst, p->raw, n, &m);
    uint64_t h = vf_mix(0x41, len);
    if (len) {
        h = vf_mix(h, m.originalCount);
        h = vf_mix(h, m.encodedSize);
        h = vf_mix(h, (uint64_t)m.encodingType);
        h = HB(h, dst, len);
        h = adaptive_decode(h, dst, n);
    }
    free(dst);
    return h;
}

/* decode-only of a shared pre-encoded buffer */
static uint64_t op_decode_shared(const pool_entry *p, unsigned par) {
    const size_t n = p->n;
    const unsigned e = par % E_COUNT;
    const uint8_t *buf = p->enc[e];
    const size_t len = p->enclen[e];
    uint64_t h = vf_mix(0x53, e);
    if (!buf || len == 0) {
        return h;
    }
    uint64_t *out = (uint64_t *)xzalloc(n * 8 + 8);
    size_t c = 0;
    switch (e) {
    case E_FOR:
        c = varintFORDecode(buf, out, n);
        h = vf_mix(h, varintFORGetAt(buf, (par / E_COUNT) % n));
        break;
    case E_PFOR: {
        varintPFORMeta dm;
        memset(&dm, 0, sizeof(dm));
        c = varintPFORDecode(buf, out, &dm);
        h = vf_mix(h, varintPFORGetAt(buf, (uint32_t)((par / E_COUNT) % n),
                                      &p->pforMeta));
        break;
    }
    case E_DICT:
        h = dict_decode_both(h, buf, len, n);
        break;
    case E_RLE:
        c = varintRLEDecode(buf, out, n);
        h = vf_mix(h, varintRLEGetAt(buf, (par / E_COUNT) % n));
        h = vf_mix(h, varintRLEGetRunCount(buf, len));
        break;
    case E_RLEH:
        c = varintRLEDecodeWithHeader(buf, out, n);
        h = vf_mix(h, varintRLEGetCount(buf));
        break;
    case E_ELIAS_G:
        c = varintEliasGammaDecodeArray(buf, p->encbits[e], out, n);
        break;
    case E_ELIAS_D:
        c = varintEliasDeltaDecodeArray(buf, p->encbits[e], out, n);
        break;
    case E_BP64:
        c = varintBP128Decode64(buf, out, n);
        h = vf_mix(h, varintBP128GetCount(buf, len));
        break;
    case E_BPD64:
        c = varintBP128DeltaDecode64(buf, out, n);
        break;
    case E_BP32: {
        uint32_t *o32 = (uint32_t *)xzalloc(n * 4);
        c = varintBP128Decode32(buf, o32, n);
        h = HB(h, o32, (c < n ? c : n) * 4);
        free(o32);
        c = 0;
        break;
    }
    case E_FLOAT: {
        size_t used = varintFloatDecode(buf, n, (double *)out);
        h = vf_mix(h, used);
        c = n;
        break;
    }
    case E_ADAPTIVE:
        h = adaptive_decode(h, buf, n);
        break;
    case E_DELTA:
        h = vf_mix(h, varintDeltaDecodeUnsigned(buf, n, out));
        c = n;
        break;
    default: { /* E_GROUP */
        uint8_t fc = 0;
        uint64_t g[64];
        memset(g, 0, sizeof(g));
        size_t used = varintGroupDecode(buf, g, &fc, 64);
        h = vf_mix(h, used);
        h = HB(h, g, (size_t)fc * 8);
        break;
    }
    }
    h = vf_mix(h, c);
    h = HB(h, out, (c < n ? c : n) * 8);
    free(out);
    return h;
}

/* packed-array history on thread-private storage, driven by the pool array */
#define PK_CAP 120
static uint64_t op_packed(const pool_entry *p, unsigned par) {
    uint32_t holder[64]; /* 2048 bits = 170 elements of 12 bits */
    memset(holder, 0, sizeof(holder));
    uint32_t len = 0;
    uint64_t h = 0x4b;
    size_t steps = p->n < 200 ? p->n : 200;
    for (size_t i = 0; i < steps; i++) {
        uint64_t x = p->raw[i] * 0x9e3779b97f4a7c15ULL + par;
        uint16_t val = (uint16_t)((x >> 20) & 0xfff);
        switch ((x >> 8) % 5) {
        case 0:
        case 1:
            if (len < PK_CAP) {
                c17Packed12InsertSorted(holder, len, val);
                len++;
            }
            break;
        case 2:
            if (len > 0 && c17Packed12DeleteMember(holder, len, val)) {
                len--;
                h = vf_mix(h, 1);
            }
            break;
        case 3:
            h = vf_mix(h, (uint64_t)c17Packed12Member(holder, len, val));
            break;
        default:
            if (len > 0) {
                h = vf_mix(h, c17Packed12Get(holder, (uint32_t)(x % len)));
            }
            break;
        }
    }
    for (uint32_t i = 0; i < len; i++) {
        h = vf_mix(h, c17Packed12Get(holder, i));
    }
    /* unsorted slots: plain set / get above the sorted prefix */
    for (uint32_t i = 0; i < 16; i++) {
        c17Packed12Set(holder, PK_CAP + 1 + i, (uint16_t)((par * 37u + i * 259u) & 0xfff));
    }
    for (uint32_t i = 0; i < 16; i++) {
        h = vf_mix(h, c17Packed12Get(holder, PK_CAP + 1 + i));
    }
    return vf_mix(h, len);
}

/* bitstream history on thread-private storage */
static uint64_t op_bitstream(const pool_entry *p, unsigned par) {
    vbits bs[18];
    memset(bs, 0, sizeof(bs));
    uint64_t h = 0x62;
    size_t steps = p->n < 120 ? p->n : 120;
    for (size_t i = 0; i < steps; i++) {
        uint64_t x = p->raw[i] * 0xff51afd7ed558ccdULL + par + i;
        size_t width = 1 + (size_t)((x >> 3) % 64);
        size_t off = (size_t)((x >> 12) % (16 * 64 - width + 1));
        uint64_t val = p->raw[i] ^ x;
        if (width < 64) {
            val &= (1ULL << width) - 1;
        }
        varintBitstreamSet(bs, off, width, val);
        h = vf_mix(h, varintBitstreamGet(bs, off, width));
        h = vf_mix(h, varintBitstreamGet(bs, (off * 7) % (15 * 64), 1 + (i % 64)));
    }
    return HB(h, bs, sizeof(bs));
}

/* ------------------------------------------------ scalar entry points, part 2
 * Audit of the op table against the public scalar API (headers + `nm` of the
 * library objects): everything below was exported / defined in a header but
 * not called by any operation above.  All storage written by these calls is
 * thread-private (stack slots); the only shared memory is the read-only pool
 * array the arguments are derived from.
 *
 * Every operation writes a TRACE: for each step the values the library
 * returned and the bytes of the private slot after the call.  The phase-1
 * operation compares the hash of the trace with the sequential run's, the
 * hot-loop kind of the same name compares the trace byte by byte (the
 * mismatch report names the offset and shows both windows).
 *
 *   scalar.tagged.add     varintTaggedAddGrow / AddNoGrow: a history of
 *                         SC_STEPS adds on one 9-byte slot (amounts: small
 *                         +/-, jumps to a width boundary -1/0/+1, any 64-bit
 *                         amount (int64 overflow -> 0, slot untouched), back
 *                         to nearly zero); trace = returned width + slot bytes
 *                         after every add
 *   scalar.external.add   the same for varintExternalAddGrow / AddNoGrow; the
 *                         caller-side width follows the documented protocol
 *                         (0: unchanged, no-grow refusal: unchanged, else the
 *                         returned width)
 *   scalar.fixed          tagged Put64FixedWidth / Put64FixedWidthQuick_ /
 *                         Get / Get64Quick_ / Get64ReturnValue / GetLen /
 *                         GetLenQuick_ / LenQuick / 32-bit put+get; external
 *                         PutFixedWidth / ...Quick_ / ...QuickMedium_ /
 *                         PutFixedWidthBig / GetQuick_ / GetQuickMedium_ /
 *                         GetQuickMediumReturnValue_ / varintBigExternalGet /
 *                         SignedEncoding / UnsignedEncoding; big-endian Put /
 *                         PutFixedWidth / PutFixedWidthQuick_ / Get /
 *                         GetQuick_ / UnsignedEncoding; the Prepare / Restore
 *                         sign macros (24, 40, 48, 56 bits)
 *   scalar.chained32      varintChained_putVarint32 / _getVarint32 /
 *                         GetVarint32 / VarintLen; chained-simple Encode32 /
 *                         Decode32 / Decode32Fallback / Length
 *   scalar.split.reversed ReversedPutReversed_ / ReversedPutForward_ /
 *                         ReversedGet_ / GetLen_ / GetLenQuick_ / Length_ of
 *                         Split, SplitFull, SplitFullNoZero (+ the forward
 *                         length forms of SplitFull16)
 *   elias.single          varintBitWriter* / varintBitReader* on a private
 *                         buffer, varintEliasGamma|DeltaEncode / Decode / Bits
 *                         value by value, IsBeneficial
 *   delta.scalar          varintDeltaPut / Get, ZigZag / ZigZagDecode
 *   dimension.header      varintDimensionPack / Unpack / Unpack_ macro,
 *                         PairDimension / PairEncode / DEPAIR / BYTE_LENGTH
 *   dimension.matrix      a history of cell writes and reads on one private
 *                         matrix (unsigned width 1..8, float, double, bit:
 *                         set / clear / toggle), whole buffer in the trace
 *   packed12.positional   Insert / Delete / Set / SetHalf / SetIncr / Get at
 *                         positions (the sorted forms are in packed12)
 *   array.helpers         the remaining pure helpers of the array codecs on
 *                         a private encoding of a prefix of the input:
 *                         FORReadMetadata / GetMinValue / GetOffsetWidth /
 *                         DecodeBlock / ComputeWidth / HasSIMD, PFORReadMeta,
 *                         AdaptiveReadMeta / EncodingName / CheckSorted /
 *                         CountUnique / AvgDelta, BP128 block encode / decode
 *                         (+delta), MaxBitWidth / IsBeneficial / IsSorted,
 *                         DictCompressionRatio, FloatDecompose / Compose /
 *                         EncodeAuto, GroupGetFieldWidth, RLEDecodeRun /
 *                         IsBeneficial */

/* the header declares Put32/Get32, the .c file defines PutVarint32/GetVarint32:
 * resolve whichever exists */
varintWidth varintTaggedPut32(uint8_t *p, uint32_t v) __attribute__((weak));
varintWidth varintTaggedGet32(const uint8_t *z, uint32_t *r)
    __attribute__((weak));
varintWidth varintTaggedPutVarint32(uint8_t *p, uint32_t v)
    __attribute__((weak));
varintWidth varintTaggedGetVarint32(const uint8_t *z, uint32_t *r)
    __attribute__((weak));

#define SC_STEPS 64
#define SC_TRACE_MAX 8192 /* <= cap_for(0): fits every hot-loop output buffer */

typedef struct trace {
    uint8_t *b;
    size_t n, cap;
    int ovf; /* a harness sizing error, reported as a class by the main thread */
} trace;

static void t_raw(trace *t, const void *p, size_t k) {
    if (t->n + k > t->cap) {
        t->ovf = 1;
        return;
    }
    memcpy(t->b + t->n, p, k);
    t->n += k;
}
static void t_u8(trace *t, uint64_t v) {
    const uint8_t b = (uint8_t)v;
    t_raw(t, &b, 1);
}
static void t_u32(trace *t, uint64_t v) {
    const uint32_t b = (uint32_t)v;
    t_raw(t, &b, 4);
}
static void t_u64(trace *t, uint64_t v) {
    t_raw(t, &v, 8);
}

/* step selector: pool value i (wrapping) mixed with the op parameter */
static uint64_t sc_x(const pool_entry *p, size_t i, unsigned par) {
    uint64_t x = p->raw[i % p->n] + 0x9e3779b97f4a7c15ULL * (par + 1) + i;
    x ^= x >> 31;
    x *= 0xff51afd7ed558ccdULL;
    x ^= x >> 29;
    return x;
}

static uint64_t f32bits(float f) {
    uint32_t u;
    memcpy(&u, &f, 4);
    return u;
}
static uint64_t f64bits(double f) {
    uint64_t u;
    memcpy(&u, &f, 8);
    return u;
}

/* amount of one in-place add; `cur` is what the slot holds now */
static int64_t sc_amount(uint64_t x, uint64_t cur, const uint64_t *edges,
                         unsigned nedges) {
    switch ((x >> 4) & 7) {
    case 0:
        return (int64_t)(1 + ((x >> 8) & 0xff));
    case 1:
        return -(int64_t)(1 + ((x >> 8) & 0xff));
    case 2: {
        /* to a width boundary of the family -1 / 0 / +1 */
        const uint64_t target = edges[(x >> 8) % nedges] + (x >> 16) % 3 - 1;
        return (int64_t)(target - cur);
    }
    case 3:
        return (int64_t)x; /* any amount: int64 overflow is frequent */
    case 4:
        return (int64_t)(x >> 40);
    case 5:
        return -(int64_t)(x >> 40);
    case 6:
        /* back to a small value (the encoding shrinks) */
        return (int64_t)(((x >> 8) & 0x1ff) - cur);
    default:
        return (int64_t)(x >> (16 + ((x >> 8) & 31)));
    }
}

static void sc_tagged_add(const pool_entry *p, unsigned par, trace *t) {
    static const uint64_t edges[9] = {240ULL,
                                      2287ULL,
                                      67823ULL,
                                      (1ULL << 24) - 1,
                                      (1ULL << 32) - 1,
                                      (1ULL << 40) - 1,
                                      (1ULL << 48) - 1,
                                      (1ULL << 56) - 1,
                                      (uint64_t)INT64_MAX};
    uint8_t slot[16];
    memset(slot, 0xA5, sizeof(slot));
    const uint64_t v0 = p->raw[0] >> (8 * ((par >> 2) & 7));
    t_u8(t, varintTaggedPut64(slot, v0));
    t_raw(t, slot, 9);
    for (size_t i = 0; i < SC_STEPS; i++) {
        const uint64_t x = sc_x(p, i, par);
        uint64_t cur = 0;
        varintTaggedGet64(slot, &cur);
        const int64_t amount = sc_amount(x, cur, edges, 9);
        const int grow = (par & 2) ? (int)(x & 1) : (int)(par & 1);
        const varintWidth w = grow ? varintTaggedAddGrow(slot, amount)
                                   : varintTaggedAddNoGrow(slot, amount);
        t_u8(t, w);
        t_raw(t, slot, 9);
    }
    t_raw(t, slot, sizeof(slot));
}

static void sc_external_add(const pool_entry *p, unsigned par, trace *t) {
    static const uint64_t edges[8] = {0xffULL,
                                      0xffffULL,
                                      0xffffffULL,
                                      0xffffffffULL,
                                      (1ULL << 40) - 1,
                                      (1ULL << 48) - 1,
                                      (1ULL << 56) - 1,
                                      (uint64_t)INT64_MAX};
    uint8_t slot[16];
    memset(slot, 0xA5, sizeof(slot));
    const uint64_t v0 = p->raw[0] >> (8 * ((par >> 2) & 7));
    varintWidth w;
    varintExternalUnsignedEncoding(v0, w);
    /* the slot may be wider than the value needs */
    w = (varintWidth)(w + (par >> 5) % (9 - w));
    varintExternalPutFixedWidth(slot, v0, w);
    t_u8(t, w);
    t_raw(t, slot, 8);
    for (size_t i = 0; i < SC_STEPS; i++) {
        const uint64_t x = sc_x(p, i, par);
        const uint64_t cur = varintExternalGet(slot, w);
        const int64_t amount = sc_amount(x, cur, edges, 8);
        const int grow = (par & 2) ? (int)(x & 1) : (int)(par & 1);
        const varintWidth ret = grow ? varintExternalAddGrow(slot, w, amount)
                                     : varintExternalAddNoGrow(slot, w, amount);
        if (ret != VARINT_WIDTH_INVALID && (grow || ret <= w)) {
            w = ret; /* stored: the value now occupies `ret` bytes */
        }
        t_u8(t, ret);
        t_u8(t, w);
        t_raw(t, slot, 8);
    }
    t_raw(t, slot, sizeof(slot));
}

static int sc_tagged_width_legal(uint64_t v, unsigned w) {
    switch (w) {
    case 1:
        return v <= 240;
    case 2:
        return v >= 240 && v <= 2287;
    case 3:
        return v >= 2288 && v <= 67823;
    case 9:
        return 1;
    default:
        return w >= 4 && w <= 8 && (v >> (8 * (w - 1))) == 0;
    }
}

static void sc_fixed(const pool_entry *p, unsigned par, trace *t) {
    for (size_t i = 0; i < 24; i++) {
        const uint64_t x = sc_x(p, i, par);
        const uint64_t v = p->raw[i % p->n] >> (8 * ((x >> 3) & 7));
        uint8_t b[24], c[24];
        /* ---- tagged ---- */
        {
            const unsigned minimal = varintTaggedLen(v);
            unsigned w = minimal;
            for (unsigned k = 0; k < 9; k++) {
                const unsigned cand =
                    minimal + (unsigned)((x >> 8) + k) % (10 - minimal);
                if (sc_tagged_width_legal(v, cand)) {
                    w = cand;
                    break;
                }
            }
            memset(b, 0, sizeof(b));
            memset(c, 0, sizeof(c));
            t_u8(t, varintTaggedLenQuick(v));
            t_u8(t, varintTaggedPut64FixedWidth(b, v, (varintWidth)w));
            varintTaggedPut64FixedWidthQuick_(c, v, w);
            t_raw(t, b, 9);
            t_raw(t, c, 9);
            uint64_t r = 0;
            t_u8(t, varintTaggedGet(b, 9, &r));
            t_u64(t, r);
            r = 0;
            t_u8(t, varintTaggedGet(b, (int32_t)w, &r));
            t_u64(t, r);
            r = 0;
            t_u8(t, varintTaggedGet(b, (int32_t)w - 1, &r)); /* too short: 0 */
            t_u64(t, r);
            t_u64(t, varintTaggedGet64Quick_(b));
            t_u64(t, varintTaggedGet64ReturnValue(b));
            t_u8(t, varintTaggedGetLen(b));
            t_u8(t, varintTaggedGetLenQuick_(b));
            if (v <= 0xffffffffULL) {
                uint32_t r32 = 0;
                memset(c, 0, sizeof(c));
                if (varintTaggedPutVarint32 && varintTaggedGetVarint32) {
                    t_u8(t, varintTaggedPutVarint32(c, (uint32_t)v));
                    t_u8(t, varintTaggedGetVarint32(c, &r32));
                } else if (varintTaggedPut32 && varintTaggedGet32) {
                    t_u8(t, varintTaggedPut32(c, (uint32_t)v));
                    t_u8(t, varintTaggedGet32(c, &r32));
                }
                t_u32(t, r32);
                t_raw(t, c, 9);
            }
        }
        /* ---- external, little endian ---- */
        {
            varintWidth minimal;
            varintExternalUnsignedEncoding(v, minimal);
            const unsigned w = minimal + (unsigned)(x >> 12) % (9 - minimal);
            t_u8(t, minimal);
            if (v <= (uint64_t)INT64_MAX) {
                t_u8(t, varintExternalSignedEncoding((int64_t)v));
                t_u8(t, varintExternalLen(v));
            }
            memset(b, 0, sizeof(b));
            varintExternalPutFixedWidth(b, v, (varintWidth)w);
            t_raw(t, b, 8);
            memset(b, 0, sizeof(b));
            varintExternalPutFixedWidthQuick_(b, v, w);
            t_raw(t, b, 8);
            memset(b, 0, sizeof(b));
            varintExternalPutFixedWidthQuickMedium_(b, v, w);
            t_raw(t, b, 8);
            uint64_t r = 0;
            t_u64(t, varintExternalGet(b, (varintWidth)w));
            varintExternalGetQuick_(b, w, r);
            t_u64(t, r);
            r = 0;
            varintExternalGetQuickMedium_(b, w, r);
            t_u64(t, r);
            t_u64(t, varintExternalGetQuickMediumReturnValue_(b, w));
            /* 128-bit forms, widths 1..16 */
            const unsigned wb = 1 + (unsigned)(x >> 20) % 16;
            const __uint128_t big = ((__uint128_t)x << 64) | v;
            memset(c, 0, sizeof(c));
            varintExternalPutFixedWidthBig(c, big, (varintWidth)wb);
            t_raw(t, c, 16);
            const __uint128_t rb = varintBigExternalGet(c, (varintWidth)wb);
            t_u64(t, (uint64_t)rb);
            t_u64(t, (uint64_t)(rb >> 64));
        }
        /* ---- external, big endian ---- */
        {
            varintWidth minimal;
            varintExternalBigEndianUnsignedEncoding(v, minimal);
            const unsigned w = minimal + (unsigned)(x >> 28) % (9 - minimal);
            t_u8(t, minimal);
            memset(b, 0, sizeof(b));
            t_u8(t, varintExternalBigEndianPut(b, v));
            t_raw(t, b, 8);
            t_u64(t, varintExternalBigEndianGet(b, minimal));
            memset(b, 0, sizeof(b));
            varintExternalBigEndianPutFixedWidth(b, v, (varintWidth)w);
            t_raw(t, b, 8);
            memset(c, 0, sizeof(c));
            varintExternalBigEndianPutFixedWidthQuick_(c, v, w);
            t_raw(t, c, 8);
            uint64_t r = 0;
            t_u64(t, varintExternalBigEndianGet(b, (varintWidth)w));
            varintExternalBigEndianGetQuick_(c, w, r);
            t_u64(t, r);
        }
        /* ---- sign helpers of the external family (|value| < 2^(bits-1)) and
         * the size helpers of the headers ---- */
        {
            static const unsigned widths[4] = {3, 5, 6, 7};
            const unsigned w = widths[(x >> 36) & 3], bits = 8 * w;
            const uint64_t mag = v & ((1ULL << (bits - 1)) - 1);
            const int64_t sv = ((x >> 38) & 1) ? -(int64_t)mag : (int64_t)mag;
            uint64_t stored;
            int64_t back;
            memset(b, 0, sizeof(b));
            if (w == 3) {
                int32_t y = (int32_t)sv;
                varintPrepareSigned32to24_(y);
                stored = (uint64_t)(uint32_t)y & 0xffffffULL;
                varintExternalPutFixedWidth(b, stored, (varintWidth)w);
                int32_t r = (int32_t)varintExternalGet(b, (varintWidth)w);
                varintRestoreSigned24to32_(r);
                back = r;
            } else {
                int64_t y = sv;
                if (w == 5) {
                    varintPrepareSigned64to40_(y);
                } else if (w == 6) {
                    varintPrepareSigned64to48_(y);
                } else {
                    varintPrepareSigned64to56_(y);
                }
                stored = (uint64_t)y & ((1ULL << bits) - 1);
                varintExternalPutFixedWidth(b, stored, (varintWidth)w);
                int64_t r = (int64_t)varintExternalGet(b, (varintWidth)w);
                if (w == 5) {
                    varintRestoreSigned40to64_(r);
                } else if (w == 6) {
                    varintRestoreSigned48to64_(r);
                } else {
                    varintRestoreSigned56to64_(r);
                }
                back = r;
            }
            t_u64(t, stored);
            t_u64(t, (uint64_t)back);
            t_u32(t, varintDeltaMaxEncodedSize((size_t)(x & 0xfff)));
            t_u32(t, varintEliasGammaMaxBytes((size_t)(x & 0xfff)));
            t_u32(t, varintEliasDeltaMaxBytes((size_t)(x & 0xfff)));
        }
    }
}

static void sc_chained32(const pool_entry *p, unsigned par, trace *t) {
    for (size_t i = 0; i < 48; i++) {
        const uint64_t x = sc_x(p, i, par);
        const uint64_t v = p->raw[i % p->n];
        const uint32_t v32 = (uint32_t)v >> (7 * ((x >> 3) % 5));
        uint8_t b[16];
        uint32_t r32 = 0;
        uint64_t r = 0;
        memset(b, 0, sizeof(b));
        t_u8(t, varintChained_putVarint32(b, v32));
        t_raw(t, b, 9);
        t_u8(t, varintChainedVarintLen(v32));
        t_u8(t, varintChained_getVarint32(b, r32));
        t_u32(t, r32);
        if (b[0] & 0x80) {
            /* documented: the function is for multi-byte encodings, the
             * one-byte case belongs to the macro */
            r32 = 0;
            t_u8(t, varintChainedGetVarint32(b, &r32));
            t_u32(t, r32);
        }
        t_u8(t, varintChainedGetVarint(b, &r));
        t_u64(t, r);
        t_u8(t, varintChainedVarintLen(v));
        /* chained simple */
        memset(b, 0, sizeof(b));
        t_u8(t, varintChainedSimpleEncode32(b, v32));
        t_raw(t, b, 9);
        t_u8(t, varintChainedSimpleLength(v32));
        t_u8(t, varintChainedSimpleLength(v));
        r32 = 0;
        t_u8(t, varintChainedSimpleDecode32(b, &r32));
        t_u32(t, r32);
        r32 = 0;
        t_u8(t, varintChainedSimpleDecode32Fallback(b, &r32));
        t_u32(t, r32);
        r = 0;
        t_u8(t, varintChainedSimpleDecode64(b, &r));
        t_u64(t, r);
    }
}

#define SC_SPLIT_REVERSED(PFX, t, v)                                           \
    do {                                                                       \
        uint8_t b_[32];                                                        \
        unsigned len_ = 0, gl_ = 0;                                            \
        uint64_t r_ = 0;                                                       \
        uint8_t *last_ = b_ + 12;                                              \
        memset(b_, 0, sizeof(b_));                                             \
        PFX##ReversedPutReversed_(last_, len_, (v));                           \
        t_u8((t), len_);                                                       \
        t_raw((t), b_, 16);                                                    \
        PFX##GetLen_(last_, gl_);                                              \
        t_u8((t), gl_);                                                        \
        t_u8((t), PFX##GetLenQuick_(last_));                                   \
        gl_ = 0;                                                               \
        PFX##ReversedGet_(last_, gl_, r_);                                     \
        t_u8((t), gl_);                                                        \
        t_u64((t), r_);                                                        \
        memset(b_, 0, sizeof(b_));                                             \
        len_ = 0;                                                              \
        PFX##ReversedPutForward_(b_, len_, (v));                               \
        t_u8((t), len_);                                                       \
        t_raw((t), b_, 16);                                                    \
        if (len_ >= 1 && len_ <= 9) {                                          \
            last_ = b_ + (len_ - 1);                                           \
            gl_ = 0;                                                           \
            r_ = 0;                                                            \
            PFX##ReversedGet_(last_, gl_, r_);                                 \
            t_u8((t), gl_);                                                    \
            t_u64((t), r_);                                                    \
        }                                                                      \
        gl_ = 0;                                                               \
        PFX##Length_(gl_, (v));                                                \
        t_u8((t), gl_);                                                        \
    } while (0)

static void sc_split_reversed(const pool_entry *p, unsigned par, trace *t) {
    for (size_t i = 0; i < 24; i++) {
        const uint64_t x = sc_x(p, i, par);
        const uint64_t v = p->raw[i % p->n] >> (8 * ((x >> 3) & 7));
        const uint64_t vnz = v ? v : 1;
        SC_SPLIT_REVERSED(varintSplit, t, v);
        SC_SPLIT_REVERSED(varintSplitFull, t, v);
        SC_SPLIT_REVERSED(varintSplitFullNoZero, t, vnz);
        {
            /* SplitFull16 has forward forms only: length predictors */
            uint8_t b[16];
            unsigned len = 0, gl = 0;
            memset(b, 0, sizeof(b));
            varintSplitFull16Put_(b, len, v);
            t_u8(t, len);
            varintSplitFull16Length_(gl, v);
            t_u8(t, gl);
            gl = 0;
            varintSplitFull16GetLen_(b, gl);
            t_u8(t, gl);
            t_u8(t, varintSplitFull16GetLenQuick_(b));
        }
    }
}

static void sc_elias_single(const pool_entry *p, unsigned par, trace *t) {
    enum { K = 24 };
    /* worst case 127 bits (gamma) per value */
    uint8_t buf[K * 16 + 16];
    const int delta = par & 1;
    varintBitWriter w;
    varintBitWriterInit(&w, buf, sizeof(buf));
    uint64_t vals[K];
    for (size_t i = 0; i < K; i++) {
        const uint64_t x = sc_x(p, i, par);
        uint64_t v = p->ge1[i % p->n] >> ((x >> 3) & 63);
        vals[i] = v ? v : 1;
        const size_t bits = delta ? varintEliasDeltaEncode(&w, vals[i])
                                  : varintEliasGammaEncode(&w, vals[i]);
        t_u8(t, bits);
        t_u8(t, delta ? varintEliasDeltaBits(vals[i])
                      : varintEliasGammaBits(vals[i]));
        t_u32(t, w.bitPos);
    }
    const size_t bytes = varintBitWriterBytes(&w);
    t_u32(t, bytes);
    t_raw(t, buf, bytes <= sizeof(buf) ? bytes : sizeof(buf));
    varintBitReader r;
    varintBitReaderInit(&r, buf, w.bitPos);
    for (size_t i = 0; i < K; i++) {
        t_u8(t, varintBitReaderHasMore(&r, 1));
        t_u64(t, delta ? varintEliasDeltaDecode(&r) : varintEliasGammaDecode(&r));
        t_u32(t, r.bitPos);
    }
    t_u8(t, varintBitReaderHasMore(&r, 1));
    t_u8(t, varintEliasGammaIsBeneficial(vals, K));
    t_u8(t, varintEliasDeltaIsBeneficial(vals, K));
    t_u8(t, varintEliasGammaIsBeneficial(p->ge1, p->n < 256 ? p->n : 256));
    t_u8(t, varintEliasDeltaIsBeneficial(p->ge1, p->n < 256 ? p->n : 256));
    /* raw bit fields of 1..64 bits through the same writer / reader */
    uint8_t raw[K * 8 + 8];
    uint8_t nb[K];
    varintBitWriterInit(&w, raw, sizeof(raw));
    for (size_t i = 0; i < K; i++) {
        const uint64_t x = sc_x(p, i + K, par);
        nb[i] = (uint8_t)(1 + (x >> 5) % 64);
        uint64_t v = x ^ p->raw[i % p->n];
        if (nb[i] < 64) {
            v &= (1ULL << nb[i]) - 1;
        }
        varintBitWriterWrite(&w, v, nb[i]);
    }
    t_u32(t, w.bitPos);
    t_raw(t, raw, varintBitWriterBytes(&w));
    varintBitReaderInit(&r, raw, w.bitPos);
    for (size_t i = 0; i < K; i++) {
        if (varintBitReaderHasMore(&r, nb[i])) {
            t_u64(t, varintBitReaderRead(&r, nb[i]));
        }
    }
    t_u8(t, varintBitReaderHasMore(&r, 1));
}

static void sc_delta_scalar(const pool_entry *p, unsigned par, trace *t) {
    for (size_t i = 0; i < 48; i++) {
        const uint64_t x = sc_x(p, i, par);
        int64_t d;
        switch (x & 3) {
        case 0:
            d = p->sd[i % p->n];
            break;
        case 1:
            d = (int64_t)x; /* any 64-bit pattern, INT64_MIN included */
            break;
        case 2:
            d = -(int64_t)(p->raw[i % p->n] >> (1 + ((x >> 3) & 63) % 63));
            break;
        default:
            d = (int64_t)(p->raw[i % p->n] >> (1 + ((x >> 3) & 63) % 63));
            break;
        }
        uint8_t b[16];
        memset(b, 0, sizeof(b));
        const uint64_t zz = varintDeltaZigZag(d);
        t_u64(t, zz);
        t_u64(t, (uint64_t)varintDeltaZigZagDecode(zz));
        t_u8(t, varintDeltaPut(b, d));
        t_raw(t, b, 9);
        int64_t r = 0;
        t_u8(t, varintDeltaGet(b, &r));
        t_u64(t, (uint64_t)r);
    }
}

static void sc_dim_header(const pool_entry *p, unsigned par, trace *t) {
    for (size_t i = 0; i < 24; i++) {
        const uint64_t x = sc_x(p, i, par);
        /* packed pairs: mostly below 2^32 (supported), some above */
        const unsigned s1 = (x & 7) ? 32 + (unsigned)(x >> 3) % 32 : 20;
        const unsigned s2 = ((x >> 8) & 7) ? 32 + (unsigned)(x >> 11) % 32 : 24;
        const size_t row = (size_t)(p->raw[(2 * i) % p->n] >> s1);
        const size_t col = (size_t)(sc_x(p, i + 100, par) >> s2);
        uint64_t packed = 0;
        varintDimensionPacked dim = (varintDimensionPacked)0;
        const bool ok = varintDimensionPack(row, col, &packed, &dim);
        t_u8(t, ok);
        if (ok) {
            t_u64(t, packed);
            t_u8(t, dim);
            size_t r2 = 0, c2 = 0;
            varintDimensionUnpack(&r2, &c2, packed, dim);
            t_u64(t, r2);
            t_u64(t, c2);
            uint64_t r3 = 0, c3 = 0;
            varintDimensionUnpack_(r3, c3, packed, dim);
            t_u64(t, r3);
            t_u64(t, c3);
        }
        /* pair header: row width 0..8 (0 = vector), column width 1..8 */
        const unsigned rw = (unsigned)(x >> 20) % 9, cw = 1 + (unsigned)(x >> 24) % 8;
        const uint64_t rows =
            rw == 0 ? 0 : (p->raw[i % p->n] | 1) >> (64 - 8 * rw);
        uint64_t cols = (sc_x(p, i + 200, par) | 1) >> (64 - 8 * cw);
        cols = cols ? cols : 1;
        uint8_t hdr[24];
        memset(hdr, 0, sizeof(hdr));
        const varintDimensionPair pd =
            varintDimensionPairDimension((size_t)rows, (size_t)cols);
        const varintDimensionPair pe =
            varintDimensionPairEncode(hdr, (size_t)rows, (size_t)cols);
        t_u8(t, pd);
        t_u8(t, pe);
        unsigned a = 0, b = 0;
        VARINT_DIMENSION_PAIR_DEPAIR(a, b, pe);
        t_u8(t, a);
        t_u8(t, b);
        t_u8(t, VARINT_DIMENSION_PAIR_BYTE_LENGTH(pe));
        t_raw(t, hdr, 16);
    }
}

static void sc_dim_matrix(const pool_entry *p, unsigned par, trace *t) {
    const uint64_t x0 = sc_x(p, 0, par);
    const unsigned kind = par & 3; /* unsigned / float / double / bit */
    const unsigned width = 1 + (par >> 2) % 8;
    const int vector = ((x0 >> 16) & 3) == 0;
    const size_t R = vector ? 1 : 1 + (size_t)(x0 % 5);
    const size_t C = 1 + (size_t)((x0 >> 8) % 13);
    /* header (<= 2 bytes here) + 5 * 13 cells of <= 8 bytes + slack */
    uint8_t buf[16 + 5 * 13 * 8 + 16];
    memset(buf, 0, sizeof(buf));
    const varintDimensionPair dim =
        varintDimensionPairEncode(buf, vector ? 0 : R, C);
    t_u8(t, dim);
    for (size_t i = 0; i < 48; i++) {
        const uint64_t x = sc_x(p, i + 1, par);
        const size_t r = (size_t)(x % R), c = (size_t)((x >> 8) % C);
        const size_t r2 = (size_t)((x >> 16) % R), c2 = (size_t)((x >> 24) % C);
        const uint64_t val = p->raw[i % p->n] ^ (x >> 32);
        switch (kind) {
        case 0: {
            const uint64_t m =
                width >= 8 ? val : val & ((1ULL << (8 * width)) - 1);
            varintDimensionPairEntrySetUnsigned(buf, r, c, m, (varintWidth)width,
                                                dim);
            t_u64(t, varintDimensionPairEntryGetUnsigned(
                         buf, r, c, (varintWidth)width, dim));
            t_u64(t, varintDimensionPairEntryGetUnsigned(
                         buf, r2, c2, (varintWidth)width, dim));
            break;
        }
        case 1: {
            const float f = (float)(int32_t)(val >> 32) / 7.0f;
            varintDimensionPairEntrySetFloat(buf, r, c, f, dim);
            t_u32(t, f32bits(varintDimensionPairEntryGetFloat(buf, r, c, dim)));
            t_u32(t, f32bits(varintDimensionPairEntryGetFloat(buf, r2, c2, dim)));
            break;
        }
        case 2: {
            const double f = (double)(int64_t)val / 1025.0;
            varintDimensionPairEntrySetDouble(buf, r, c, f, dim);
            t_u64(t, f64bits(varintDimensionPairEntryGetDouble(buf, r, c, dim)));
            t_u64(t,
                  f64bits(varintDimensionPairEntryGetDouble(buf, r2, c2, dim)));
            break;
        }
        default:
            switch ((x >> 40) % 3) {
            case 0:
                varintDimensionPairEntrySetBit(buf, r, c, true, dim);
                break;
            case 1:
                varintDimensionPairEntrySetBit(buf, r, c, false, dim);
                break;
            default:
                t_u8(t, varintDimensionPairEntryToggleBit(buf, r, c, dim));
                break;
            }
            t_u8(t, varintDimensionPairEntryGetBit(buf, r, c, dim));
            t_u8(t, varintDimensionPairEntryGetBit(buf, r2, c2, dim));
            break;
        }
    }
    t_raw(t, buf, sizeof(buf));
}

static void sc_packed_pos(const pool_entry *p, unsigned par, trace *t) {
    uint32_t holder[64]; /* 2048 bits = 170 elements of 12 bits */
    memset(holder, 0, sizeof(holder));
    uint32_t len = 0;
    for (size_t i = 0; i < 96; i++) {
        const uint64_t x = sc_x(p, i, par);
        const uint16_t val = (uint16_t)((x >> 20) & 0xfff);
        switch ((x >> 8) % 7) {
        case 0:
        case 1:
            if (len < PK_CAP) {
                c17Packed12Insert(holder, len, (uint32_t)(x >> 40) % (len + 1),
                                  val);
                len++;
            }
            break;
        case 2:
            if (len > 0) {
                c17Packed12Delete(holder, len, (uint32_t)(x >> 40) % len);
                len--;
            }
            break;
        case 3:
            if (len > 0) {
                c17Packed12Set(holder, (uint32_t)(x >> 40) % len, val);
            }
            break;
        case 4:
            if (len > 0) {
                c17Packed12SetHalf(holder, (uint32_t)(x >> 40) % len);
            }
            break;
        case 5:
            if (len > 0) {
                /* documented use: a non-negative increment that stays in
                 * range */
                const uint32_t at = (uint32_t)(x >> 40) % len;
                const uint16_t cur = c17Packed12Get(holder, at);
                c17Packed12SetIncr(holder, at, (int64_t)(val % (0x1000u - cur)));
            }
            break;
        default:
            if (len > 0) {
                t_u32(t, c17Packed12Get(holder, (uint32_t)(x >> 40) % len));
            }
            break;
        }
        t_u8(t, len);
    }
    for (uint32_t i = 0; i < len; i++) {
        const uint16_t e = c17Packed12Get(holder, i);
        t_raw(t, &e, 2);
    }
    t_raw(t, holder, sizeof(holder));
}

static void sc_helpers(const pool_entry *p, unsigned par, trace *t) {
    const size_t n = p->n < 160 ? p->n : 160;
    uint8_t dst[160 * 27 + 8400];
    uint64_t out[160];
    memset(dst, 0, 64);
    /* FOR */
    {
        varintFORMeta m, rm;
        memset(&m, 0, sizeof(m));
        memset(&rm, 0, sizeof(rm));
        const size_t len = varintFOREncode(dst, p->raw, n, &m);
        t_u32(t, len);
        varintFORReadMetadata(dst, &rm);
        t_u64(t, rm.minValue);
        t_u64(t, rm.count);
        t_u8(t, rm.offsetWidth);
        t_u64(t, varintFORGetMinValue(dst));
        t_u8(t, varintFORGetOffsetWidth(dst));
        t_u8(t, varintFORComputeWidth(m.range));
        t_u8(t, varintFORComputeWidth(p->raw[par % p->n]));
        t_u8(t, varintFORHasSIMD());
        const size_t start = par % n, block = 1 + (par >> 3) % 16;
        memset(out, 0, sizeof(out));
        const size_t got = varintFORDecodeBlock(dst, out, start, block);
        t_u32(t, got);
        t_raw(t, out, (got <= 160 ? got : 160) * 8);
    }
    /* PFOR */
    {
        varintPFORMeta m, rm;
        const size_t len = enc_pfor(dst, p->raw, n, par, &m, NULL);
        t_u32(t, len);
        if (len) {
            memset(&rm, 0, sizeof(rm));
            t_u8(t, varintPFORReadMeta(dst, &rm));
            t_u64(t, rm.min);
            t_u8(t, rm.width);
            t_u32(t, rm.count);
            t_u32(t, rm.exceptionCount);
            t_u64(t, rm.exceptionMarker);
        }
    }
    /* adaptive */
    {
        varintAdaptiveMeta m, rm;
        memset(&m, 0, sizeof(m));
        const size_t len =
            (par & 1) ? varintAdaptiveEncode(dst, p->raw, n, &m)
                      : varintAdaptiveEncodeWith(
                            dst, p->raw, n,
                            (par & 2) ? VARINT_ADAPTIVE_PFOR : VARINT_ADAPTIVE_FOR,
                            &m);
        t_u32(t, len);
        if (len) {
            memset(&rm, 0, sizeof(rm));
            t_u8(t, varintAdaptiveReadMeta(dst, &rm));
            t_u8(t, rm.encodingType);
            t_u64(t, rm.originalCount);
            t_u64(t, rm.encodedSize);
            const char *name = varintAdaptiveEncodingName(rm.encodingType);
            t_raw(t, name, strlen(name));
        }
        t_u32(t, (uint32_t)varintAdaptiveCheckSorted(p->raw, n));
        t_u32(t, (uint32_t)varintAdaptiveCheckSorted(p->sorted, n));
        t_u64(t, varintAdaptiveCountUnique(p->raw, n));
        t_u64(t, varintAdaptiveAvgDelta(p->raw, n));
    }
    /* BP128 */
    {
        t_u8(t, varintBP128MaxBitWidth32(p->u32, n));
        t_u8(t, varintBP128MaxBitWidth64(p->raw, n));
        t_u8(t, varintBP128IsBeneficial32(p->u32, n));
        t_u8(t, varintBP128IsBeneficial64(p->raw, n));
        t_u8(t, varintBP128IsSorted32(p->s32, n));
        t_u8(t, varintBP128IsSorted32(p->u32, n));
        t_u8(t, varintBP128IsSorted64(p->sorted, n));
        t_u8(t, varintBP128IsSorted64(p->raw, n));
        if (p->n >= 128) {
            uint32_t o32[128];
            memset(o32, 0, sizeof(o32));
            size_t len = varintBP128EncodeBlock32(dst, p->u32);
            t_u32(t, len);
            t_raw(t, dst, len);
            t_u32(t, varintBP128DecodeBlock32(dst, o32));
            t_raw(t, o32, sizeof(o32));
            const uint32_t prev = p->s32[0] >> (par & 1);
            len = varintBP128DeltaEncodeBlock32(dst, p->s32, prev);
            t_u32(t, len);
            t_raw(t, dst, len);
            t_u32(t, varintBP128DeltaDecodeBlock32(dst, o32, prev));
            t_raw(t, o32, sizeof(o32));
        }
    }
    /* dictionary, float, group, RLE */
    {
        t_u32(t, f32bits(varintDictCompressionRatio(p->raw, n)));
        for (size_t i = 0; i < 8 && i < n; i++) {
            uint64_t sign = 0, mant = 0;
            int16_t ex = 0;
            const bool normal = varintFloatDecompose(p->dbl[i], &sign, &ex, &mant);
            t_u8(t, normal);
            t_u64(t, sign);
            t_u32(t, (uint16_t)ex);
            t_u64(t, mant);
            t_u64(t, f64bits(varintFloatCompose(sign, ex, mant)));
        }
        static const double tol[4] = {1e-9, 1e-5, 1e-2, 0.5};
        varintFloatPrecision prec = (varintFloatPrecision)0;
        const size_t len =
            varintFloatEncodeAuto(dst, p->dbl, n, tol[par & 3],
                                  (varintFloatEncodingMode)((par >> 2) % 3), &prec);
        t_u32(t, len);
        t_u8(t, prec);
        t_u64(t, HB(0, dst, len));
    }
    {
        const uint8_t k = (uint8_t)(n > 64 ? 64 : n);
        const size_t len = varintGroupEncode(dst, p->raw, k);
        t_u32(t, len);
        for (unsigned i = 0; i < 4; i++) {
            t_u8(t, varintGroupGetFieldWidth(dst, (uint8_t)((par + i * 17) % (k + 1u))));
        }
    }
    {
        const size_t len = varintRLEEncode(dst, p->raw, n, NULL);
        t_u32(t, len);
        size_t run = 0;
        uint64_t val = 0;
        t_u8(t, varintRLEDecodeRun(dst, &run, &val));
        t_u64(t, run);
        t_u64(t, val);
        t_u8(t, varintRLEIsBeneficial(p->raw, n));
    }
}

/* runs scalar kind `sk` (0 .. SC_COUNT-1) into the trace buffer; returns the
 * trace length */
static size_t sc_run(unsigned sk, unsigned par, const pool_entry *p, uint8_t *buf,
                     size_t cap, int *ovf) {
    trace t = {buf, 0, cap, 0};
    switch (O_SC_FIRST + sk) {
    case O_TAGGED_ADD:
        sc_tagged_add(p, par, &t);
        break;
    case O_EXTERNAL_ADD:
        sc_external_add(p, par, &t);
        break;
    case O_FIXED:
        sc_fixed(p, par, &t);
        break;
    case O_CHAINED32:
        sc_chained32(p, par, &t);
        break;
    case O_SPLIT_REV:
        sc_split_reversed(p, par, &t);
        break;
    case O_ELIAS_SINGLE:
        sc_elias_single(p, par, &t);
        break;
    case O_DELTA_SCALAR:
        sc_delta_scalar(p, par, &t);
        break;
    case O_DIM_HEADER:
        sc_dim_header(p, par, &t);
        break;
    case O_DIM_MATRIX:
        sc_dim_matrix(p, par, &t);
        break;
    case O_PACKED_POS:
        sc_packed_pos(p, par, &t);
        break;
    default:
        sc_helpers(p, par, &t);
        break;
    }
    if (ovf) {
        *ovf = t.ovf;
    }
    return t.n;
}

/* trace did not fit: set by any thread, turned into a class by the main
 * thread (never happens with the sizes above; a silent truncation would only
 * weaken the comparison, not falsify it) */
static atomic_int g_trace_ovf;

static uint64_t op_sc(const pool_entry *p, unsigned codec, unsigned par) {
    uint8_t buf[SC_TRACE_MAX];
    int ovf = 0;
    const size_t n = sc_run(codec - O_SC_FIRST, par, p, buf, sizeof(buf), &ovf);
    if (ovf) {
        atomic_store_explicit(&g_trace_ovf, 1, memory_order_relaxed);
    }
    return HB(vf_mix(codec, n), buf, n);
}

static uint64_t op_run_on(const shared *S, const pool_entry *p, unsigned codec,
                          unsigned par) {
    switch (codec) {
    case O_TAGGED:
    case O_EXTERNAL:
    case O_CHAINED:
    case O_SPLIT:
        return op_scalar(p, codec, par);
    case O_DELTA_U:
        return op_delta(p, 0);
    case O_DELTA_S:
        return op_delta(p, 1);
    case O_FOR:
        return op_for(p, 0, par);
    case O_FOR_BATCH:
        return op_for(p, 1, par);
    case O_PFOR:
        return op_pfor(p, par);
    case O_GROUP:
        return op_group(p, par);
    case O_DICT:
        return op_dict(S, p, 0, par);
    case O_DICT_SHARED:
        return op_dict(S, p, 1, par);
    case O_RLE:
        return op_rle(p, par);
    case O_ELIAS:
        return op_elias(p, par);
    case O_BP128_32:
        return op_bp128(p, 0, par);
    case O_BP128_64:
        return op_bp128(p, 1, par);
    case O_FLOAT:
        return op_float(p, par);
    case O_ADAPT_AUTO:
        return op_adaptive(p, 0, par);
    case O_ADAPT_FORCED:
        return op_adaptive(p, 1, par);
    case O_DECODE_SHARED:
        return op_decode_shared(p, par);
    case O_PACKED:
        return op_packed(p, par);
    case O_BITSTREAM:
        return op_bitstream(p, par);
    default:
        return op_sc(p, codec, par);
    }
}

static uint64_t op_run(const shared *S, unsigned codec, unsigned input) {
    return op_run_on(S, &S->p[input % NPOOL], codec, input / NPOOL);
}

/* -------------------------------------------------------------- pool setup */
static void pool_build(pool_entry *p, const uint64_t *src, size_t n) {
    memset(p, 0, sizeof(*p));
    p->n = n;
    p->raw = (uint64_t *)xmalloc(n * 8);
    p->ge1 = (uint64_t *)xmalloc(n * 8);
    p->sorted = (uint64_t *)xmalloc(n * 8);
    p->sd = (int64_t *)xmalloc(n * 8);
    p->u32 = (uint32_t *)xmalloc(n * 4);
    p->s32 = (uint32_t *)xmalloc(n * 4);
    p->dbl = (double *)xmalloc(n * 8);
    for (size_t i = 0; i < n; i++) {
        uint64_t v = src[i];
        p->raw[i] = v;
        p->ge1[i] = v ? v : 1;
        p->sorted[i] = v;
        int64_t s = (int64_t)v;
        if (s > (int64_t)(1ULL << 62) || s < -(int64_t)(1ULL << 62)) {
            s >>= 2;
        }
        p->sd[i] = s;
        p->u32[i] = (uint32_t)v;
        p->s32[i] = (uint32_t)v;
        /* doubles: a window of exponents, both signs, some specials */
        uint64_t u;
        switch (v % 11) {
        case 0:
            u = 0;
            break;
        case 1:
            u = 0x7ffULL << 52;
            break;
        case 2:
            u = v >> 13; /* denormal */
            break;
        default:
            u = ((v >> 63) << 63) |
                ((uint64_t)(0x3ffu - 30u + (unsigned)((v >> 5) % 60)) << 52) |
                ((v * 0x9e3779b97f4a7c15ULL) & 0xfffffffffffffULL);
            break;
        }
        memcpy(&p->dbl[i], &u, 8);
    }
    qsort(p->sorted, n, 8, cmp_u64);
    qsort(p->s32, n, 4, cmp_u32);
}

/* shared pre-encoded buffers (the first library calls of the main thread) */
static void pool_encode(pool_entry *p) {
    const size_t n = p->n;
    for (unsigned e = 0; e < E_COUNT; e++) {
        p->enc[e] = (uint8_t *)xzalloc(cap_for(n));
    }
    p->enclen[E_FOR] = enc_for(p->enc[E_FOR], p->raw, n, 0, NULL);
    p->enclen[E_PFOR] = enc_pfor(p->enc[E_PFOR], p->raw, n, 0, &p->pforMeta, NULL);
    p->enclen[E_DICT] = varintDictEncode(p->enc[E_DICT], p->raw, n);
    p->enclen[E_RLE] = varintRLEEncode(p->enc[E_RLE], p->raw, n, NULL);
    p->enclen[E_RLEH] = varintRLEEncodeWithHeader(p->enc[E_RLEH], p->raw, n, NULL);
    {
        varintEliasMeta m;
        memset(&m, 0, sizeof(m));
        p->enclen[E_ELIAS_G] =
            varintEliasGammaEncodeArray(p->enc[E_ELIAS_G], p->ge1, n, &m);
        p->encbits[E_ELIAS_G] = m.totalBits <= p->enclen[E_ELIAS_G] * 8
                                    ? m.totalBits
                                    : p->enclen[E_ELIAS_G] * 8;
        memset(&m, 0, sizeof(m));
        p->enclen[E_ELIAS_D] =
            varintEliasDeltaEncodeArray(p->enc[E_ELIAS_D], p->ge1, n, &m);
        p->encbits[E_ELIAS_D] = m.totalBits <= p->enclen[E_ELIAS_D] * 8
                                    ? m.totalBits
                                    : p->enclen[E_ELIAS_D] * 8;
    }
    p->enclen[E_BP64] = varintBP128Encode64(p->enc[E_BP64], p->raw, n, NULL);
    p->enclen[E_BPD64] =
        varintBP128DeltaEncode64(p->enc[E_BPD64], p->sorted, n, NULL);
    p->enclen[E_BP32] = varintBP128Encode32(p->enc[E_BP32], p->u32, n, NULL);
    p->enclen[E_FLOAT] =
        varintFloatEncode(p->enc[E_FLOAT], p->dbl, n, VARINT_FLOAT_PRECISION_HIGH,
                          VARINT_FLOAT_MODE_DELTA_EXPONENT);
    p->enclen[E_ADAPTIVE] =
        varintAdaptiveEncode(p->enc[E_ADAPTIVE], p->raw, n, NULL);
    p->enclen[E_DELTA] = varintDeltaEncodeUnsigned(p->enc[E_DELTA], p->raw, n);
    p->enclen[E_GROUP] =
        varintGroupEncode(p->enc[E_GROUP], p->raw, (uint8_t)(n > 64 ? 64 : n));
}

static void pool_free(pool_entry *p) {
    free(p->raw);
    free(p->ge1);
    free(p->sorted);
    free(p->sd);
    free(p->u32);
    free(p->s32);
    free(p->dbl);
    for (unsigned e = 0; e < E_COUNT; e++) {
        free(p->enc[e]);
    }
}


/* a deep copy of the inputs of `src` (thread-private variant of the hot loop);
 * pre-encoded buffers are copied only when the hot kind decodes */
static void pool_clone(pool_entry *c, const pool_entry *src, int with_enc) {
    const size_t n = src->n;
    *c = *src;
#define DUP(field, sz)                                                         \
    c->field = xmalloc((sz));                                                  \
    memcpy(c->field, src->field, (sz))
    DUP(raw, n * 8);
    DUP(ge1, n * 8);
    DUP(sorted, n * 8);
    DUP(sd, n * 8);
    DUP(u32, n * 4);
    DUP(s32, n * 4);
    DUP(dbl, n * 8);
#undef DUP
    for (unsigned e = 0; e < E_COUNT; e++) {
        c->enc[e] = NULL;
        if (with_enc && src->enc[e]) {
            /* the shared buffers have zeroed slack behind the encoding; keep
             * some so that both variants see the same bytes there */
            c->enc[e] = (uint8_t *)xzalloc(src->enclen[e] + 64);
            memcpy(c->enc[e], src->enc[e], src->enclen[e]);
        }
    }
}

/* ---------------------------------------------------------------- hot loop
 * lean entry points: one library call (plus its size/analysis companion),
 * results kept as (returned value, metadata words, output bytes) so that each
 * iteration can be compared field by field */
enum hot_kind {
    H_FOR_ENC = 0,
    H_FOR_ANALYZE,
    H_PFOR_ENC,
    H_PFOR_THRESHOLD,
    H_DICT_ENC,
    H_DICT_SIZE,
    H_RLE_ENC,
    H_RLE_ANALYZE,
    H_ELIAS_ENC,
    H_BP128_ENC,
    H_FLOAT_ENC,
    H_ADAPT_AUTO,
    H_ADAPT_FORCED,
    H_ADAPT_ANALYZE,
    H_DELTA_ENC,
    H_GROUP_ENC,
    H_DECODE,
    H_SC_FIRST, /* one kind per scalar operation (sc_run), trace compared */
    H_COUNT = H_SC_FIRST + (O_COUNT - O_TAGGED_ADD)
};

static const char *const hot_name[H_SC_FIRST] = {
    "for.encode",     "for.analyze",      "pfor.encode",  "pfor.threshold",
    "dict.encode",    "dict.size",        "rle.encode",   "rle.analyze",
    "elias.encode",   "bp128.encode",     "float.encode", "adaptive.encode",
    "adaptive.forced", "adaptive.analyze", "delta.encode", "group.encode",
    "decode"};

/* names of the metadata words, in the order hot_call() stores them */
static const char *const hot_meta[H_SC_FIRST] = {
    "minValue,maxValue,range,count,encodedSize,offsetWidth",
    "minValue,maxValue,range,count,encodedSize,offsetWidth",
    "min,exceptionMarker,thresholdValue,width,count,exceptionCount,threshold",
    "returnedWidth,min,exceptionMarker,thresholdValue,width,count,"
    "exceptionCount,threshold",
    "",
    "statsOk,uniqueCount,totalCount,dictBytes,indexBytes,totalBytes",
    "count,runCount,encodedSize",
    "beneficial,count,runCount,encodedSize,uniqueValues",
    "count,totalBits,encodedBytes",
    "count,blockCount,encodedBytes,lastBlockSize,maxBitWidth",
    "",
    "originalCount,encodedSize,encodingType",
    "originalCount,encodedSize,encodingType",
    "count,minValue,maxValue,range,uniqueCount,avgDelta,maxDelta,outlierCount,"
    "uniqueRatio,outlierRatio,isSorted,isReverseSorted,fitsInBitmapRange,"
    "selectedEncoding",
    "",
    "groupSize",
    "aux0,aux1,aux2"};

/* rough relative cost per element, used only to size the iteration count */
static const uint8_t hot_weight[H_SC_FIRST] = {1, 1, 16, 12, 16, 12, 2, 2, 6,
                                            1, 8, 16, 8,  12, 2,  1, 3};

static const char *hot_lean_name(unsigned kind) {
    return kind < H_SC_FIRST ? hot_name[kind]
                             : op_name[O_SC_FIRST + (kind - H_SC_FIRST)];
}
static const char *hot_lean_meta(unsigned kind) {
    return kind < H_SC_FIRST ? hot_meta[kind] : "";
}
/* cost of one trace in units of 64 elements of a FOR encode; measured 9 11 18
 * 14 10 100 7 7 7 14 440, the scalar kinds deliberately get ~3x their share
 * (their windows are a few instructions wide: volume matters) */
static const uint8_t sc_weight[O_COUNT - O_TAGGED_ADD] = {3, 3, 6, 5,  4,  40,
                                                          3, 3, 3, 5, 200};

#define HOT_MAXMETA 16

typedef struct hot_io {
    uint8_t *dst;  /* private output, cap_for(n) bytes */
    uint64_t *out; /* private decode output, max(n, 64) + 8 words */
    size_t ret;
    const void *bytes;
    size_t nbytes;
    uint64_t meta[HOT_MAXMETA];
    unsigned nmeta;
} hot_io;

static void hot_decode(unsigned par, const pool_entry *p, hot_io *io) {
    const size_t n = p->n;
    const unsigned e = par % E_COUNT;
    const uint8_t *buf = p->enc[e];
    const size_t len = p->enclen[e];
    uint64_t *out = io->out;
    size_t c = 0, width = 8;
#define M(x) io->meta[io->nmeta++] = (uint64_t)(x)
    M(e);
    if (!buf || len == 0) {
        return;
    }
    switch (e) {
    case E_FOR:
        c = varintFORDecode(buf, out, n);
        M(varintFORGetAt(buf, (par / E_COUNT) % n));
        break;
    case E_PFOR: {
        varintPFORMeta dm;
        memset(&dm, 0, sizeof(dm));
        c = varintPFORDecode(buf, out, &dm);
        M(varintPFORGetAt(buf, (uint32_t)((par / E_COUNT) % n), &p->pforMeta));
        break;
    }
    case E_DICT: {
        c = varintDictDecodeInto(buf, len, out, n);
        size_t oc = 0;
        uint64_t *al = varintDictDecode(buf, len, &oc);
        M(al != NULL);
        if (al) {
            M(HB(oc, al, (oc < n ? oc : n) * 8));
            free(al);
        }
        break;
    }
    case E_RLE:
        c = varintRLEDecode(buf, out, n);
        M(varintRLEGetAt(buf, (par / E_COUNT) % n));
        M(varintRLEGetRunCount(buf, len));
        break;
    case E_RLEH:
        c = varintRLEDecodeWithHeader(buf, out, n);
        M(varintRLEGetCount(buf));
        break;
    case E_ELIAS_G:
        c = varintEliasGammaDecodeArray(buf, p->encbits[e], out, n);
        break;
    case E_ELIAS_D:
        c = varintEliasDeltaDecodeArray(buf, p->encbits[e], out, n);
        break;
    case E_BP64:
        c = varintBP128Decode64(buf, out, n);
        M(varintBP128GetCount(buf, len));
        break;
    case E_BPD64:
        c = varintBP128DeltaDecode64(buf, out, n);
        break;
    case E_BP32:
        c = varintBP128Decode32(buf, (uint32_t *)out, n);
        width = 4;
        break;
    case E_FLOAT:
        M(varintFloatDecode(buf, n, (double *)out));
        c = n;
        break;
    case E_ADAPTIVE: {
        varintAdaptiveMeta dm;
        memset(&dm, 0, sizeof(dm));
        c = varintAdaptiveDecode(buf, out, n, &dm);
        M(dm.encodingType);
        M(dm.originalCount);
        break;
    }
    case E_DELTA:
        M(varintDeltaDecodeUnsigned(buf, n, out));
        c = n;
        break;
    default: { /* E_GROUP: out has room for 64 fields */
        uint8_t fc = 0;
        M(varintGroupDecode(buf, out, &fc, 64));
        c = fc;
        io->ret = c;
        io->bytes = out;
        io->nbytes = c * 8;
        return;
    }
    }
    io->ret = c;
    io->bytes = out;
    io->nbytes = (c < n ? c : n) * width;
}

static void hot_call(unsigned kind, unsigned par, const pool_entry *p,
                     hot_io *io) {
    static const uint32_t thr[3] = {VARINT_PFOR_THRESHOLD_95,
                                    VARINT_PFOR_THRESHOLD_90,
                                    VARINT_PFOR_THRESHOLD_99};
    const size_t n = p->n;
    uint8_t *dst = io->dst;
    io->ret = 0;
    io->bytes = dst;
    io->nbytes = 0;
    io->nmeta = 0;
    switch (kind) {
    case H_FOR_ENC:
    case H_FOR_ANALYZE: {
        varintFORMeta m;
        memset(&m, 0, sizeof(m));
        if (kind == H_FOR_ENC) {
            io->ret = (par & 1) ? varintFORBatchEncode(dst, p->raw, n, &m)
                                : varintFOREncode(dst, p->raw, n, &m);
            io->nbytes = io->ret;
        } else {
            if (par & 1) {
                varintFORBatchAnalyze(p->raw, n, &m);
            } else {
                varintFORAnalyze(p->raw, n, &m);
            }
            io->ret = varintFORSize(&m);
        }
        M(m.minValue);
        M(m.maxValue);
        M(m.range);
        M(m.count);
        M(m.encodedSize);
        M(m.offsetWidth);
        break;
    }
    case H_PFOR_ENC:
    case H_PFOR_THRESHOLD: {
        varintPFORMeta m;
        memset(&m, 0, sizeof(m));
        if (kind == H_PFOR_ENC) {
            io->ret = varintPFOREncode(dst, p->raw, (uint32_t)n, thr[par % 3], &m);
            io->nbytes = io->ret;
            if (io->ret == 0) {
                break; /* allocation failure: metadata unspecified */
            }
        } else {
            M(varintPFORComputeThreshold(p->raw, (uint32_t)n, thr[par % 3], &m));
            io->ret = varintPFORSize(&m);
        }
        M(m.min);
        M(m.exceptionMarker);
        M(m.thresholdValue);
        M(m.width);
        M(m.count);
        M(m.exceptionCount);
        M(m.threshold);
        break;
    }
    case H_DICT_ENC:
        io->ret = varintDictEncode(dst, p->raw, n);
        io->nbytes = io->ret;
        break;
    case H_DICT_SIZE: {
        io->ret = varintDictEncodedSize(p->raw, n);
        varintDictStats st;
        memset(&st, 0, sizeof(st));
        int ok = varintDictGetStats(p->raw, n, &st) == 0;
        M(ok);
        if (ok) {
            M(st.uniqueCount);
            M(st.totalCount);
            M(st.dictBytes);
            M(st.indexBytes);
            M(st.totalBytes);
        }
        break;
    }
    case H_RLE_ENC: {
        varintRLEMeta m;
        memset(&m, 0, sizeof(m));
        io->ret = (par & 1) ? varintRLEEncodeWithHeader(dst, p->raw, n, &m)
                            : varintRLEEncode(dst, p->raw, n, &m);
        io->nbytes = io->ret;
        M(m.count);
        M(m.runCount);
        M(m.encodedSize);
        break;
    }
    case H_RLE_ANALYZE: {
        varintRLEMeta m;
        memset(&m, 0, sizeof(m));
        M(varintRLEAnalyze(p->raw, n, &m));
        io->ret = varintRLESize(p->raw, n);
        M(m.count);
        M(m.runCount);
        M(m.encodedSize);
        M(m.uniqueValues);
        break;
    }
    case H_ELIAS_ENC: {
        varintEliasMeta m;
        memset(&m, 0, sizeof(m));
        io->ret = (par & 1) ? varintEliasDeltaEncodeArray(dst, p->ge1, n, &m)
                            : varintEliasGammaEncodeArray(dst, p->ge1, n, &m);
        io->nbytes = io->ret;
        M(m.count);
        M(m.totalBits);
        M(m.encodedBytes);
        break;
    }
    case H_BP128_ENC: {
        varintBP128Meta m;
        memset(&m, 0, sizeof(m));
        switch (par & 3) {
        case 0:
            io->ret = varintBP128Encode32(dst, p->u32, n, &m);
            break;
        case 1:
            io->ret = varintBP128DeltaEncode32(dst, p->s32, n, &m);
            break;
        case 2:
            io->ret = varintBP128Encode64(dst, p->raw, n, &m);
            break;
        default:
            io->ret = varintBP128DeltaEncode64(dst, p->sorted, n, &m);
            break;
        }
        io->nbytes = io->ret;
        M(m.count);
        M(m.blockCount);
        M(m.encodedBytes);
        M(m.lastBlockSize);
        M(m.maxBitWidth);
        break;
    }
    case H_FLOAT_ENC:
        io->ret = varintFloatEncode(dst, p->dbl, n,
                                    (varintFloatPrecision)(par & 3),
                                    (varintFloatEncodingMode)((par >> 2) % 3));
        io->nbytes = io->ret;
        break;
    case H_ADAPT_AUTO:
    case H_ADAPT_FORCED: {
        varintAdaptiveMeta m;
        memset(&m, 0, sizeof(m));
        io->ret = kind == H_ADAPT_FORCED
                      ? varintAdaptiveEncodeWith(
                            dst, p->raw, n,
                            (varintAdaptiveEncodingType)(par % 6), &m)
                      : varintAdaptiveEncode(dst, p->raw, n, &m);
        io->nbytes = io->ret;
        if (io->ret) {
            M(m.originalCount);
            M(m.encodedSize);
            M(m.encodingType);
        }
        break;
    }
    case H_ADAPT_ANALYZE: {
        varintAdaptiveDataStats st;
        memset(&st, 0, sizeof(st));
        varintAdaptiveAnalyze(p->raw, n, &st);
        M(st.count);
        M(st.minValue);
        M(st.maxValue);
        M(st.range);
        M(st.uniqueCount);
        M(st.avgDelta);
        M(st.maxDelta);
        M(st.outlierCount);
        M(f32bits(st.uniqueRatio));
        M(f32bits(st.outlierRatio));
        M(st.isSorted);
        M(st.isReverseSorted);
        M(st.fitsInBitmapRange);
        M(varintAdaptiveSelectEncoding(&st));
        io->ret = st.count;
        break;
    }
    case H_DELTA_ENC:
        io->ret = (par & 1) ? varintDeltaEncode(dst, p->sd, n)
                            : varintDeltaEncodeUnsigned(dst, p->raw, n);
        io->nbytes = io->ret;
        break;
    case H_GROUP_ENC: {
        const uint8_t k = (uint8_t)(n > 64 ? 64 : n);
        io->ret = varintGroupEncode(dst, p->raw, k);
        io->nbytes = io->ret;
        M(varintGroupSize(p->raw, k));
        break;
    }
    case H_DECODE:
        hot_decode(par, p, io);
        break;
    default: {
        int ovf = 0;
        io->ret = sc_run(kind - H_SC_FIRST, par, p, dst, SC_TRACE_MAX, &ovf);
        io->nbytes = io->ret;
        if (ovf) {
            atomic_store_explicit(&g_trace_ovf, 1, memory_order_relaxed);
        }
        break;
    }
    }
#undef M
}

/* k-th name of a comma separated list */
static void nth_name(const char *list, unsigned k, char *out, size_t cap) {
    const char *s = list;
    while (k && *s) {
        if (*s++ == ',') {
            k--;
        }
    }
    size_t i = 0;
    while (*s && *s != ',' && i + 1 < cap) {
        out[i++] = *s++;
    }
    out[i] = 0;
    if (i == 0) {
        snprintf(out, cap, "#%u", k);
    }
}

#define NMEMB 4

typedef struct hot_exp {
    size_t ret, nbytes;
    uint8_t *bytes;
    uint64_t meta[HOT_MAXMETA];
    unsigned nmeta;
    uint64_t ophash; /* op kinds */
} hot_exp;

typedef struct hotctx {
    int on;
    unsigned kind; /* < H_COUNT: lean entry point; else H_COUNT + op_kind */
    unsigned par, group, shift;
    size_t n;
    unsigned iters;
    int need_enc;
    pool_entry memb[NMEMB]; /* [0] aliases the pool array of the group */
    hot_exp exp[NMEMB];
} hotctx;

static const char *hot_kind_name(const hotctx *H, char *buf, size_t cap) {
    if (H->kind < H_COUNT) {
        snprintf(buf, cap, "hot.%s", hot_lean_name(H->kind));
    } else {
        snprintf(buf, cap, "hot.op.%s", op_name[H->kind - H_COUNT]);
    }
    return buf;
}

/* ----------------------------------------------------------------- threads */
/* bounded barrier: a participant that does not arrive within ~20 s (or a
 * thread that could not be created) breaks it for everybody */
#define XBAR_TIMEOUT_S 20
typedef struct xbar {
    atomic_uint arrived, gen;
    atomic_int broken;
    unsigned n;
} xbar;

static void xbar_init(xbar *b, unsigned n) {
    atomic_init(&b->arrived, 0);
    atomic_init(&b->gen, 0);
    atomic_init(&b->broken, 0);
    b->n = n;
}

static int xbar_wait(xbar *b) {
    if (atomic_load(&b->broken)) {
        return -1;
    }
    const unsigned g = atomic_load(&b->gen);
    if (atomic_fetch_add(&b->arrived, 1) + 1 == b->n) {
        atomic_store(&b->arrived, 0);
        atomic_fetch_add(&b->gen, 1);
        return 0;
    }
    time_t deadline = 0;
    for (unsigned long i = 0;; i++) {
        if (atomic_load(&b->gen) != g) {
            return 0;
        }
        if (atomic_load(&b->broken)) {
            return -1;
        }
        if (i < 3000) {
#if defined(__x86_64__) || defined(__i386__)
            __builtin_ia32_pause();
#endif
        } else if (i < 6000) {
            sched_yield();
        } else {
            /* watchdog only: the clock never influences a verdict, a broken
             * barrier discards the case */
            struct timespec ts = {0, 250000}, now;
            nanosleep(&ts, NULL);
            if ((i & 63) == 0) {
                clock_gettime(CLOCK_MONOTONIC, &now);
                if (deadline == 0) {
                    deadline = now.tv_sec + XBAR_TIMEOUT_S;
                } else if (now.tv_sec > deadline) {
                    atomic_store(&b->broken, 1);
                    return -1;
                }
            }
        }
    }
}

typedef struct failrec {
    int bad;
    char site[64], kind[32], detail[480];
} failrec;

typedef struct oprec {
    uint8_t codec, input;
    uint64_t expect;
} oprec;

typedef struct ctl {
    xbar bar;
    atomic_int stop; /* somebody saw a mismatch: finish early */
    const shared *S;
    const hotctx *H;
    unsigned nthreads;
} ctl;

typedef struct worker {
    ctl *C;
    unsigned id, nops, repeats;
    int cold; /* cold-start pass: every codec once, hashes recorded */
    oprec ops[MAXOPS];
    /* hot loop */
    unsigned member;
    int priv;
    pool_entry clone;
    hot_io io;
    /* thread-private results */
    uint64_t cold_hash[O_COUNT];
    unsigned long hot_done;
    failrec fail;
} worker;

/* input selector used by thread t for codec k in the cold-start pass */
static unsigned cold_input(unsigned t, unsigned k) {
    return ((t + k) % NPOOL) + NPOOL * ((k + t / NPOOL) & 7);
}

static int cold_capable(unsigned k) {
    /* these two need inputs that only exist after the main thread has called
     * the library (pre-encoded buffers, the prebuilt dictionary) */
    return k != O_DECODE_SHARED && k != O_DICT_SHARED;
}

static void rec_fail(worker *w, const char *site, const char *kind,
                     const char *fmt, ...) __attribute__((format(printf, 4, 5)));
static void rec_fail(worker *w, const char *site, const char *kind,
                     const char *fmt, ...) {
    if (w->fail.bad) {
        return;
    }
    w->fail.bad = 1;
    snprintf(w->fail.site, sizeof(w->fail.site), "%s", site);
    snprintf(w->fail.kind, sizeof(w->fail.kind), "%s", kind);
    va_list ap;
    va_start(ap, fmt);
    vsnprintf(w->fail.detail, sizeof(w->fail.detail), fmt, ap);
    va_end(ap);
    atomic_store_explicit(&w->C->stop, 1, memory_order_relaxed);
}

static int stopped(const ctl *C) {
    return atomic_load_explicit(&((ctl *)C)->stop, memory_order_relaxed);
}

static void hexwin(char *o, size_t cap, const uint8_t *p, size_t n, size_t from,
                   size_t k) {
    size_t len = 0;
    o[0] = 0;
    for (size_t i = from; i < n && i < from + k && len + 3 < cap; i++) {
        len += (size_t)snprintf(o + len, cap - len, "%02x", p[i]);
    }
}

static void hot_loop(worker *w) {
    const ctl *C = w->C;
    const hotctx *H = C->H;
    const pool_entry *p = w->priv ? &w->clone : &H->memb[w->member];
    const hot_exp *e = &H->exp[w->member];
    char site[64];
    hot_kind_name(H, site, sizeof(site));
    const char *variant = w->priv ? "thread-private copy" : "shared copy";
    for (unsigned it = 0; it < H->iters; it++) {
        if ((it & 7) == 0 && stopped(C)) {
            break;
        }
        w->hot_done++;
        if (H->kind >= H_COUNT) {
            uint64_t h = op_run_on(C->S, p, H->kind - H_COUNT, H->par);
            if (h != e->ophash) {
                rec_fail(w, site, "value",
                         "hot loop: thread %u of %u, iteration %u of %u, %s "
                         "par=%u on member %u (%s, n=%zu): output hash "
                         "0x%016llx differs from the sequential run's "
                         "0x%016llx",
                         w->id, C->nthreads, it, H->iters,
                         op_name[H->kind - H_COUNT], H->par, w->member, variant,
                         p->n, (unsigned long long)h,
                         (unsigned long long)e->ophash);
                return;
            }
            continue;
        }
        hot_io *io = &w->io;
        hot_call(H->kind, H->par, p, io);
        if (io->ret != e->ret) {
            rec_fail(w, site, "length",
                     "hot loop: thread %u of %u, iteration %u of %u, %s par=%u "
                     "on member %u (%s, n=%zu): returned %zu, the sequential "
                     "call returned %zu",
                     w->id, C->nthreads, it, H->iters, hot_lean_name(H->kind), H->par,
                     w->member, variant, p->n, io->ret, e->ret);
            return;
        }
        if (io->nmeta != e->nmeta ||
            memcmp(io->meta, e->meta, io->nmeta * sizeof(io->meta[0])) != 0) {
            unsigned k = 0;
            while (k < io->nmeta && k < e->nmeta && io->meta[k] == e->meta[k]) {
                k++;
            }
            char fname[40];
            nth_name(hot_lean_meta(H->kind), k, fname, sizeof(fname));
            rec_fail(w, site, "meta",
                     "hot loop: thread %u of %u, iteration %u of %u, %s par=%u "
                     "on member %u (%s, n=%zu): metadata field %s = %llu, the "
                     "sequential call gave %llu",
                     w->id, C->nthreads, it, H->iters, hot_lean_name(H->kind), H->par,
                     w->member, variant, p->n, fname,
                     (unsigned long long)(k < io->nmeta ? io->meta[k] : 0),
                     (unsigned long long)(k < e->nmeta ? e->meta[k] : 0));
            return;
        }
        if (io->nbytes != e->nbytes ||
            memcmp(io->bytes, e->bytes, io->nbytes) != 0) {
            size_t k = 0;
            const uint8_t *a = (const uint8_t *)io->bytes;
            while (k < io->nbytes && k < e->nbytes && a[k] == e->bytes[k]) {
                k++;
            }
            /* both windows from the start of the 10-byte record (add
             * histories: returned width, then the slot) or 4 bytes back */
            char got[40], want[40], where[80];
            size_t from = k >= 4 ? k - 4 : 0;
            where[0] = 0;
            if (H->kind == H_SC_FIRST + ((unsigned)O_TAGGED_ADD - O_SC_FIRST) ||
                H->kind == H_SC_FIRST + ((unsigned)O_EXTERNAL_ADD - O_SC_FIRST)) {
                const size_t hdr = H->kind == H_SC_FIRST ? 10 : 9;
                if (k >= hdr && (k - hdr) / 10 < SC_STEPS) {
                    from = hdr + (k - hdr) / 10 * 10;
                    snprintf(where, sizeof(where), " = add #%zu (%s)",
                             (k - hdr) / 10,
                             hdr == 10 ? "returned width, 9 slot bytes"
                                       : "returned width, caller's width, 8 "
                                         "slot bytes");
                }
            }
            hexwin(got, sizeof(got), a, io->nbytes, from, 12);
            hexwin(want, sizeof(want), e->bytes, e->nbytes, from, 12);
            rec_fail(w, site, "value",
                     "hot loop: thread %u of %u, iteration %u of %u, %s par=%u "
                     "on member %u (%s, n=%zu): output of %zu bytes differs "
                     "from the sequential call's at byte %zu%s: bytes %zu.. "
                     "are %s, sequential %s",
                     w->id, C->nthreads, it, H->iters, hot_lean_name(H->kind),
                     H->par, w->member, variant, p->n, io->nbytes, k, where,
                     from, got, want);
            return;
        }
    }
}

static void *worker_main(void *arg) {
    worker *w = (worker *)arg;
    ctl *C = w->C;
    const shared *S = C->S;
#ifdef C17_SELFTEST_BARRIER
    /* self-test of the bounded barrier: one thread never arrives */
    if (w->id == 1 && !w->cold) {
        return NULL;
    }
#endif
    if (xbar_wait(&C->bar) != 0) {
        return NULL;
    }
    if (w->cold) {
        for (unsigned j = 0; j < O_COUNT; j++) {
            unsigned k = (j + 5 * w->id) % O_COUNT;
            if (cold_capable(k)) {
                w->cold_hash[k] = op_run(S, k, cold_input(w->id, k));
            }
        }
        return NULL;
    }
    /* phase 1: the generated operation list, every repetition compared */
    for (unsigned rep = 0; rep < w->repeats && !stopped(C); rep++) {
        for (unsigned i = 0; i < w->nops; i++) {
            const oprec *o = &w->ops[i];
            uint64_t h = op_run(S, o->codec, o->input);
            if (h != o->expect) {
                rec_fail(w, op_name[o->codec], "value",
                         "thread %u of %u, repeat %u, op #%u %s input=%u (pool "
                         "array %u, n=%zu): output hash 0x%016llx differs from "
                         "the sequential run's 0x%016llx",
                         w->id, C->nthreads, rep, i, op_name[o->codec], o->input,
                         o->input % NPOOL, S->p[o->input % NPOOL].n,
                         (unsigned long long)h, (unsigned long long)o->expect);
                break;
            }
        }
    }
    /* phase 2: hot loop, all threads together */
    if (C->H && C->H->on) {
        if (xbar_wait(&C->bar) != 0) {
            return NULL;
        }
        hot_loop(w);
    }
    return NULL;
}

/* returns 0 when the threads could not be created or a barrier broke */
static int run_threads(worker *W, unsigned nthreads, ctl *C) {
    pthread_t tid[MAXTHREADS];
    unsigned started = 0;
    xbar_init(&C->bar, nthreads);
    atomic_store(&C->stop, 0);
    C->nthreads = nthreads;
    for (unsigned t = 0; t < nthreads; t++) {
        W[t].C = C;
        if (pthread_create(&tid[t], NULL, worker_main, &W[t]) != 0) {
            /* release the ones already waiting */
            atomic_store(&C->bar.broken, 1);
            break;
        }
        started++;
    }
    for (unsigned t = 0; t < started; t++) {
        pthread_join(tid[t], NULL);
    }
    return started == nthreads && !atomic_load(&C->bar.broken);
}

/* the library has not been called by this process yet: lazily initialised
 * state would be initialised inside the first concurrent phase */
static int g_warm;
/* schedule dependence (see the header comment) */
#define SHRINK_BUDGET 120
#define REPLAY_ATTEMPTS 10
static unsigned long g_cases_run;
static int g_fail_seen;
static unsigned g_shrink_runs;

static void hot_free(hotctx *H) {
    for (unsigned m = 1; m < NMEMB; m++) {
        if (H->memb[m].raw) {
            pool_free(&H->memb[m]);
        }
    }
    for (unsigned m = 0; m < NMEMB; m++) {
        free(H->exp[m].bytes);
    }
}

/* build the group of equal-length inputs and the sequential expectations */
static void hot_setup(shared *S, hotctx *H) {
    const pool_entry *base = &S->p[H->group];
    const size_t n = base->n;
    H->n = n;
    H->memb[0] = *base; /* alias: not freed through H */
    uint64_t *v = (uint64_t *)xmalloc(n * 8);
    for (unsigned m = 1; m < NMEMB; m++) {
        if (m < 3) {
            const pool_entry *o = &S->p[(H->group + m) % NPOOL];
            for (size_t i = 0; i < n; i++) {
                v[i] = o->raw[i % o->n];
            }
        } else {
            for (size_t i = 0; i < n; i++) {
                v[i] = base->raw[n - 1 - i] >> H->shift;
            }
        }
        pool_build(&H->memb[m], v, n);
        if (H->need_enc) {
            pool_encode(&H->memb[m]);
        }
    }
    free(v);
    hot_io io;
    memset(&io, 0, sizeof(io));
    io.dst = (uint8_t *)xmalloc(cap_for(n));
    io.out = (uint64_t *)xmalloc(((n > 64 ? n : 64) + 8) * 8);
    for (unsigned m = 0; m < NMEMB; m++) {
        hot_exp *e = &H->exp[m];
        if (H->kind >= H_COUNT) {
            e->ophash = op_run_on(S, &H->memb[m], H->kind - H_COUNT, H->par);
            continue;
        }
        hot_call(H->kind, H->par, &H->memb[m], &io);
        e->ret = io.ret;
        e->nbytes = io.nbytes;
        e->nmeta = io.nmeta;
        memcpy(e->meta, io.meta, sizeof(e->meta));
        e->bytes = (uint8_t *)xmalloc(io.nbytes);
        memcpy(e->bytes, io.bytes, io.nbytes);
    }
    free(io.dst);
    free(io.out);
}

/* which parts of the pattern "same pair hammered while others feed the codec
 * different inputs of the same length" this assignment realises */
static void hot_classes(const hotctx *H, const worker *W, unsigned nthreads) {
    unsigned users[NMEMB] = {0, 0, 0, 0}, shared_users[NMEMB] = {0, 0, 0, 0};
    int priv = 0;
    for (unsigned t = 0; t < nthreads; t++) {
        users[W[t].member]++;
        if (W[t].priv) {
            priv = 1;
        } else {
            shared_users[W[t].member]++;
        }
    }
    int same = 0, other = 0;
    for (unsigned a = 0; a < NMEMB; a++) {
        if (shared_users[a] >= 2) {
            same = 1;
        }
        for (unsigned b = a + 1; b < NMEMB; b++) {
            if (users[a] && users[b] &&
                memcmp(H->memb[a].raw, H->memb[b].raw, H->n * 8) != 0) {
                other = 1;
            }
        }
    }
    if (same) {
        vf_class("hot.same-input.shared");
    }
    if (priv) {
        vf_class("hot.same-input.private");
    }
    if (other) {
        vf_class("hot.other-input");
        if (same || priv) {
            vf_class("hot.pattern");
        }
    }
}

/* one concurrent execution of the case; *f receives the first mismatch.
 * returns 0 when the case has to be discarded */
static int run_attempt(shared *S, hotctx *H, worker *W, unsigned nthreads,
                       failrec *f) {
    ctl C;
    memset(&C, 0, sizeof(C));
    C.S = S;
    C.H = H;
    for (unsigned t = 0; t < nthreads; t++) {
        W[t].fail.bad = 0;
        W[t].hot_done = 0;
    }
    if (!run_threads(W, nthreads, &C)) {
        return 0;
    }
    f->bad = 0;
    for (unsigned t = 0; t < nthreads; t++) {
        if (W[t].fail.bad) {
            *f = W[t].fail;
            break;
        }
    }
    return 1;
}

static void run_case(vf_report *rep, shared *S, hotctx *H, worker *W,
                     unsigned nthreads) {
    int did_cold = 0;
    const int first_case = g_cases_run == 0;
    g_cases_run++;
    if (!g_warm) {
        g_warm = 1;
        did_cold = 1;
        vf_class("coldstart");
        ctl C;
        memset(&C, 0, sizeof(C));
        C.S = S;
        for (unsigned t = 0; t < nthreads; t++) {
            W[t].cold = 1;
        }
        int ok = run_threads(W, nthreads, &C);
        for (unsigned t = 0; t < nthreads; t++) {
            W[t].cold = 0;
        }
        if (!ok) {
            vf_discard("pthread_create failed or barrier timed out");
            return;
        }
    }

    /* first library calls of the main thread */
    for (unsigned i = 0; i < NPOOL; i++) {
        pool_encode(&S->p[i]);
    }
    S->dict = varintDictCreate();
    if (!S->dict || varintDictBuild(S->dict, S->p[0].raw, S->p[0].n) != 0) {
        abort();
    }

    if (did_cold) {
        for (unsigned k = 0; k < O_COUNT; k++) {
            if (!cold_capable(k)) {
                continue;
            }
            for (unsigned t = 0; t < nthreads; t++) {
                uint64_t want = op_run(S, k, cold_input(t, k));
                if (W[t].cold_hash[k] != want) {
                    char site[64];
                    snprintf(site, sizeof(site), "%s", op_name[k]);
                    vf_fail(rep, site, "value",
                            "cold start: thread %u of %u, %s input=%u: output "
                            "hash 0x%016llx differs from the sequential run's "
                            "0x%016llx",
                            t, nthreads, op_name[k], cold_input(t, k),
                            (unsigned long long)W[t].cold_hash[k],
                            (unsigned long long)want);
                    g_fail_seen = 1;
                    return;
                }
            }
        }
    }

    /* sequential expectations, then the generated assignment concurrently */
    for (unsigned t = 0; t < nthreads; t++) {
        for (unsigned i = 0; i < W[t].nops; i++) {
            W[t].ops[i].expect = op_run(S, W[t].ops[i].codec, W[t].ops[i].input);
        }
    }
    if (H->on) {
        hot_setup(S, H);
        hot_classes(H, W, nthreads);
        const size_t n = H->n;
        for (unsigned t = 0; t < nthreads; t++) {
            worker *w = &W[t];
            if (w->priv) {
                pool_clone(&w->clone, &H->memb[w->member], H->need_enc);
            }
            if (H->kind < H_COUNT) {
                w->io.dst = (uint8_t *)xmalloc(cap_for(n));
                w->io.out = (uint64_t *)xmalloc(((n > 64 ? n : 64) + 8) * 8);
            }
        }
    }

    failrec f;
    memset(&f, 0, sizeof(f));
    unsigned attempts = first_case ? REPLAY_ATTEMPTS : 1;
    int ok = 1;
    for (unsigned a = 0; a < attempts && ok && !f.bad; a++) {
        ok = run_attempt(S, H, W, nthreads, &f);
    }
    if (ok && f.bad && g_fail_seen) {
        /* a shrink candidate: accept it only if it fails again in one of two
         * further runs, so that what is kept reproduces */
        failrec f2;
        memset(&f2, 0, sizeof(f2));
        for (unsigned a = 0; a < 2 && ok && !f2.bad; a++) {
            ok = run_attempt(S, H, W, nthreads, &f2);
        }
        if (!f2.bad) {
            vf_class("shrink.unconfirmed");
            f.bad = 0;
        }
    }
    unsigned long done = 0;
    for (unsigned t = 0; t < nthreads; t++) {
        done += W[t].hot_done;
    }
    vf_class_n("hot.iterations", done);
    if (atomic_load(&g_trace_ovf)) {
        vf_class("harness.trace-truncated");
    }
    if (!ok) {
        vf_discard("pthread_create failed or barrier timed out");
        return;
    }
    if (f.bad) {
        g_fail_seen = 1;
        vf_fail(rep, f.site, f.kind, "%s", f.detail);
    }
}

/* ---------------------------------------------------------- large arrays */
/* Appended to the case (absent bytes = off, so older cases keep their
 * meaning): sel:1 len:1 shape:1 ops:1.  One pool array is stretched to a
 * length above the library's large-input thresholds (sampling instead of exact
 * analysis, heap instead of inline scratch, ...) and 2..4 threads released
 * from a barrier run two array codecs on that shared input with private
 * outputs; every result is compared with the sequential one and the whole
 * phase runs under ThreadSanitizer in the tsan configuration. */
static const uint32_t big_len[] = {10001, 10240, 12288, 16384, 20000,
                                   24576, 32768, 40000, 50000, 65537};
static const uint8_t big_ops[] = {O_ADAPT_AUTO, O_ADAPT_FORCED, O_HELPERS,
                                  O_PFOR,       O_DICT,         O_FOR,
                                  O_FOR_BATCH,  O_RLE,          O_DELTA_U,
                                  O_BP128_64,   O_BP128_32,     O_ELIAS,
                                  O_FLOAT,      O_DELTA_S};
#define NBIGOPS ((unsigned)(sizeof(big_ops) / sizeof(big_ops[0])))

typedef struct bigctl {
    const shared *S;
    const pool_entry *p;
    xbar bar;
    unsigned op[2], par[2], reps;
    uint64_t expect[2];
    _Atomic int bad; /* 1 + index of the first op that differed */
    _Atomic unsigned long long got;
    _Atomic unsigned who;
} bigctl;

static void *big_main(void *arg) {
    bigctl *B = (bigctl *)((void **)arg)[0];
    const unsigned id = (unsigned)(uintptr_t)((void **)arg)[1];
    if (xbar_wait(&B->bar) != 0) {
        return NULL;
    }
    for (unsigned rep = 0; rep < B->reps && !atomic_load(&B->bad); rep++) {
        for (unsigned i = 0; i < 2; i++) {
            const unsigned k = (i + id) & 1; /* neighbours start on different ops */
            uint64_t h = op_run_on(B->S, B->p, B->op[k], B->par[k]);
            if (h != B->expect[k]) {
                int z = 0;
                if (atomic_compare_exchange_strong(&B->bad, &z, 1 + (int)k)) {
                    atomic_store(&B->got, h);
                    atomic_store(&B->who, id);
                }
                return NULL;
            }
        }
    }
    return NULL;
}

static void big_phase(vf_report *rep, vf_rd *r, const shared *S,
                      unsigned nthreads, int tsan) {
    const uint8_t sel = vf_u8(r), ln = vf_u8(r), shp = vf_u8(r), ops = vf_u8(r);
    if (sel % 3 != 1) {
        vf_class("big.off");
        return;
    }
    const pool_entry *src = &S->p[(sel / 3) % NPOOL];
    const size_t L = big_len[ln % (sizeof(big_len) / sizeof(big_len[0]))];
    const unsigned shape = shp & 3;
    uint64_t *v = (uint64_t *)xmalloc(L * 8);
    uint64_t xs = vf_mix(shp, src->n) | 1;
    for (size_t k = 0; k < L; k++) {
        const uint64_t b = src->raw[k % src->n];
        switch (shape) {
        case 0: /* tiled: few distinct values, unsorted unless constant */
            v[k] = b;
            break;
        case 1: /* every tile shifted: sawtooth, many distinct values */
            v[k] = b + (uint64_t)(k / src->n) * (1 + (shp >> 2));
            break;
        case 2: /* low bits replaced by pseudo-random ones: mostly distinct */
            v[k] = (b & ~0xffffffULL) | (vf_xs(&xs) & 0xffffffULL);
            break;
        default: /* tiles of the sorted array */
            v[k] = src->sorted[k % src->n];
            break;
        }
    }
    pool_entry big;
    pool_build(&big, v, L);
    free(v);
    bigctl *B = (bigctl *)xzalloc(sizeof(bigctl));
    B->S = S;
    B->p = &big;
    B->op[0] = big_ops[(ops & 15) % NBIGOPS];
    B->op[1] = big_ops[(ops >> 4) % NBIGOPS];
    B->par[0] = shp >> 2;
    B->par[1] = ln >> 4;
    B->reps = tsan ? 1 : 3;
    for (unsigned i = 0; i < 2; i++) {
        B->expect[i] = op_run_on(S, &big, B->op[i], B->par[i]);
    }
    const unsigned nt = nthreads > 4 ? 4 : nthreads;
    vf_desc(rep, " big={n=%zu shape=%u from pool %u ops=%s/%u,%s/%u threads=%u}",
            L, shape, (sel / 3) % NPOOL, op_name[B->op[0]], B->par[0],
            op_name[B->op[1]], B->par[1], nt);
    {
        char cls[64];
        vf_class("big.on");
        for (unsigned i = 0; i < 2; i++) {
            snprintf(cls, sizeof(cls), "big.%s", op_name[B->op[i]]);
            vf_class(cls);
        }
        snprintf(cls, sizeof(cls), "big.len%s",
                 L <= 16384 ? "<=16384" : L <= 32768 ? "<=32768" : ">32768");
        vf_class(cls);
    }
    vf_evals(1);
    vf_nontrivial(vf_mix(HB(vf_mix(L, shape), big.raw, L * 8),
                         ((uint64_t)B->op[0] << 24) | (B->op[1] << 16) |
                             (B->par[0] << 8) | B->par[1]));
    pthread_t tid[4];
    void *args[4][2];
    unsigned started = 0;
    xbar_init(&B->bar, nt);
    for (unsigned t = 0; t < nt; t++) {
        args[t][0] = B;
        args[t][1] = (void *)(uintptr_t)t;
        if (pthread_create(&tid[t], NULL, big_main, args[t]) != 0) {
            atomic_store(&B->bar.broken, 1);
            break;
        }
        started++;
    }
    for (unsigned t = 0; t < started; t++) {
        pthread_join(tid[t], NULL);
    }
    const int bad = atomic_load(&B->bad);
    if (bad) {
        const unsigned k = (unsigned)bad - 1;
        char site[64];
        snprintf(site, sizeof(site), "big.%s", op_name[B->op[k]]);
        vf_fail(rep, site, "value",
                "large shared input (n=%zu, shape %u): thread %u of %u, %s "
                "par=%u: output hash 0x%016llx differs from the sequential "
                "run's 0x%016llx",
                L, shape, atomic_load(&B->who), nt, op_name[B->op[k]],
                B->par[k], (unsigned long long)atomic_load(&B->got),
                (unsigned long long)B->expect[k]);
        g_fail_seen = 1;
    }
    free(B);
    pool_free(&big);
}

static void case_free(shared *S, hotctx *H, worker *W, unsigned nthreads) {
    for (unsigned t = 0; t < nthreads; t++) {
        if (W[t].clone.raw) {
            pool_free(&W[t].clone);
        }
        free(W[t].io.dst);
        free(W[t].io.out);
    }
    hot_free(H);
    if (S->dict) {
        varintDictFree(S->dict);
    }
    for (unsigned i = 0; i < NPOOL; i++) {
        pool_free(&S->p[i]);
    }
    free(W);
    free(H);
    free(S);
}

/* elements one hot iteration touches (some entry points look at a prefix) */
static size_t hot_span(unsigned kind, size_t n) {
    size_t cap = n;
    if (kind == H_GROUP_ENC) {
        cap = 64;
    } else if (kind >= H_SC_FIRST && kind < H_COUNT) {
        return SC_STEPS; /* a trace costs the same whatever the input length */
    } else if (kind >= H_COUNT) {
        switch (kind - H_COUNT) {
        case O_TAGGED:
        case O_EXTERNAL:
        case O_CHAINED:
        case O_SPLIT:
            cap = 48;
            break;
        case O_GROUP:
            cap = 64;
            break;
        case O_PACKED:
            cap = 200;
            break;
        case O_BITSTREAM:
            cap = 120;
            break;
        default:
            break;
        }
    }
    return n < cap ? n : cap;
}

static void len_classes(const char *prefix, size_t n) {
    static const size_t lim[3] = {64, 256, 1024};
    for (unsigned i = 0; i < 3; i++) {
        if (n >= lim[i]) {
            char cls[48];
            snprintf(cls, sizeof(cls), "%s.len>=%zu", prefix, lim[i]);
            vf_class(cls);
        }
    }
}

void vf_run(vf_rd *r, vf_report *rep) {
    if (g_fail_seen) {
        /* everything after the first violation of a process is a shrink
         * candidate (or a later file of a replay list) */
        if (g_shrink_runs >= SHRINK_BUDGET) {
            vf_class("shrink.budget-exhausted");
            vf_desc(rep, "not executed: shrink budget exhausted");
            return;
        }
        g_shrink_runs++;
    }
    const int tsan = strcmp(vf_config(), "tsan") == 0;
    unsigned nthreads = 2 + vf_u8(r) % (MAXTHREADS - 1);
    unsigned repeats = 1 + vf_u8(r) % (vf_tier() ? 50 : 16);
    if (!tsan) {
        /* uninstrumented builds are ~10x faster: keep the threads contending
         * for a comparable time */
        repeats *= 8;
    }
    const uint8_t lenmix = vf_u8(r);
    const uint8_t hkind = vf_u8(r), hpar = vf_u8(r), hsel = vf_u8(r),
                  hunits = vf_u8(r);
    uint8_t roles[MAXTHREADS]; /* 4 bits per thread */
    for (unsigned t = 0; t < MAXTHREADS; t += 2) {
        const uint8_t b = vf_u8(r);
        roles[t] = b & 15;
        roles[t + 1] = b >> 4;
    }
    shared *S = (shared *)xzalloc(sizeof(shared));
    hotctx *H = (hotctx *)xzalloc(sizeof(hotctx));
    const size_t maxlen = vf_tier() ? 4200 : 600;
    static const uint16_t minlen[4] = {0, 64, 256, 1024};
    size_t maxn = 0;
    vf_desc(rep, "threads=%u repeats=%u pool=[", nthreads, repeats);
    for (unsigned i = 0; i < NPOOL; i++) {
        vf_arr a;
        vf_take_array(r, &a, maxlen, 0);
        const size_t want = minlen[(lenmix >> (2 * i)) & 3];
        if (a.n < want) {
            /* tile the generated array up to the slot's minimum length */
            const size_t n2 = want + a.n - 1;
            uint64_t *v = (uint64_t *)xmalloc(n2 * 8);
            for (size_t k = 0; k < n2; k++) {
                v[k] = a.v[k % a.n];
            }
            pool_build(&S->p[i], v, n2);
            free(v);
            vf_desc(rep, "%stiled to n=%zu: %.44s", i ? " | " : "", n2, a.desc);
        } else {
            pool_build(&S->p[i], a.v, a.n);
            vf_desc(rep, "%s%.60s", i ? " | " : "", a.desc);
        }
        if (S->p[i].n > maxn) {
            maxn = S->p[i].n;
        }
        vf_arr_free(&a);
    }
    len_classes("pool", maxn);

    /* hot loop parameters */
    H->on = hunits != 0;
    /* lean entry points (incl. one per scalar operation), then the older
     * phase-1 operations as hot.op.* */
    H->kind = hkind % (H_COUNT + O_OLD_COUNT);
    H->par = hpar;
    H->group = (hsel & 3) % NPOOL;
    H->shift = 8 * ((hsel >> 2) & 7);
    H->need_enc =
        H->kind == H_DECODE || H->kind == H_COUNT + (unsigned)O_DECODE_SHARED;
    char hname[64];
    hot_kind_name(H, hname, sizeof(hname));
    if (H->on) {
        const size_t n = S->p[H->group].n;
        const unsigned weight = H->kind < H_SC_FIRST ? hot_weight[H->kind]
                                : H->kind < H_COUNT
                                    ? sc_weight[H->kind - H_SC_FIRST]
                                    : 10;
        const uint64_t unit = (tsan ? 640u : 8192u) * (vf_tier() ? 2u : 1u);
        /* the phase-1 operations reused as hot kinds (hot.op.*) may work on
         * shared objects built from the LARGEST pool array (the shared
         * dictionary), whatever the hot group's own length is: budget them by
         * the largest pool length so one case cannot run for minutes */
        const size_t span_n = H->kind >= H_COUNT && maxn > n ? maxn : n;
        uint64_t it =
            (uint64_t)hunits * unit / (hot_span(H->kind, span_n) * weight);
        H->iters = it < 4 ? 4 : it > 40000 ? 40000 : (unsigned)it;
        vf_desc(rep, "] hot=%s par=%u group=%u n=%zu shift=%u iters=%u roles=",
                hname + 4, H->par, H->group, n, H->shift, H->iters);
        vf_class(hname);
        len_classes("hot", n);
    } else {
        vf_desc(rep, "] hot=off roles=");
        vf_class("hot.off");
    }

    worker *W = (worker *)xzalloc(sizeof(worker) * nthreads);
    /* assignment */
    unsigned seen[O_COUNT][NPOOL]; /* bitmask of threads using (codec, pool) */
    memset(seen, 0, sizeof(seen));
    uint64_t ch = vf_mix(nthreads, repeats);
    for (unsigned i = 0; i < NPOOL; i++) {
        ch = HB(ch, S->p[i].raw, S->p[i].n * 8);
    }
    ch = vf_mix(ch, ((uint64_t)H->on << 40) | ((uint64_t)H->kind << 32) |
                        (H->par << 16) | (H->group << 8) | H->shift);
    ch = vf_mix(ch, H->iters);
    unsigned shared_users[NMEMB] = {0, 0, 0, 0};
    for (unsigned t = 0; t < nthreads; t++) {
        worker *w = &W[t];
        w->id = t;
        w->repeats = repeats;
        const uint8_t role = roles[t];
        w->member = role & 3;
        w->priv = (role >> 2) & 1;
        if (!w->priv) {
            shared_users[w->member]++;
        }
        ch = vf_mix(ch, role & 7);
        vf_desc(rep, "%u%c", w->member, w->priv ? 'p' : 's');
    }
    vf_desc(rep, " ops=");
    for (unsigned t = 0; t < nthreads; t++) {
        worker *w = &W[t];
        w->nops = 1 + vf_u8(r) % MAXOPS;
        vf_desc(rep, "%st%u:", t ? " " : "", t);
        for (unsigned i = 0; i < w->nops; i++) {
            w->ops[i].codec = (uint8_t)(vf_u8(r) % O_COUNT);
            w->ops[i].input = vf_u8(r);
            seen[w->ops[i].codec][w->ops[i].input % NPOOL] |= 1u << t;
            ch = vf_mix(ch, ((uint64_t)t << 16) |
                                ((uint64_t)w->ops[i].codec << 8) |
                                w->ops[i].input);
            vf_desc(rep, "%s%s/%u", i ? "," : "", op_name[w->ops[i].codec],
                    w->ops[i].input);
            char cls[48];
            snprintf(cls, sizeof(cls), "op.%s", op_name[w->ops[i].codec]);
            vf_class(cls);
        }
    }
    int shared_pair = 0;
    for (unsigned c = 0; c < O_COUNT; c++) {
        for (unsigned i = 0; i < NPOOL; i++) {
            unsigned m = seen[c][i];
            if (m & (m - 1)) {
                shared_pair = 1;
                char cls[64];
                snprintf(cls, sizeof(cls), "concurrent.%s", op_name[c]);
                vf_class(cls);
            }
        }
    }
    if (H->on) {
        for (unsigned m = 0; m < NMEMB; m++) {
            if (shared_users[m] >= 2) {
                shared_pair = 1;
            }
        }
    }
    {
        char cls[32];
        snprintf(cls, sizeof(cls), "threads.%s",
                 nthreads <= 4 ? "2-4" : nthreads <= 8 ? "5-8" : "9-16");
        vf_class(cls);
    }
    if (shared_pair) {
        vf_nontrivial(ch);
    }
    run_case(rep, S, H, W, nthreads);
    if (!rep->violated) {
        big_phase(rep, r, S, nthreads, tsan);
    }
    case_free(S, H, W, nthreads);
}

/* deterministic smoke cases: 16 threads, every codec in several threads on
 * three fixed pool arrays, then a hot loop over all four members, shared and
 * private (also a cold start when nothing ran before it in this process).
 * Case 0 hammers PFOR encodes; one further case per scalar operation hammers
 * that operation's entry points (in-place adds, fixed-width forms, ...). */
static void sweep_case(vf_report *rep, unsigned hot, unsigned par, unsigned units,
                       unsigned rot) {
    static const uint8_t pool[] = {
        /* 128 values of 20 random bits */
        2, 9, 0, VF_SH_RANDOM_WIDTH, 38, 1, 0x11, 0x22, 0x33, 0x44, 0x55, 0x66,
        0x77, 0x08,
        /* 300 sorted values of 40 random bits */
        3, 44, 2, VF_SH_SORTED_RANDOM, 78, 1, 0x91, 0xa2, 0xb3, 0xc4, 0xd5, 0xe6,
        0xf7, 0x18,
        /* 30 values from a palette of three (tiled to 1053) */
        0, 29, 0, VF_SH_FEW_UNIQUE, 2, 2, 7, 2, 200, 2, 9, 0x21, 0x43, 0x65,
        0x07};
    uint8_t c[7 + 8 + sizeof(pool) + 16 * (1 + 2 * MAXOPS)];
    size_t k = 0;
    c[k++] = 14;             /* 16 threads */
    c[k++] = 3;              /* repeats */
    c[k++] = 0x31;           /* minimum lengths: 64, none, 1024 */
    c[k++] = (uint8_t)hot;   /* hot entry point */
    c[k++] = (uint8_t)par;   /* par */
    c[k++] = 1 << 2;         /* group 0, member 3 shifted by 8 bits */
    c[k++] = (uint8_t)units; /* units */
    for (unsigned t = 0; t < 16; t += 2) {
        /* member t & 3, private copy for t & 4 */
        c[k++] = (uint8_t)((t & 7) | (((t + 1) & 7) << 4));
    }
    memcpy(c + k, pool, sizeof(pool));
    k += sizeof(pool);
    for (unsigned t = 0; t < 16; t++) {
        c[k++] = MAXOPS - 1;
        for (unsigned i = 0; i < MAXOPS; i++) {
            c[k++] = (uint8_t)((t * 3 + i * 5 + rot) % O_COUNT);
            c[k++] = (uint8_t)(i * 7 + t);
        }
    }
    vf_rd r = {c, k, 0};
    vf_run(&r, rep);
}

void vf_sweep(vf_report *rep) {
    sweep_case(rep, H_PFOR_ENC, 0, 40, 0);
    for (unsigned sk = 0; sk < SC_COUNT && !rep->violated; sk++) {
        /* par: mixed grow / no-grow adds, a different start width per case */
        sweep_case(rep, H_SC_FIRST + sk, 2 + 4 * sk + 32 * (sk & 7), 12, 7 * (sk + 1));
    }
}
