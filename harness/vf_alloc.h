/* vf_alloc.h - allocation interposer.
 *
 * In the `oom` build configuration this header is force-included
 * (`-include vf_alloc.h`) into every /repo source file, so the library's
 * malloc/calloc/realloc/free calls become vf_* calls that can count, log, size-
 * check and fail on demand.  No change to /repo is needed.  Harness files
 * include it normally for the control API (define VF_ALLOC_NO_RENAME first). */
#ifndef VF_ALLOC_H
#define VF_ALLOC_H
#include <stddef.h>
#include <stdint.h>
#include <stdlib.h>
#include <string.h>

#ifdef __cplusplus
extern "C" {
#endif

void *vf_malloc(size_t n, const char *fn, int line);
void *vf_calloc(size_t a, size_t b, const char *fn, int line);
void *vf_realloc(void *p, size_t n, const char *fn, int line);
void vf_free(void *p);

/* control (harness side) */
void vf_alloc_reset(void);            /* counters, log, max request; keeps live set */
void vf_alloc_fail_at(uint64_t k);    /* k-th allocation from now fails; 0 = never */
void vf_alloc_fail_from(uint64_t k);  /* k-th and every later allocation fail */
uint64_t vf_alloc_count(void);        /* allocation attempts since reset */
size_t vf_alloc_live(void);           /* live blocks obtained through the interposer */
size_t vf_alloc_live_bytes(void);
size_t vf_alloc_max_request(void);    /* largest single request since reset */
const char *vf_alloc_site(uint64_t k);/* "func:line" of the k-th attempt (k<=128) */
const char *vf_alloc_failed_site(void); /* site where the injected failure fired, or NULL */
void vf_alloc_fill(int byte);         /* fill fresh malloc/realloc memory; -1 = off */
int vf_alloc_active(void);            /* 1 when the library is built with the rename */
/* free memory that the library allocated and handed to the caller */
void vf_lib_free(void *p);

#ifdef __cplusplus
}
#endif

#if defined(VF_OOM) && !defined(VF_ALLOC_NO_RENAME)
#define malloc(n) vf_malloc((n), __func__, __LINE__)
#define calloc(a, b) vf_calloc((a), (b), __func__, __LINE__)
#define realloc(p, n) vf_realloc((p), (n), __func__, __LINE__)
#define free(p) vf_free((p))
#endif

#endif
