/* c09_packed.h - dispatch table over the generated varintPacked.h
 * instantiations (written by c09_packed_inst.py into the per-build output
 * directory as c09_inst_<k>.c).  Every instantiation is wrapped into functions
 * of one uniform signature so that the harness is generic over
 * (bit width, slot type, compact flag, value / promotion / length type). */
#ifndef C09_PACKED_H
#define C09_PACKED_H

#include <stdbool.h>
#include <stddef.h>
#include <stdint.h>

typedef struct c09_inst {
    const char *name;    /* class-counter name, e.g. "i.b05.u8.c"          */
    unsigned bits;       /* PACK_STORAGE_BITS                               */
    unsigned slotBytes;  /* sizeof(PACK_STORAGE_SLOT_STORAGE_TYPE)          */
    unsigned compact;    /* PACK_STORAGE_COMPACT defined                    */
    uint64_t maxElements; /* PACK_MAX_ELEMENTS or 0 (no limit)              */
    void (*set)(void *a, uint32_t i, uint32_t v);
    uint32_t (*get)(const void *a, uint32_t i);
    void (*insertSorted)(void *a, uint32_t len, uint32_t v);
    void (*insert)(void *a, uint32_t len, uint32_t i, uint32_t v);
    void (*del)(void *a, uint32_t len, uint32_t i);
    int (*deleteMember)(void *a, uint32_t len, uint32_t v);
    int64_t (*member)(const void *a, uint32_t len, uint32_t v);
    uint32_t (*binarySearch)(const void *a, uint32_t len, uint32_t v);
    void (*incr)(void *a, uint32_t i, int64_t d);
    void (*half)(void *a, uint32_t i);
} c09_inst;

/* P is the pasted PACK_FUNCTION_PREFIX + PACK_STORAGE_BITS of the
 * instantiation that was just #included */
#define C09_WRAP(ID, P)                                                        \
    static void c09w_##ID##_set(void *a, uint32_t i, uint32_t v) {             \
        P##Set(a, i, v);                                                       \
    }                                                                          \
    static uint32_t c09w_##ID##_get(const void *a, uint32_t i) {               \
        return (uint32_t)P##Get(a, i);                                         \
    }                                                                          \
    static void c09w_##ID##_insertSorted(void *a, uint32_t len, uint32_t v) {  \
        P##InsertSorted(a, len, v);                                            \
    }                                                                          \
    static void c09w_##ID##_insert(void *a, uint32_t len, uint32_t i,          \
                                   uint32_t v) {                               \
        P##Insert(a, len, i, v);                                               \
    }                                                                          \
    static void c09w_##ID##_del(void *a, uint32_t len, uint32_t i) {           \
        P##Delete(a, len, i);                                                  \
    }                                                                          \
    static int c09w_##ID##_deleteMember(void *a, uint32_t len, uint32_t v) {   \
        return P##DeleteMember(a, len, v) ? 1 : 0;                             \
    }                                                                          \
    static int64_t c09w_##ID##_member(const void *a, uint32_t len,             \
                                      uint32_t v) {                            \
        return P##Member(a, len, v);                                           \
    }                                                                          \
    static uint32_t c09w_##ID##_binarySearch(const void *a, uint32_t len,      \
                                             uint32_t v) {                     \
        return (uint32_t)P##BinarySearch(a, len, v);                           \
    }                                                                          \
    static void c09w_##ID##_incr(void *a, uint32_t i, int64_t d) {             \
        P##SetIncr(a, i, d);                                                   \
    }                                                                          \
    static void c09w_##ID##_half(void *a, uint32_t i) {                        \
        P##SetHalf(a, i);                                                      \
    }

#define C09_ENTRY(ID, NAME, BITS, SLOTBYTES, COMPACT, MAXEL)                   \
    {                                                                          \
        NAME, BITS, SLOTBYTES, COMPACT, MAXEL, c09w_##ID##_set,                \
            c09w_##ID##_get, c09w_##ID##_insertSorted, c09w_##ID##_insert,     \
            c09w_##ID##_del, c09w_##ID##_deleteMember, c09w_##ID##_member,     \
            c09w_##ID##_binarySearch, c09w_##ID##_incr, c09w_##ID##_half       \
    }

/* defined by the generated c09_inst_0.c */
extern const unsigned c09_ninst;
const c09_inst *c09_get(unsigned idx);

#endif
