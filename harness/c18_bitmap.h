/* c18_bitmap.h - bitmap scenarios of the C18 harness: a 65536-bit model, the
 * pre-state builder (construction recipes that, in the present library, end
 * in ARRAY / BITMAP / RUNS containers and at the 4096 edges; the container
 * itself is never inspected) and one scenario per allocating bitmap API */
#ifndef C18_BITMAP_H
#define C18_BITMAP_H
#include "c18_common.h"

/* ------------------------------------------------------------------ model */
typedef struct bset {
    uint8_t b[8192];
    uint32_t card;
} bset;

static void bs_clear(bset *s) {
    memset(s, 0, sizeof(*s));
}
static int bs_has(const bset *s, uint32_t v) {
    return (s->b[v >> 3] >> (v & 7)) & 1;
}
static void bs_add(bset *s, uint32_t v) {
    if (!bs_has(s, v)) {
        s->b[v >> 3] |= (uint8_t)(1u << (v & 7));
        s->card++;
    }
}
static void bs_del(bset *s, uint32_t v) {
    if (bs_has(s, v)) {
        s->b[v >> 3] &= (uint8_t)~(1u << (v & 7));
        s->card--;
    }
}
static int bs_eq(const bset *a, const bset *b) {
    return a->card == b->card && memcmp(a->b, b->b, 8192) == 0;
}
static int bs_subset(const bset *a, const bset *b) {
    for (size_t i = 0; i < 8192; i++) {
        if (a->b[i] & ~b->b[i]) {
            return 0;
        }
    }
    return 1;
}
/* first value that is in exactly one of the two sets */
static int bs_first_diff(const bset *a, const bset *b) {
    for (uint32_t i = 0; i < 8192; i++) {
        uint8_t x = a->b[i] ^ b->b[i];
        if (x) {
            return (int)(i * 8 + (uint32_t)__builtin_ctz(x));
        }
    }
    return -1;
}
/* i-th member (i < card) */
static uint32_t bs_nth(const bset *s, uint32_t i) {
    for (uint32_t k = 0; k < 8192; k++) {
        uint32_t pc = (uint32_t)__builtin_popcount(s->b[k]);
        if (i >= pc) {
            i -= pc;
            continue;
        }
        for (uint32_t v = k * 8;; v++) {
            if (bs_has(s, v) && i-- == 0) {
                return v;
            }
        }
    }
    return 0;
}
static int bs_absent_from(const bset *s, uint32_t from) {
    for (uint32_t d = 0; d < 65536; d++) {
        uint32_t v = (from + d) & 0xffff;
        if (!bs_has(s, v)) {
            return (int)v;
        }
    }
    return -1;
}

/* ------------------------------------------------------- container states */
enum {
    BS_EMPTY = 0,
    BS_ARRAY_SMALL,
    BS_ARRAY_EDGE,  /* ARRAY with 4095 / 4096 members */
    BS_BITMAP_EDGE, /* BITMAP with 4096 / 4097 members */
    BS_BITMAP_BIG,
    BS_RUNS_SINGLE, /* AddRange of more than 4096 values on an empty set */
    BS_RUNS_SMALL,  /* decoded run container below 4096 members */
    BS_RUNS_LARGE,  /* decoded run container of several runs, >= 4096 members */
    BS_NKIND
};
static const char *const bs_kind_name[BS_NKIND] = {
    "empty",     "array-small", "array-edge", "bitmap-edge",
    "bitmap-big", "runs-single", "runs-small", "runs-large"};

typedef struct bmstate {
    unsigned kind;
    uint32_t n, start, stride; /* arithmetic member list */
    int descending;            /* insertion order */
    uint32_t nruns;
    uint16_t rs[4], rl[4]; /* runs */
} bmstate;

static void state_decode(bmstate *s, uint8_t st, uint16_t p1, uint8_t p2) {
    memset(s, 0, sizeof(*s));
    s->kind = st % BS_NKIND;
    unsigned sub = st / BS_NKIND; /* 0..31 */
    switch (s->kind) {
    case BS_EMPTY:
        break;
    case BS_ARRAY_SMALL:
        s->n = 1 + p2 % 200;
        if ((sub & 3) == 1) {
            s->n = 16; /* exactly the default capacity */
        }
        s->descending = (sub >> 2) & 1;
        break;
    case BS_ARRAY_EDGE:
        s->n = 4096 - (sub & 1);
        break;
    case BS_BITMAP_EDGE:
        s->n = 4096 + (sub & 1);
        break;
    case BS_BITMAP_BIG:
        s->n = 4200 + 13 * (uint32_t)p2;
        break;
    case BS_RUNS_SINGLE:
        s->nruns = 1;
        s->rs[0] = (uint16_t)(p1 % 30000);
        s->rl[0] = (uint16_t)(4097 + 97 * (uint32_t)p2);
        break;
    case BS_RUNS_SMALL:
    case BS_RUNS_LARGE: {
        s->nruns = s->kind == BS_RUNS_SMALL ? 1 + (sub & 3) : 2 + (sub & 1);
        uint32_t pos = p1 % 2000;
        for (uint32_t i = 0; i < s->nruns; i++) {
            uint32_t len = s->kind == BS_RUNS_SMALL ? 1 + (p2 + 37 * i) % 200
                                                    : 2100 + (p2 + 611 * i) % 900;
            s->rs[i] = (uint16_t)pos;
            s->rl[i] = (uint16_t)len;
            pos += len + 1 + (p1 >> 11) + i;
        }
        break;
    }
    }
    if (s->n) {
        uint32_t maxstride = 65535 / s->n;
        if (maxstride > 8) {
            maxstride = 8;
        }
        s->stride = 1 + (sub >> 1) % maxstride;
        uint32_t span = (s->n - 1) * s->stride;
        s->start = p1 % (65535 - span); /* leaves 65535 free as an "extra" */
    }
}

static void state_model(const bmstate *s, bset *m) {
    bs_clear(m);
    for (uint32_t i = 0; i < s->n; i++) {
        bs_add(m, s->start + i * s->stride);
    }
    for (uint32_t r = 0; r < s->nruns; r++) {
        for (uint32_t j = 0; j < s->rl[r]; j++) {
            bs_add(m, (uint32_t)s->rs[r] + j);
        }
    }
}

/* builds the object with fault-free library calls; NULL if that fails.
 * The state names say how the object is made, which is all the harness knows:
 * whether the library then holds it as an array, a bit vector or runs is its
 * own business and never enters a verdict (every verdict reads the object
 * through iterator / cardinality / contains, see bm_read, bm_consistent). */
static varintBitmap *state_build(const bmstate *s) {
    if (s->kind == BS_RUNS_SMALL || s->kind == BS_RUNS_LARGE) {
        /* GENERATOR knowledge: bytes in the run wire form of the time of
         * writing, the only known way to make the decoder hand out a
         * multi-run object.  They are input like any other: if the decoder
         * rejects them, or makes another set of them than the model says
         * (e.g. after a format change), the fault-free run notices and the
         * case is skipped as baseline-unusable - no verdict rests on them
         * being a "valid encoding". */
        uint8_t enc[9 + 16];
        uint32_t card = 0;
        for (uint32_t i = 0; i < s->nruns; i++) {
            card += s->rl[i];
            memcpy(enc + 9 + 4 * i, &s->rs[i], 2);
            memcpy(enc + 9 + 4 * i + 2, &s->rl[i], 2);
        }
        enc[0] = (uint8_t)VARINT_BITMAP_RUNS;
        memcpy(enc + 1, &card, 4);
        memcpy(enc + 5, &s->nruns, 4);
        size_t len = 9 + 4 * (size_t)s->nruns;
        uint8_t *cp = padded_copy(enc, len, 0);
        varintBitmap *vb = varintBitmapDecode(cp, len);
        free(cp);
        return vb;
    }
    varintBitmap *vb = varintBitmapCreate();
    if (!vb) {
        return NULL;
    }
    if (s->kind == BS_RUNS_SINGLE) {
        varintBitmapAddRange(vb, s->rs[0], (uint16_t)(s->rs[0] + s->rl[0]));
        return vb;
    }
    for (uint32_t i = 0; i < s->n; i++) {
        uint32_t j = s->descending ? s->n - 1 - i : i;
        varintBitmapAdd(vb, (uint16_t)(s->start + j * s->stride));
    }
    if (s->kind == BS_BITMAP_EDGE || s->kind == BS_BITMAP_BIG) {
        /* one member too many forces the BITMAP container, then take it out */
        varintBitmapAdd(vb, 65535);
        varintBitmapRemove(vb, 65535);
    }
    return vb;
}

/* ------------------------------------------------- reading an object back */
static int bm_read(const varintBitmap *vb, bset *out, char *why, size_t whyn) {
    bs_clear(out);
    varintBitmapIterator it = varintBitmapCreateIterator(vb);
    int64_t prev = -1;
    uint32_t cnt = 0;
    while (varintBitmapIteratorNext(&it)) {
        if (++cnt > 65536) {
            snprintf(why, whyn, "iterator yields more than 65536 values");
            return 0;
        }
        if ((int64_t)it.currentValue <= prev) {
            snprintf(why, whyn, "iterator yields %u after %lld", it.currentValue,
                     (long long)prev);
            return 0;
        }
        prev = it.currentValue;
        bs_add(out, it.currentValue);
    }
    return 1;
}

/* cardinality / contains must agree with what the iterator yields */
static int bm_consistent(const varintBitmap *vb, const bset *got, char *why,
                         size_t whyn) {
    if (varintBitmapCardinality(vb) != got->card) {
        snprintf(why, whyn, "cardinality %u, iteration yields %u members",
                 varintBitmapCardinality(vb), got->card);
        return 0;
    }
    if (varintBitmapIsEmpty(vb) != (got->card == 0)) {
        snprintf(why, whyn, "IsEmpty disagrees with %u members", got->card);
        return 0;
    }
    /* members (sampled when there are many), their neighbours, fixed probes */
    uint32_t step = got->card > 512 ? got->card / 256 : 1, seen = 0;
    for (uint32_t i = 0; i < 8192; i++) {
        if (!got->b[i]) {
            continue;
        }
        for (uint32_t v = i * 8; v < i * 8 + 8; v++) {
            if (!bs_has(got, v) || (seen++ % step) != 0) {
                continue;
            }
            for (int d = -1; d <= 1; d++) {
                int64_t q = (int64_t)v + d;
                if (q < 0 || q > 65535) {
                    continue;
                }
                if (varintBitmapContains(vb, (uint16_t)q) != (bool)bs_has(got, (uint32_t)q)) {
                    snprintf(why, whyn, "Contains(%lld)=%d but iteration %s it",
                             (long long)q, !bs_has(got, (uint32_t)q),
                             bs_has(got, (uint32_t)q) ? "yields" : "does not yield");
                    return 0;
                }
            }
        }
    }
    for (uint32_t j = 0; j < 66; j++) {
        uint32_t q = j == 64 ? 0 : j == 65 ? 65535 : (j * 1021 + 341) & 0xffff;
        if (varintBitmapContains(vb, (uint16_t)q) != (bool)bs_has(got, q)) {
            snprintf(why, whyn, "Contains(%u)=%d but iteration %s it", q,
                     !bs_has(got, q), bs_has(got, q) ? "yields" : "does not yield");
            return 0;
        }
    }
    return 1;
}

/* further operations on an object whose content must be `set` */
static int bm_exercise(ctx *c, varintBitmap *vb, const bset *set, const char *who) {
    char why[160];
    int p = bs_absent_from(set, (uint32_t)c->p1 ^ 0x5a5a);
    if (p >= 0) {
        if (!varintBitmapAdd(vb, (uint16_t)p) || !varintBitmapContains(vb, (uint16_t)p) ||
            varintBitmapCardinality(vb) != set->card + 1) {
            return bad(c, "usable", "%s: adding %d afterwards does not work "
                                    "(cardinality %u, expected %u)", who, p,
                       varintBitmapCardinality(vb), set->card + 1);
        }
        if (!varintBitmapRemove(vb, (uint16_t)p) || varintBitmapContains(vb, (uint16_t)p)) {
            return bad(c, "usable", "%s: removing %d again does not work", who, p);
        }
    }
    if (set->card) {
        uint32_t m = bs_nth(set, c->p2 % set->card);
        if (varintBitmapAdd(vb, (uint16_t)m) || !varintBitmapContains(vb, (uint16_t)m)) {
            return bad(c, "usable", "%s: re-adding member %u reports a change", who,
                       m);
        }
    }
    bset *again = (bset *)xmalloc(sizeof(bset));
    int r = 0;
    if (!bm_read(vb, again, why, sizeof(why)) ||
        !bm_consistent(vb, again, why, sizeof(why))) {
        r = bad(c, "state", "%s after further operations: %s", who, why);
    } else if (!bs_eq(again, set)) {
        r = bad(c, "state", "%s after add/remove of a probe: first differing "
                            "value %d", who, bs_first_diff(again, set));
    }
    free(again);
    return r;
}

/* object must hold exactly `want`; returns 0 if fine */
static int bm_expect(ctx *c, varintBitmap *vb, const bset *want, const char *who,
                     int exercise) {
    char why[160];
    bset *got = (bset *)xmalloc(sizeof(bset));
    int r = 0;
    if (!bm_read(vb, got, why, sizeof(why)) ||
        !bm_consistent(vb, got, why, sizeof(why))) {
        r = bad(c, "state", "%s: %s", who, why);
    } else if (!bs_eq(got, want)) {
        int d = bs_first_diff(got, want);
        r = bad(c, "value", "%s has %u members, expected %u; first difference: %d "
                            "is %s", who, got->card, want->card, d,
                bs_has(want, (uint32_t)d) ? "missing" : "extra");
    } else if (exercise) {
        r = bm_exercise(c, vb, want, who);
    }
    free(got);
    return r;
}

/* scratch shared by the scenarios of one case */
typedef struct bmcase {
    bmstate sa;
    bset pre, other, post, got;
    uint16_t *v16;
    uint32_t n16;
} bmcase;

static varintBitmap *bm_from_values(const uint16_t *v, uint32_t n) {
    varintBitmap *vb = varintBitmapCreate();
    for (uint32_t i = 0; vb && i < n; i++) {
        varintBitmapAdd(vb, v[i]);
    }
    return vb;
}

static bmcase *bm_case(ctx *c) {
    bmcase *b = (bmcase *)xcalloc(sizeof(bmcase));
    state_decode(&b->sa, c->st, c->p1, c->p2);
    state_model(&b->sa, &b->pre);
    b->n16 = (uint32_t)c->a.n;
    b->v16 = (uint16_t *)xmalloc(b->n16 * sizeof(uint16_t));
    for (uint32_t i = 0; i < b->n16; i++) {
        b->v16[i] = (uint16_t)c->a.v[i];
        bs_add(&b->other, b->v16[i]);
    }
    return b;
}
static void bm_case_free(bmcase *b) {
    free(b->v16);
    free(b);
}

/* fresh pre-state object, verified in the fault-free run */
static varintBitmap *bm_fresh(ctx *c, bmcase *b) {
    varintBitmap *vb = state_build(&b->sa);
    if (!vb) {
        bad(c, "failure", "building the %s state failed without a fault",
            bs_kind_name[b->sa.kind]);
        return NULL;
    }
    if (c->k == 0 && bm_expect(c, vb, &b->pre, "pre-state", 0)) {
        varintBitmapFree(vb);
        return NULL;
    }
    return vb;
}

/* ----------------------------------------------------------- create/clone */
static void f_bm_create(ctx *c) {
    call_begin(c);
    varintBitmap *vb = varintBitmapCreate();
    call_end(c);
    if (!vb) {
        reported_failure(c, "NULL");
        return;
    }
    bset *e = (bset *)xcalloc(sizeof(bset));
    bm_expect(c, vb, e, "new bitmap", 1);
    free(e);
    varintBitmapFree(vb);
}

static void f_bm_clone(ctx *c) {
    bmcase *b = bm_case(c);
    varintBitmap *a = bm_fresh(c, b);
    if (a) {
        call_begin(c);
        varintBitmap *cl = varintBitmapClone(a);
        call_end(c);
        if (!cl) {
            if (!reported_failure(c, "NULL")) {
                bm_expect(c, a, &b->pre, "source after the failed clone", 1);
            }
        } else {
            if (!bm_expect(c, cl, &b->pre, "clone", 1)) {
                bm_expect(c, a, &b->pre, "source after using the clone", 1);
            }
            varintBitmapFree(cl);
        }
        varintBitmapFree(a);
    }
    bm_case_free(b);
}

/* ------------------------------------------------------------- add/remove */
static uint16_t bm_pick_value(const ctx *c, const bmcase *b) {
    const bset *s = &b->pre;
    switch (c->p3 & 3) {
    case 0: { /* an absent value (what makes the set grow) */
        int v = bs_absent_from(s, c->a.v[0] & 0xffff);
        return (uint16_t)(v < 0 ? 0 : v);
    }
    case 1: /* a member */
        return (uint16_t)(s->card ? bs_nth(s, (uint32_t)(c->a.v[0] % s->card))
                                  : (c->a.v[0] & 0xffff));
    case 2: { /* just above the largest member */
        uint32_t top = s->card ? bs_nth(s, s->card - 1) : 0;
        return (uint16_t)(top < 65535 ? top + 1 : top);
    }
    default:
        return (uint16_t)c->a.v[0];
    }
}

static void f_bm_add_remove(ctx *c, int is_add) {
    bmcase *b = bm_case(c);
    varintBitmap *a = bm_fresh(c, b);
    if (a) {
        uint16_t v = bm_pick_value(c, b);
        int was = bs_has(&b->pre, v);
        b->post = b->pre;
        if (is_add) {
            bs_add(&b->post, v);
        } else {
            bs_del(&b->post, v);
        }
        call_begin(c);
        bool r = is_add ? varintBitmapAdd(a, v) : varintBitmapRemove(a, v);
        call_end(c);
        int changes = is_add ? !was : was;
        if (r) {
            if (!changes) {
                bad(c, "value", "%s(%u) returned true although the value was %s",
                    c->topfn, v, was ? "present" : "absent");
            } else {
                bm_expect(c, a, &b->post, "object after the call returned true", 1);
            }
        } else {
            /* false: nothing changed (also the only way to report a failure) */
            if (changes && reported_failure(c, "false")) {
                /* fault-free false for a value that should change the set */
            } else {
                bm_expect(c, a, &b->pre, "object after the call returned false", 1);
            }
        }
        varintBitmapFree(a);
    }
    bm_case_free(b);
}
static void f_bm_add(ctx *c) {
    f_bm_add_remove(c, 1);
}
static void f_bm_remove(ctx *c) {
    f_bm_add_remove(c, 0);
}

/* ---------------------------------------------- void mutators (AddRange/Many) */
/* after a void mutator the set must be `post`.  The functions cannot report a
 * failure, so pre <= got < post ("silently missing members") is the known
 * finding; anything else is a corrupt object */
static void bm_void_verdict(ctx *c, bmcase *b, varintBitmap *a) {
    char why[160];
    if (!bm_read(a, &b->got, why, sizeof(why)) ||
        !bm_consistent(a, &b->got, why, sizeof(why))) {
        bad(c, "state", "object after the call: %s", why);
        return;
    }
    if (!bs_eq(&b->got, &b->post)) {
        int d = bs_first_diff(&b->got, &b->post);
        if (!bs_subset(&b->pre, &b->got) || !bs_subset(&b->got, &b->post)) {
            bad(c, "value", "object after the call has %u members, expected %u; "
                            "%d is %s", b->got.card, b->post.card, d,
                bs_has(&b->post, (uint32_t)d) ? "missing (a member it had before)"
                                              : "extra");
            return;
        }
        /* silent partial result of a void mutator */
        if (c->k && c->failed[0] && vf_known(C18_KNOWN_VOID)) {
            c->excluded = 1;
        } else {
            bad(c, "silent-partial",
                "%s returns void and left %u of %u expected members (first "
                "missing %d): the caller cannot learn that the call failed",
                c->topfn, b->got.card, b->post.card, d);
            return;
        }
    }
    /* whatever it holds, the object must keep working */
    bm_exercise(c, a, &b->got, "object after the call");
}

static void f_bm_add_range(ctx *c) {
    bmcase *b = bm_case(c);
    varintBitmap *a = bm_fresh(c, b);
    if (a) {
        uint32_t len;
        switch (c->p3 & 7) {
        case 7:
            len = 4097 + (c->a.v[0] % 3000); /* run-container shortcut */
            break;
        case 6:
            len = 4090 + (c->a.v[0] % 8); /* around the shortcut threshold */
            break;
        default:
            len = (uint32_t)(c->a.n % 300) + ((c->p3 & 7) == 5 ? 300 : 0);
            break;
        }
        uint32_t lo = (uint32_t)(c->a.v[0] % (65536 - len));
        uint32_t hi = lo + len; /* <= 65535 */
        b->post = b->pre;
        for (uint32_t v = lo; v < hi; v++) {
            bs_add(&b->post, v);
        }
        call_begin(c);
        varintBitmapAddRange(a, (uint16_t)lo, (uint16_t)hi);
        call_end(c);
        bm_void_verdict(c, b, a);
        varintBitmapFree(a);
    }
    bm_case_free(b);
}

static void f_bm_add_many(ctx *c) {
    bmcase *b = bm_case(c);
    varintBitmap *a = bm_fresh(c, b);
    if (a) {
        b->post = b->pre;
        for (uint32_t i = 0; i < b->n16; i++) {
            bs_add(&b->post, b->v16[i]);
        }
        call_begin(c);
        varintBitmapAddMany(a, b->v16, b->n16);
        call_end(c);
        bm_void_verdict(c, b, a);
        varintBitmapFree(a);
    }
    bm_case_free(b);
}

/* ------------------------------------------------------------- set algebra */
static void f_bm_setop(ctx *c, int op) {
    bmcase *b = bm_case(c);
    varintBitmap *a = bm_fresh(c, b);
    varintBitmap *o = a ? bm_from_values(b->v16, b->n16) : NULL;
    if (a && !o) {
        bad(c, "failure", "building the second operand failed without a fault");
    }
    if (a && o) {
        int swap = (c->p3 >> 2) & 1;
        const bset *m1 = swap ? &b->other : &b->pre;
        const bset *m2 = swap ? &b->pre : &b->other;
        varintBitmap *x1 = swap ? o : a, *x2 = swap ? a : o;
        for (size_t i = 0; i < 8192; i++) {
            uint8_t p = m1->b[i], q = m2->b[i], r;
            r = op == 0 ? (p & q) : op == 1 ? (p | q) : op == 2 ? (p ^ q) : (p & ~q);
            b->post.b[i] = r;
            b->post.card += (uint32_t)__builtin_popcount(r);
        }
        varintBitmap *res;
        call_begin(c);
        switch (op) {
        case 0:
            res = varintBitmapAnd(x1, x2);
            break;
        case 1:
            res = varintBitmapOr(x1, x2);
            break;
        case 2:
            res = varintBitmapXor(x1, x2);
            break;
        default:
            res = varintBitmapAndNot(x1, x2);
            break;
        }
        call_end(c);
        int stop = 0;
        if (!res) {
            stop = reported_failure(c, "NULL");
        } else {
            stop = bm_expect(c, res, &b->post, "result", 1);
            varintBitmapFree(res);
        }
        if (!stop && !bm_expect(c, a, &b->pre, "state operand after the call", 0)) {
            bm_expect(c, o, &b->other, "array operand after the call", 0);
        }
    }
    varintBitmapFree(o);
    varintBitmapFree(a);
    bm_case_free(b);
}
static void f_bm_and(ctx *c) {
    f_bm_setop(c, 0);
}
static void f_bm_or(ctx *c) {
    f_bm_setop(c, 1);
}
static void f_bm_xor(ctx *c) {
    f_bm_setop(c, 2);
}
static void f_bm_andnot(ctx *c) {
    f_bm_setop(c, 3);
}

/* ------------------------------------------------------------------ decode */
static void f_bm_decode(ctx *c) {
    bmcase *b = bm_case(c);
    varintBitmap *a = bm_fresh(c, b);
    if (a) {
        size_t cap = 32 + 8192 + 2 * (size_t)b->pre.card;
        uint8_t *buf = (uint8_t *)xmalloc(cap);
        memset(buf, 0xA5, cap);
        size_t len = varintBitmapEncode(a, buf);
        uint8_t *enc = padded_copy(buf, len <= cap ? len : 0, 0);
        free(buf);
        if (len == 0 || len > cap) {
            bad(c, "failure", "varintBitmapEncode returned %zu", len);
        } else {
            call_begin(c);
            varintBitmap *d = varintBitmapDecode(enc, len);
            call_end(c);
            if (!d) {
                reported_failure(c, "NULL");
            } else {
                bm_expect(c, d, &b->pre, "decoded bitmap", 1);
                varintBitmapFree(d);
            }
        }
        free(enc);
        varintBitmapFree(a);
    }
    bm_case_free(b);
}

#endif
