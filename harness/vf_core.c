/* vf_core.c - reader helpers, counters, distinct-case set, stats file, crash
 * capture.  Shared by all drivers; contains no code from /repo. */
#define _GNU_SOURCE
#include "vf.h"

#include <errno.h>
#include <fcntl.h>
#include <signal.h>
#include <stdarg.h>
#include <unistd.h>

#if defined(__has_feature)
#if __has_feature(address_sanitizer)
#define VF_ASAN 1
#endif
#endif
#ifdef __SANITIZE_ADDRESS__
#define VF_ASAN 1
#endif
#ifndef VF_ASAN
#define VF_ASAN 0
#endif

#if defined(__has_feature)
#if __has_feature(thread_sanitizer)
#define VF_TSAN 1
#endif
#endif
#ifdef __SANITIZE_THREAD__
#define VF_TSAN 1
#endif
#ifndef VF_TSAN
#define VF_TSAN 0
#endif

#ifndef VF_CONFIG
#define VF_CONFIG "unknown"
#endif

/* ------------------------------------------------------------ boundary table */
static uint64_t g_bound[512];
static size_t g_nbound;

static void bound_add(uint64_t v) {
    for (size_t i = 0; i < g_nbound; i++) {
        if (g_bound[i] == v) {
            return;
        }
    }
    if (g_nbound < sizeof(g_bound) / sizeof(g_bound[0])) {
        g_bound[g_nbound++] = v;
    }
}

static void bound_init(void) {
    if (g_nbound) {
        return;
    }
    /* Constants taken from the documented formats (README "Storage Overview",
     * header "Data Layout" comments), not from the code under test. */
    bound_add(0); /* entry 0 must be 0 so that all-zero bytes decode to 0 */
    for (int k = 1; k <= 63; k++) {
        bound_add(1ULL << k);       /* 2^k */
        bound_add((1ULL << k) - 1); /* 2^k - 1 */
    }
    bound_add(UINT64_MAX);
    /* tagged */
    bound_add(240);
    bound_add(2287);
    bound_add(67823);
    /* split: 63, 63 + 2^14 - 1, then 16446 + 2^(8k) - 1 */
    bound_add(63);
    bound_add(16446);
    for (int k = 1; k <= 7; k++) {
        bound_add(16446ULL + (1ULL << (8 * k)) - 1);
    }
    /* split-full: 63, 16446, 16446 + 2^22 - 1 = 4210749, then + 2^(8k) - 1 */
    bound_add(4210749ULL);
    for (int k = 3; k <= 7; k++) {
        bound_add(4210749ULL + (1ULL << (8 * k)) - 1);
    }
    /* split-full-no-zero: everything shifted by one */
    bound_add(64);
    bound_add(16447);
    bound_add(4210750ULL);
    for (int k = 3; k <= 7; k++) {
        bound_add(4210750ULL + (1ULL << (8 * k)) - 1);
    }
    /* split-full-16: 2^14 - 1, + 2^22 - 1, + 2^30 - 1 style levels and their
     * cumulative sums */
    {
        uint64_t acc = (1ULL << 14) - 1;
        bound_add(acc);
        acc += (1ULL << 22) - 1;
        bound_add(acc);
        acc += (1ULL << 30) - 1;
        bound_add(acc);
        for (int k = 4; k <= 7; k++) {
            bound_add(acc + (1ULL << (8 * k)) - 1);
        }
        uint64_t acc2 = (1ULL << 14) - 1 + (1ULL << 22) - 1;
        for (int k = 2; k <= 7; k++) {
            bound_add(acc2 + (1ULL << (8 * k)) - 1);
        }
    }
    /* signed edges */
    bound_add((uint64_t)INT64_MAX);
    bound_add((uint64_t)INT64_MIN);
    bound_add((uint64_t)INT32_MAX);
    bound_add((uint64_t)(int64_t)INT32_MIN);
    /* bitmap / array thresholds that also appear as values */
    bound_add(4095);
    bound_add(4096);
    bound_add(65535);
    bound_add(65536);
    bound_add(10000);
}

const uint64_t *vf_boundaries(size_t *count) {
    bound_init();
    *count = g_nbound;
    return g_bound;
}

uint64_t vf_range(vf_rd *r, uint64_t lo, uint64_t hi) {
    if (hi <= lo) {
        return lo;
    }
    uint64_t span = hi - lo;
    uint64_t v;
    if (span < 0x100) {
        v = vf_u8(r);
    } else if (span < 0x10000) {
        v = vf_u16(r);
    } else if (span < 0x100000000ULL) {
        v = vf_u32(r);
    } else {
        v = vf_raw64(r);
    }
    if (span == UINT64_MAX) {
        return v;
    }
    return lo + v % (span + 1);
}

/* one half of a composite value: small, a table boundary +-1, all-ones of k
 * bytes, or raw 32 bits */
static uint64_t vf_u64_part(vf_rd *r) {
    uint8_t sel = vf_u8(r);
    switch (sel & 3) {
    case 0:
        return vf_u8(r);
    case 1: {
        uint64_t b = g_bound[vf_u16(r) % g_nbound];
        static const int64_t d[4] = {0, 1, -1, 0};
        return b + (uint64_t)d[(sel >> 2) & 3];
    }
    case 2: {
        unsigned k = 1 + ((sel >> 2) & 3);
        return ((1ULL << (8 * k)) - 1) - ((sel >> 4) & 3);
    }
    default:
        return vf_u32(r);
    }
}

uint64_t vf_u64(vf_rd *r) {
    bound_init();
    uint8_t sel = vf_u8(r);
    switch (sel & 7) {
    case 0:
    case 1: {
        /* table boundary +/- {0,1,2} */
        uint64_t b = g_bound[vf_u16(r) % g_nbound];
        static const int64_t d[8] = {0, 1, -1, 2, -2, 0, 1, -1};
        return b + (uint64_t)d[(sel >> 3) & 7];
    }
    case 2:
        return vf_u8(r);
    case 3:
        return vf_u16(r);
    case 4:
    case 5: {
        /* uniformly chosen bit length, random lower bits */
        unsigned bits = 1 + (vf_u8(r) & 63);
        uint64_t v = vf_raw64(r);
        if (bits < 64) {
            v &= (1ULL << bits) - 1;
        }
        v |= 1ULL << (bits - 1);
        return v;
    }
    case 6:
        return vf_raw64(r);
    default: {
        if (sel & 0x80) {
            /* composite: a boundary-ish high part joined to a boundary-ish
             * low part at a byte position (reaches code that looks at the two
             * halves of a value separately, e.g. truncation to 32 bits) */
            static const uint8_t cut[8] = {32, 32, 32, 16, 8, 24, 40, 48};
            unsigned c = cut[(sel >> 3) & 7];
            uint64_t lo = vf_u64_part(r), hi = vf_u64_part(r);
            if (hi == 0) {
                hi = 1;
            }
            uint64_t lomask = (1ULL << c) - 1;
            return (hi << c) | (lo & lomask);
        }
        /* k all-ones bytes, or 2^(8k) + small */
        unsigned k = 1 + ((sel >> 3) & 7);
        uint64_t ones = k >= 8 ? UINT64_MAX : ((1ULL << (8 * k)) - 1);
        uint8_t off = vf_u8(r);
        if (off & 1) {
            return ones - (off >> 1);
        }
        return ones + 1 + (off >> 1);
    }
    }
}

uint64_t vf_ubits(vf_rd *r, unsigned bits) {
    uint64_t v = vf_u64(r);
    if (bits >= 64) {
        return v;
    }
    uint64_t mask = (1ULL << bits) - 1;
    if (v <= mask) {
        return v;
    }
    /* fold large values so that the top of the range stays likely */
    if ((v & 3) == 0) {
        return mask - ((v >> 2) & 3);
    }
    return v & mask;
}

uint64_t vf_hash_bytes(uint64_t h, const void *p, size_t n) {
    const uint8_t *b = (const uint8_t *)p;
    for (size_t i = 0; i < n; i++) {
        h = (h ^ b[i]) * 0x100000001b3ULL;
    }
    return vf_mix(h, n);
}

/* ------------------------------------------------------------------ report */
int vf_fail(vf_report *rep, const char *site, const char *kind, const char *fmt,
            ...) {
    if (rep->violated) {
        return 1;
    }
    rep->violated = 1;
    snprintf(rep->site, sizeof(rep->site), "%s", site);
    snprintf(rep->kind, sizeof(rep->kind), "%s", kind);
    va_list ap;
    va_start(ap, fmt);
    vsnprintf(rep->detail, sizeof(rep->detail), fmt, ap);
    va_end(ap);
    return 1;
}

void vf_desc(vf_report *rep, const char *fmt, ...) {
    if (rep->desclen >= sizeof(rep->desc) - 1) {
        return;
    }
    va_list ap;
    va_start(ap, fmt);
    int w = vsnprintf(rep->desc + rep->desclen, sizeof(rep->desc) - rep->desclen,
                      fmt, ap);
    va_end(ap);
    if (w > 0) {
        rep->desclen += (size_t)w;
        if (rep->desclen >= sizeof(rep->desc)) {
            rep->desclen = sizeof(rep->desc) - 1;
        }
    }
}

/* ---------------------------------------------------------------- counters */
#define MAXCLASS 768
static struct {
    const char *name;
    uint64_t n;
} g_class[MAXCLASS];
static size_t g_nclass;

void vf_class_n(const char *name, uint64_t n) {
    for (size_t i = 0; i < g_nclass; i++) {
        if (g_class[i].name == name || strcmp(g_class[i].name, name) == 0) {
            g_class[i].n += n;
            /* move-to-front-ish: swap with predecessor to keep hot ones early */
            if (i > 0 && g_class[i].n > g_class[i - 1].n) {
                const char *tn = g_class[i].name;
                uint64_t tc = g_class[i].n;
                g_class[i] = g_class[i - 1];
                g_class[i - 1].name = tn;
                g_class[i - 1].n = tc;
            }
            return;
        }
    }
    if (g_nclass < MAXCLASS) {
        g_class[g_nclass].name = strdup(name);
        g_class[g_nclass].n = n;
        g_nclass++;
    }
}
void vf_class(const char *name) {
    vf_class_n(name, 1);
}

static uint64_t g_cases, g_evals, g_nontrivial_hits, g_discards, g_violations;
static int g_case_nontrivial;

void vf_evals(uint64_t n) {
    g_evals += n;
}

/* distinct set: open addressing over 64-bit hashes (0 reserved) */
static uint64_t *g_set;
static size_t g_setcap, g_setn;
static size_t g_setmax = (size_t)1 << 23;
static int g_set_saturated;

static void set_insert_raw(uint64_t *tab, size_t cap, uint64_t h, size_t *n) {
    size_t i = (size_t)(h * 0x9e3779b97f4a7c15ULL) & (cap - 1);
    while (tab[i]) {
        if (tab[i] == h) {
            return;
        }
        i = (i + 1) & (cap - 1);
    }
    tab[i] = h;
    (*n)++;
}

void vf_nontrivial(uint64_t h) {
    g_nontrivial_hits++;
    g_case_nontrivial = 1;
    if (h == 0) {
        h = 1;
    }
    if (!g_set) {
        g_setcap = 1 << 12;
        g_set = (uint64_t *)calloc(g_setcap, sizeof(uint64_t));
        if (!g_set) {
            g_set_saturated = 1;
            return;
        }
    }
    if (g_setn * 2 >= g_setcap) {
        if (g_setcap >= g_setmax) {
            /* allow fill to 75 %, then stop counting (reported as saturated:
             * the count is then a lower bound) */
            if (g_setn * 4 >= g_setcap * 3) {
                g_set_saturated = 1;
                return;
            }
        } else {
            size_t ncap = g_setcap * 2;
            uint64_t *nt = (uint64_t *)calloc(ncap, sizeof(uint64_t));
            if (!nt) {
                g_set_saturated = 1;
                return;
            }
            size_t nn = 0;
            for (size_t i = 0; i < g_setcap; i++) {
                if (g_set[i]) {
                    set_insert_raw(nt, ncap, g_set[i], &nn);
                }
            }
            free(g_set);
            g_set = nt;
            g_setcap = ncap;
            g_setn = nn;
        }
    }
    set_insert_raw(g_set, g_setcap, h, &g_setn);
}

void vf_discard(const char *why) {
    g_discards++;
    char b[96];
    snprintf(b, sizeof(b), "discard:%s", why);
    vf_class(b);
}

/* known findings ------------------------------------------------------- */
static char g_known[32][64];
static uint64_t g_known_hits[32];
static size_t g_nknown;
static int g_known_loaded;

static void known_load(void) {
    g_known_loaded = 1;
    const char *e = getenv("VF_KNOWN");
    if (!e) {
        return;
    }
    while (*e && g_nknown < 32) {
        const char *c = strchr(e, ',');
        size_t len = c ? (size_t)(c - e) : strlen(e);
        if (len > 0 && len < sizeof(g_known[0])) {
            memcpy(g_known[g_nknown], e, len);
            g_known[g_nknown][len] = 0;
            g_nknown++;
        }
        e += len;
        if (*e == ',') {
            e++;
        }
    }
}

bool vf_known(const char *id) {
    if (!g_known_loaded) {
        known_load();
    }
    for (size_t i = 0; i < g_nknown; i++) {
        if (strcmp(g_known[i], id) == 0) {
            g_known_hits[i]++;
            return true;
        }
    }
    return false;
}

/* ------------------------------------------------------------- environment */
int vf_tier(void) {
    static int t = -1;
    if (t < 0) {
        const char *e = getenv("VF_TIER");
        if (!e) {
            e = getenv("VERIF_TIER");
        }
        t = (e && strcmp(e, "thorough") == 0) ? 1 : 0;
    }
    return t;
}
const char *vf_config(void) {
    return VF_CONFIG;
}
int vf_have_asan(void) {
    return VF_ASAN;
}

const char *vf_sweep_name(void) {
    const char *e = getenv("VF_SWEEP_NAME");
    return e ? e : "";
}
void vf_sweep_part(uint64_t *part, uint64_t *parts) {
    const char *a = getenv("VF_SWEEP_PART"), *b = getenv("VF_SWEEP_PARTS");
    *part = a ? strtoull(a, NULL, 10) : 0;
    *parts = b ? strtoull(b, NULL, 10) : 1;
    if (*parts == 0) {
        *parts = 1;
    }
    if (*part >= *parts) {
        *part = 0;
    }
}

/* ------------------------------------------------------- exact-size buffers */
#define VF_TAIL 32
#define VF_HDR 32
void *vf_exact_alloc(size_t n) {
#if VF_ASAN
    void *p = malloc(n ? n : 1);
    if (!p) {
        abort();
    }
    return p;
#else
    uint8_t *b = (uint8_t *)malloc(VF_HDR + n + VF_TAIL);
    if (!b) {
        abort();
    }
    memcpy(b, &n, sizeof(n));
    memset(b + sizeof(n), 0xA5, VF_HDR - sizeof(n));
    memset(b + VF_HDR + n, 0xA5, VF_TAIL);
    return b + VF_HDR;
#endif
}
size_t vf_exact_check(const void *p) {
#if VF_ASAN
    (void)p;
    return 0;
#else
    const uint8_t *b = (const uint8_t *)p - VF_HDR;
    size_t n;
    memcpy(&n, b, sizeof(n));
    for (size_t i = 0; i < VF_TAIL; i++) {
        if (b[VF_HDR + n + i] != 0xA5) {
            return i + 1;
        }
    }
    for (size_t i = sizeof(n); i < VF_HDR; i++) {
        if (b[i] != 0xA5) {
            return VF_TAIL + 1;
        }
    }
    return 0;
#endif
}
void vf_exact_free(void *p) {
    if (!p) {
        return;
    }
#if VF_ASAN
    free(p);
#else
    free((uint8_t *)p - VF_HDR);
#endif
}

/* ----------------------------------------------------------------- samples */
#define MAXSAMPLES 12
static char *g_samples[MAXSAMPLES];
static size_t g_nsamples;
static uint64_t g_nt_cases;

static void sample_maybe(const vf_report *rep) {
    g_nt_cases++;
    /* keep nontrivial cases number 1,2,3 and then every power of 4 */
    int keep = g_nt_cases <= 3;
    if (!keep) {
        uint64_t x = g_nt_cases;
        keep = (x & (x - 1)) == 0 && (__builtin_ctzll(x) % 2 == 0);
    }
    if (keep && g_nsamples < MAXSAMPLES && rep->desclen) {
        g_samples[g_nsamples++] = strdup(rep->desc);
    }
}

/* ------------------------------------------------------------------ driver */
static const uint8_t *g_cur;
static size_t g_curlen;
static const char *g_engine = "?";
static int g_finished;
static unsigned g_case_timeout;

void vf_save_case(const char *path, const uint8_t *data, size_t size) {
    int fd = open(path, O_WRONLY | O_CREAT | O_TRUNC, 0644);
    if (fd < 0) {
        return;
    }
    size_t off = 0;
    while (off < size) {
        ssize_t w = write(fd, data + off, size - off);
        if (w <= 0) {
            break;
        }
        off += (size_t)w;
    }
    close(fd);
}

static void json_str(FILE *f, const char *s) {
    fputc('"', f);
    for (; *s; s++) {
        unsigned char c = (unsigned char)*s;
        if (c == '"' || c == '\\') {
            fputc('\\', f);
            fputc(c, f);
        } else if (c < 0x20) {
            fprintf(f, "\\u%04x", c);
        } else {
            fputc(c, f);
        }
    }
    fputc('"', f);
}

static FILE *g_dump;
static unsigned g_dump_every = 1;
static uint64_t g_dump_max = 200000, g_dumped;

void vf_finish(void) {
    if (g_finished) {
        return;
    }
    g_finished = 1;
    if (g_dump) {
        fclose(g_dump);
        g_dump = NULL;
    }
    const char *path = getenv("VF_STATS");
    if (!path) {
        return;
    }
    FILE *f = fopen(path, "w");
    if (!f) {
        return;
    }
    fprintf(f, "{\"prop\":\"%s\",\"engine\":\"%s\",\"config\":\"%s\",",
            vf_prop_id, g_engine, VF_CONFIG);
    fprintf(f,
            "\"cases\":%llu,\"evals\":%llu,\"nontrivial_hits\":%llu,"
            "\"distinct_nontrivial\":%llu,\"saturated\":%d,\"discards\":%llu,"
            "\"violations\":%llu,",
            (unsigned long long)g_cases, (unsigned long long)g_evals,
            (unsigned long long)g_nontrivial_hits, (unsigned long long)g_setn,
            g_set_saturated, (unsigned long long)g_discards,
            (unsigned long long)g_violations);
    fprintf(f, "\"classes\":{");
    for (size_t i = 0; i < g_nclass; i++) {
        if (i) {
            fputc(',', f);
        }
        json_str(f, g_class[i].name);
        fprintf(f, ":%llu", (unsigned long long)g_class[i].n);
    }
    fprintf(f, "},\"excluded_known\":{");
    for (size_t i = 0; i < g_nknown; i++) {
        if (i) {
            fputc(',', f);
        }
        json_str(f, g_known[i]);
        fprintf(f, ":%llu", (unsigned long long)g_known_hits[i]);
    }
    fprintf(f, "},\"samples\":[");
    for (size_t i = 0; i < g_nsamples; i++) {
        if (i) {
            fputc(',', f);
        }
        json_str(f, g_samples[i]);
    }
    fprintf(f, "]}\n");
    fclose(f);
    /* distinct hashes for the cross-worker union */
    char hp[4096];
    snprintf(hp, sizeof(hp), "%s.h64", path);
    FILE *h = fopen(hp, "wb");
    if (h) {
        for (size_t i = 0; i < g_setcap; i++) {
            if (g_set && g_set[i]) {
                fwrite(&g_set[i], sizeof(uint64_t), 1, h);
            }
        }
        fclose(h);
    }
}

#include <sys/syscall.h>
/* The in-flight case is written with raw system calls: the handler may run on
 * a corrupted heap (glibc aborting inside free) where stdio/malloc fault
 * again, and ThreadSanitizer runs the death callback while the reporting thread holds
 * runtime locks; anything instrumented or intercepted (stdio, malloc, even
 * plain memory accesses that roll the trace over) can deadlock there. So under
 * TSan the in-flight case is written with raw system calls from uninstrumented
 * code and the statistics of the dying worker are dropped. */
#if VF_TSAN
__attribute__((no_sanitize("thread")))
#endif
static void raw_save(const char *path, const char *suffix, const void *data,
                     size_t size) {
    char full[4200];
    size_t n = 0;
    while (path[n] && n < 4096) {
        full[n] = path[n];
        n++;
    }
    for (size_t i = 0; suffix[i] && n < sizeof(full) - 1; i++) {
        full[n++] = suffix[i];
    }
    full[n] = 0;
    long fd = syscall(SYS_openat, AT_FDCWD, full, O_WRONLY | O_CREAT | O_TRUNC,
                      0644);
    if (fd < 0) {
        return;
    }
    const char *p = (const char *)data;
    while (size) {
        long w = syscall(SYS_write, fd, p, size);
        if (w <= 0) {
            break;
        }
        p += w;
        size -= (size_t)w;
    }
    syscall(SYS_close, fd);
}

#if VF_TSAN
__attribute__((no_sanitize("thread")))
#endif
static void crash_dump(const char *why) {
    static volatile sig_atomic_t once;
    if (once) {
        return;
    }
    once = 1;
    {
        /* first, with raw system calls only: the case must reach the disk even
         * if everything below faults again */
        const char *path = getenv("VF_CRASH");
        if (path && g_cur) {
            size_t wl = 0;
            while (why[wl]) {
                wl++;
            }
            raw_save(path, "", g_cur, g_curlen);
            raw_save(path, ".why", why, wl);
        }
#if VF_TSAN
        return; /* no stdio under the TSan death callback */
#endif
    }
    g_violations++;
    vf_finish(); /* statistics of the dying worker; may fault on a bad heap */
}

static void on_signal(int sig) {
    char why[64];
    snprintf(why, sizeof(why), "signal %d%s", sig,
             sig == SIGALRM ? " (per-case timeout)" : "");
    crash_dump(why);
    if (sig == SIGALRM) {
        _exit(98);
    }
    signal(sig, SIG_DFL);
    raise(sig);
    _exit(99);
}

static void on_san_death(void) {
    crash_dump("sanitizer report");
}

void __sanitizer_set_death_callback(void (*cb)(void)) __attribute__((weak));

void vf_init(const char *engine) {
    g_engine = engine;
    bound_init();
    const char *e = getenv("VF_SETMAX");
    if (e) {
        size_t m = (size_t)strtoull(e, NULL, 10);
        size_t c = 1 << 12;
        while (c < m) {
            c <<= 1;
        }
        g_setmax = c;
    }
    e = getenv("VF_DUMP_CASES");
    if (e) {
        g_dump = fopen(e, "wb");
        const char *k = getenv("VF_DUMP_EVERY");
        if (k && atoi(k) > 0) {
            g_dump_every = (unsigned)atoi(k);
        }
        k = getenv("VF_DUMP_MAX");
        if (k) {
            g_dump_max = strtoull(k, NULL, 10);
        }
    }
    e = getenv("VF_CASE_TIMEOUT");
    if (e) {
        g_case_timeout = (unsigned)atoi(e);
    }
    if (!getenv("VF_NO_SIGNALS")) {
#if VF_ASAN
        /* ASan reports SEGV/BUS/FPE itself and then runs the death callback */
        int sigs[] = {SIGILL, SIGABRT, SIGALRM};
#else
        int sigs[] = {SIGSEGV, SIGBUS, SIGFPE, SIGILL, SIGABRT, SIGALRM};
#endif
        for (size_t i = 0; i < sizeof(sigs) / sizeof(sigs[0]); i++) {
            struct sigaction sa;
            memset(&sa, 0, sizeof(sa));
            sa.sa_handler = on_signal;
            sa.sa_flags = SA_NODEFER;
            sigaction(sigs[i], &sa, NULL);
        }
        if (__sanitizer_set_death_callback) {
            __sanitizer_set_death_callback(on_san_death);
        }
    }
}

/* optional case dump: every VF_DUMP_EVERY-th executed case is appended to
 * VF_DUMP_CASES as [u32 length][bytes], so configurations that cannot link the
 * generating library (MSan) replay exactly the generated cases */

static void dump_case(const uint8_t *data, size_t size) {
    if (g_dumped >= g_dump_max || (g_cases % g_dump_every) != 0) {
        return;
    }
    uint32_t n = (uint32_t)size;
    fwrite(&n, sizeof(n), 1, g_dump);
    fwrite(data, 1, size, g_dump);
    g_dumped++;
}

int vf_run_case(const uint8_t *data, size_t size, vf_report *rep) {
    if (g_dump) {
        dump_case(data, size);
    }
    memset(rep, 0, offsetof(vf_report, desc));
    rep->desc[0] = 0;
    rep->desclen = 0;
    g_cur = data;
    g_curlen = size;
    g_case_nontrivial = 0;
    g_cases++;
    g_evals++;
    vf_rd r = {data, size, 0};
    if (g_case_timeout) {
        alarm(g_case_timeout);
    }
    vf_run(&r, rep);
    if (g_case_timeout) {
        alarm(0);
    }
    if (g_case_nontrivial) {
        sample_maybe(rep);
    }
    if (rep->violated) {
        g_violations++;
    }
    g_cur = NULL;
    return rep->violated;
}

int vf_run_sweep(vf_report *rep) {
    memset(rep, 0, sizeof(*rep));
    if (vf_sweep) {
        vf_sweep(rep);
    }
    if (rep->violated) {
        g_violations++;
    }
    return rep->violated;
}
