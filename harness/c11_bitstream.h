/* c11_bitstream.h - interface between the C11 harness and its per-word-type
 * instantiations of /repo/src/varintBitstream.h (one translation unit per
 * (VBITS, VBITSVAL) pair: the header defines static functions for the types
 * that are configured before it is included). */
#ifndef C11_BITSTREAM_H
#define C11_BITSTREAM_H
#include <stddef.h>
#include <stdint.h>

typedef struct c11_ops {
    const char *name; /* "u64", "u32", ... */
    unsigned W;       /* bits per word */
    void (*set)(void *stream, size_t bitOffset, size_t bits, uint64_t value);
    uint64_t (*get)(const void *stream, size_t bitOffset, size_t bits);
    /* documented use (examples/standalone/example_bitstream.c):
     *   vbitsVal x = (vbitsVal)negative; _varintBitstreamPrepareSigned(x, bits)
     *   vbitsVal y = stored; _varintBitstreamRestoreSigned(y, bits); (signed)y */
    uint64_t (*prepare)(int64_t negative, unsigned bits);
    int64_t (*restore)(uint64_t stored, unsigned bits);
} c11_ops;

extern const c11_ops c11_ops_u64, c11_ops_u32, c11_ops_u16, c11_ops_u8;

#endif
