/* C03 - encoders never write more than their advertised size.
 *
 * case layout:  family:1  param:1  size:1  array-descriptor (vf_arr.h)
 *               [worst-case arguments]  [float: mode:1 err:1]
 *
 *   family % F_COUNT   delta, rle, eliasGamma, eliasDelta, bp128, adaptive,
 *                      float, for, pfor, group, dict
 *   param & 7          variant inside the family (entry point / sizing
 *                      function / threshold / precision, see run_family)
 *   param >> 3         0..10 none, then three selector values for each
 *                      worst-case class laid over the generic array:
 *                      1 all elements maximal width, 2 all-distinct
 *                      9-byte values, 3 alternating huge/low, 4 small cluster
 *                      with 9-byte outliers at the last indices, 5 blocks of
 *                      64-bit-wide values (1/2/127/128/129/... elements),
 *                      6 every stride-th element equal and the rest distinct
 *                      (what misleads the adaptive sampler above 10000
 *                      elements), 7 first value needs 9 tagged bytes
 *   size               low nibble 15: large length cap; value 0x10: count 0
 *                      (only where the code handles count == 0 explicitly)
 *
 * adaptive "large" sub-mode (family adaptive, class 6, size & 0xF0 == 0xF0 on
 * the quick tier / size & 0xE0 == 0xE0 on the thorough tier): no generic array
 * is read; the case continues with
 *               count:1[+2] layout:1[+1] distinct:1[+2] palette:1 mul:1 values
 * and builds an array of 10001..141071 elements in which every k-th element
 * (k in 1..20, any phase; by default k = the sampler's stride, phase 0) comes
 * from a palette of 1..4 values and the others cycle through a pool of D
 * distinct values of one tagged width class (1..9 bytes), D chosen per
 * dictionary index width (<= 256, 257..65536, > 65536, or as many as there are
 * positions); optionally the roles are swapped (pool on every k-th element,
 * so that the sample sees more distinct values than the array has in
 * proportion); unsorted, ascending or descending.  This is the class on which the 1-in-10
 * uniqueness sample and the true distinct count disagree, which is where the
 * adaptive bound depends on the encoder's own confirmation of its choice.
 *
 * oracle, per encoder call, with N from the matching sizing function:
 *   pass 1  encode into N + slack bytes pre-filled with a pattern: returned
 *           length <= N (kind "bound"), no byte at offset >= N changed (kind
 *           "overrun"), returned == N where the predictor is documented as
 *           exact (kind "exact").  This pass exists so that a violation is
 *           attributed to a named site and shrunk by rapidcheck instead of
 *           killing the process.
 *   pass 2  encode into vf_exact_alloc(N): ASan redzone (asan) / canary tail
 *           (rel, kind "canary") placed exactly at the advertised size.
 */
#include "vf.h"
#include "vf_arr.h"

#include "varintAdaptive.h"
#include "varintBP128.h"
#include "varintDelta.h"
#include "varintDict.h"
#include "varintElias.h"
#include "varintFOR.h"
#include "varintFloat.h"
#include "varintGroup.h"
#include "varintPFOR.h"
#include "varintRLE.h"
#include "varintTagged.h"

const char *vf_prop_id = "C03";
const size_t vf_case_maxlen = 200;

enum {
    F_DELTA = 0,
    F_RLE,
    F_ELIAS_GAMMA,
    F_ELIAS_DELTA,
    F_BP128,
    F_ADAPTIVE,
    F_FLOAT,
    F_FOR,
    F_PFOR,
    F_GROUP,
    F_DICT,
    F_COUNT
};
static const char *const fam_name[F_COUNT] = {
    "delta", "rle",   "eliasGamma", "eliasDelta", "bp128", "adaptive",
    "float", "for",   "pfor",       "group",      "dict"};

enum {
    W_NONE = 0,
    W_MAXWIDTH,
    W_DISTINCT9,
    W_ALTERNATE,
    W_TAIL_OUTLIERS,
    W_BLOCKS64,
    W_FOOL,
    W_FIRST9,
    W_COUNT
};
static const char *const wc_name[W_COUNT] = {
    "none",         "maxWidth", "distinct9", "alternate",
    "tailOutliers", "blocks64", "fool",      "first9"};

#define TWO56 (1ULL << 56) /* smallest value needing 9 tagged bytes */

/* ------------------------------------------------------------ encoder call */
typedef struct ectx {
    const uint64_t *v;
    size_t n;
    const int64_t *sv;
    const uint32_t *v32;
    const double *dv;
    unsigned variant;
    /* family specific */
    varintFORMeta forMeta; /* analysed (or zeroed) metadata handed in */
    uint32_t thr;
    varintFloatPrecision prec;
    varintFloatEncodingMode fmode;
    double relerr;
    const varintDict *dict;
    int withMeta;
    /* outputs of the last call */
    varintAdaptiveEncodingType sel;
    uint32_t exceptions;
} ectx;

typedef size_t (*enc_fn)(uint8_t *dst, ectx *c);

/* #24 of DESIGN section 6 (uninitialised forMeta in varintAdaptiveEncodeWith,
 * property C15) makes the adaptive encoder depend on stack residue.  This
 * check is about bounds, so the residue is pinned to zero before every
 * adaptive call: forMeta.count == 0 never equals a non-zero count, i.e. the
 * encoder always analyses the input, on the unrepaired tree too. */
static __attribute__((noinline)) void scrub_stack(void) {
    volatile uint8_t pad[12288];
    for (size_t i = 0; i < sizeof(pad); i++) {
        pad[i] = 0;
    }
}

#define FILL 0xC3

/* Runs `fn` twice (see file comment).  Returns the encoder's length, or
 * SIZE_MAX after a violation was recorded. */
static size_t check_bound(vf_report *rep, const char *site, size_t N, int exact,
                          enc_fn fn, ectx *c, const char *what) {
    /* slack large enough for every over-run seen or planted so far (adaptive
     * DICT from a fooled sample needs ~12 bytes per element against 9) */
    size_t slack = N + 8 * c->n + 256;
    uint8_t *big = (uint8_t *)malloc(N + slack);
    if (!big) {
        abort();
    }
    memset(big, FILL, N + slack);
    size_t r = fn(big, c);
    size_t hi = 0; /* one past the highest changed byte at offset >= N */
    for (size_t i = N + slack; i > N; i--) {
        if (big[i - 1] != FILL) {
            hi = i;
            break;
        }
    }
    free(big);
    /* development aid: VF_C03_PASS2ONLY=1 leaves the verdict to the exact-size
     * pass (used to confirm that the redzone / canary oracle fires) */
    static int pass2only = -1;
    if (pass2only < 0) {
        const char *e = getenv("VF_C03_PASS2ONLY");
        pass2only = e && *e == '1';
    }
    if (pass2only) {
        r = 0;
        hi = 0;
        exact = 0;
    }
    if (r > N) {
        vf_fail(rep, site, "bound",
                "%s: encoder returned %zu bytes, advertised size is %zu "
                "(count=%zu)",
                what, r, N, c->n);
        return SIZE_MAX;
    }
    if (hi) {
        vf_fail(rep, site, "overrun",
                "%s: byte at offset %zu written, advertised size is %zu, "
                "returned length %zu (count=%zu)",
                what, hi - 1, N, r, c->n);
        return SIZE_MAX;
    }
    if (exact && r != N) {
        vf_fail(rep, site, "exact",
                "%s: encoder returned %zu bytes, predictor documented as "
                "exact says %zu (count=%zu)",
                what, r, N, c->n);
        return SIZE_MAX;
    }
    uint8_t *dst = (uint8_t *)vf_exact_alloc(N);
    size_t r2 = fn(dst, c);
    size_t bad = vf_exact_check(dst);
    vf_exact_free(dst);
    if (bad) {
        vf_fail(rep, site, "canary",
                "%s: guard byte %zu after the %zu advertised bytes damaged, "
                "returned length %zu (count=%zu)",
                what, bad, N, r2, c->n);
        return SIZE_MAX;
    }
    if (r2 > N) {
        vf_fail(rep, site, "bound",
                "%s: encoder returned %zu bytes into an exact buffer, "
                "advertised size is %zu (count=%zu)",
                what, r2, N, c->n);
        return SIZE_MAX;
    }
    return r;
}

/* ---------------------------------------------------------------- encoders */
static size_t e_delta_signed(uint8_t *d, ectx *c) {
    return varintDeltaEncode(d, c->sv, c->n);
}
static size_t e_delta_unsigned(uint8_t *d, ectx *c) {
    return varintDeltaEncodeUnsigned(d, c->v, c->n);
}
static size_t e_rle_plain(uint8_t *d, ectx *c) {
    varintRLEMeta m;
    return varintRLEEncode(d, c->v, c->n, c->withMeta ? &m : NULL);
}
static size_t e_rle_header(uint8_t *d, ectx *c) {
    varintRLEMeta m;
    return varintRLEEncodeWithHeader(d, c->v, c->n, c->withMeta ? &m : NULL);
}
static size_t e_elias_gamma(uint8_t *d, ectx *c) {
    varintEliasMeta m;
    return varintEliasGammaEncodeArray(d, c->v, c->n, c->withMeta ? &m : NULL);
}
static size_t e_elias_delta(uint8_t *d, ectx *c) {
    varintEliasMeta m;
    return varintEliasDeltaEncodeArray(d, c->v, c->n, c->withMeta ? &m : NULL);
}
static size_t e_bp_32(uint8_t *d, ectx *c) {
    varintBP128Meta m;
    return varintBP128Encode32(d, c->v32, c->n, c->withMeta ? &m : NULL);
}
static size_t e_bp_64(uint8_t *d, ectx *c) {
    varintBP128Meta m;
    return varintBP128Encode64(d, c->v, c->n, c->withMeta ? &m : NULL);
}
static size_t e_bp_d32(uint8_t *d, ectx *c) {
    varintBP128Meta m;
    return varintBP128DeltaEncode32(d, c->v32, c->n, c->withMeta ? &m : NULL);
}
static size_t e_bp_d64(uint8_t *d, ectx *c) {
    varintBP128Meta m;
    return varintBP128DeltaEncode64(d, c->v, c->n, c->withMeta ? &m : NULL);
}
static size_t e_adaptive(uint8_t *d, ectx *c) {
    varintAdaptiveMeta m;
    memset(&m, 0, sizeof(m));
    m.encodingType = VARINT_ADAPTIVE_TAGGED;
    scrub_stack();
    size_t r = varintAdaptiveEncode(d, c->v, c->n, &m);
    c->sel = m.encodingType;
    return r;
}
static size_t e_float(uint8_t *d, ectx *c) {
    return varintFloatEncode(d, c->dv, c->n, c->prec, c->fmode);
}
static size_t e_float_auto(uint8_t *d, ectx *c) {
    varintFloatPrecision sel = VARINT_FLOAT_PRECISION_FULL;
    return varintFloatEncodeAuto(d, c->dv, c->n, c->relerr, c->fmode,
                                 c->withMeta ? &sel : NULL);
}
static size_t e_for(uint8_t *d, ectx *c) {
    varintFORMeta m = c->forMeta; /* analysed, or zero = "not analysed" */
    return varintFOREncode(d, c->v, c->n, c->withMeta ? &m : NULL);
}
static size_t e_for_batch(uint8_t *d, ectx *c) {
    varintFORMeta m = c->forMeta;
    return varintFORBatchEncode(d, c->v, c->n, c->withMeta ? &m : NULL);
}
static size_t e_pfor(uint8_t *d, ectx *c) {
    varintPFORMeta m;
    memset(&m, 0, sizeof(m));
    size_t r = varintPFOREncode(d, c->v, (uint32_t)c->n, c->thr, &m);
    c->exceptions = m.exceptionCount;
    return r;
}
static size_t e_group(uint8_t *d, ectx *c) {
    return varintGroupEncode(d, c->v, (uint8_t)c->n);
}
static size_t e_dict(uint8_t *d, ectx *c) {
    return varintDictEncode(d, c->v, c->n);
}
static size_t e_dict_with(uint8_t *d, ectx *c) {
    return varintDictEncodeWithDict(d, c->dict, c->v, c->n);
}

/* ------------------------------------------------------------- array tools */
static uint64_t mask_bits(unsigned bits) {
    return bits >= 64 ? UINT64_MAX : ((1ULL << bits) - 1);
}
static int cmp_u64(const void *a, const void *b) {
    uint64_t x = *(const uint64_t *)a, y = *(const uint64_t *)b;
    return x < y ? -1 : x > y;
}
static void arr_resize(vf_arr *a, size_t n) {
    uint64_t *p = (uint64_t *)realloc(a->v, (n ? n : 1) * sizeof(uint64_t));
    if (!p) {
        abort();
    }
    for (size_t i = a->n; i < n; i++) {
        p[i] = 0;
    }
    a->v = p;
    a->n = n;
}
/* domain modifiers, applied again after a worst-case overlay */
static void apply_domain(vf_arr *a, unsigned flags) {
    uint64_t *v = a->v;
    size_t n = a->n;
    if (flags & VF_ARR_SDELTA) {
        /* every value within [-2^62, 2^62-1] as int64: all consecutive
         * differences are representable */
        for (size_t i = 0; i < n; i++) {
            int64_t s = (int64_t)v[i];
            if (s >= (int64_t)(1ULL << 62) || s < -(int64_t)(1ULL << 62)) {
                s >>= 2;
            }
            if (s >= (int64_t)(1ULL << 62)) {
                s = (int64_t)(1ULL << 62) - 1;
            }
            v[i] = (uint64_t)s;
        }
    }
    if (flags & VF_ARR_U32) {
        for (size_t i = 0; i < n; i++) {
            if (v[i] > 0xffffffffULL) {
                v[i] = (v[i] >> 56) & 1 ? 0xffffffffULL - (v[i] & 0xff)
                                        : (v[i] & 0xffffffffULL);
            }
        }
    }
    if (flags & VF_ARR_GE1) {
        for (size_t i = 0; i < n; i++) {
            if (v[i] == 0) {
                v[i] = 1;
            }
        }
    }
    if (flags & VF_ARR_SORTED) {
        qsort(v, n, sizeof(*v), cmp_u64);
    }
}

/* the adaptive sampler's stride for a count above 10000 (every stride-th
 * element is sampled; documented in varintAdaptiveCountUnique's comment) */
static size_t sampler_stride(size_t n) {
    size_t sample = n / 10;
    if (sample < 100) {
        sample = 100;
    }
    size_t st = n / sample;
    return st ? st : 1;
}

typedef struct wcinfo {
    unsigned wc;
    char note[160];
} wcinfo;

/* ----------------------------------------------- adaptive "large" sub-mode */
/* tagged width classes (sqlite4 varint: 240 / 2287 / 67823, then one byte
 * more per 8 bits); tw_bits = log2 of the largest power of two that fits in
 * the class, so that lo + (q * odd mod 2^bits) is injective and stays inside */
static const uint64_t tw_lo[10] = {0,          0,          241,        2288,
                                   67824,      1ULL << 24, 1ULL << 32, 1ULL << 40,
                                   1ULL << 48, 1ULL << 56};
static const uint64_t tw_hi[10] = {0,
                                   240,
                                   2287,
                                   67823,
                                   (1ULL << 24) - 1,
                                   (1ULL << 32) - 1,
                                   (1ULL << 40) - 1,
                                   (1ULL << 48) - 1,
                                   (1ULL << 56) - 1,
                                   UINT64_MAX};
static const unsigned tw_bits[10] = {0, 7, 10, 16, 23, 31, 39, 47, 55, 63};

typedef struct largeinfo {
    int on;
    unsigned tw;     /* tagged width class of the pool values */
    unsigned k;      /* every k-th element ... */
    unsigned phase;  /* ... at this phase ... */
    int invert;      /* 0: ... is a palette value; 1: is a pool value */
    unsigned order;  /* 0 unsorted, 1 ascending, 2 descending */
    unsigned npal;
    size_t pool;     /* distinct pool values laid out */
    size_t distinct; /* true number of distinct values (by sorting) */
    size_t sampleDistinct, sampleSize; /* what an every-stride-th sample sees */
} largeinfo;

static void take_large(vf_rd *r, vf_arr *a, wcinfo *wi, largeinfo *li) {
    /* counts: the sampling threshold, the lengths at which n - n/10 distinct
     * values cross 65536 (72818 / 72819) and n itself does (65536 / 65537),
     * lengths that are not a multiple of the stride, and free choices */
    static const uint32_t counts[14] = {10001, 100000, 72819, 80000, 73000,
                                        131072, 140000, 90009, 10010, 20000,
                                        40000, 65536, 65537, 72818};
    uint8_t cb = vf_u8(r);
    size_t n;
    switch (cb & 15) {
    case 14:
        n = 72819 + (size_t)vf_u16(r);
        break;
    case 15:
        n = 10001 + 2 * (size_t)vf_u16(r);
        break;
    default:
        n = counts[cb & 15];
        break;
    }
    unsigned ob = (cb >> 4) & 7;
    unsigned order = ob < 6 ? 0 : ob - 5;
    int palWide = cb >> 7;

    size_t stride = sampler_stride(n);
    uint8_t lb = vf_u8(r);
    unsigned k = (unsigned)stride, phase = 0;
    int invert = 0;
    if ((lb & 3) == 3) {
        uint8_t pb = vf_u8(r);
        invert = pb >> 7;
        if ((pb & 0xC0) != 0xC0) {
            /* any k and phase; the remaining quarter is the mirror image of
             * the default: the sample sees only pool values */
            k = 1 + (lb >> 2) % 20;
            phase = (pb & 31) % k;
        }
    }

    static const uint8_t widths[16] = {9, 8, 7, 6, 9, 8, 7, 6,
                                       9, 8, 7, 6, 5, 4, 3, 2};
    uint8_t db = vf_u8(r);
    unsigned tw = widths[(db >> 3) & 15];
    int fromTop = db >> 7;
    if (tw == 2 && fromTop) {
        tw = 1; /* the one-byte class takes the place of "2 from the top" */
        fromTop = 0;
    }
    /* pool positions */
    size_t npalpos = 0;
    for (size_t i = 0; i < n; i++) {
        npalpos += ((i % k) == phase) != invert;
    }
    size_t npool = n - npalpos;
    size_t D = npool;
    switch (db & 7) {
    case 4:
        D = 1 + vf_u16(r) % 256;
        break;
    case 5:
        D = 257 + vf_u16(r) % 65280;
        break;
    case 6:
    case 7: {
        uint64_t da = vf_u16(r);
        D = npool > 65537 ? 65537 + (size_t)((da * (npool - 65536)) >> 16)
                          : npool;
        break;
    }
    default:
        break;
    }
    if (D > npool) {
        D = npool;
    }
    if (tw_bits[tw] < 30 && D > ((size_t)1 << tw_bits[tw])) {
        D = (size_t)1 << tw_bits[tw]; /* capacity of the narrow classes */
    }
    uint8_t pbyte = vf_u8(r);
    unsigned npal = 1 + (pbyte & 3);
    uint8_t t = vf_u8(r);
    uint64_t mul =
        t ? ((((uint64_t)t << 1) | 1) * 0x9e3779b97f4a7c15ULL) | 1 : 1;
    uint64_t pal[4] = {0, 0, 0, 0};
    for (unsigned j = 0; j < npal; j++) {
        pal[j] = vf_u64(r);
        if (!palWide && pal[j] > tw_hi[tw]) {
            pal[j] &= mask_bits(tw_bits[tw]); /* not wider than the pool */
        }
    }

    arr_resize(a, n);
    uint64_t m = mask_bits(tw_bits[tw]);
    size_t qp = 0, qd = 0; /* running palette / pool ordinals */
    for (size_t i = 0; i < n; i++) {
        if ((((i % k) == phase) != invert) || D == 0) {
            a->v[i] = pal[qp++ % npal];
        } else {
            uint64_t off = ((uint64_t)(qd++ % D) * mul) & m;
            a->v[i] = fromTop ? tw_hi[tw] - off : tw_lo[tw] + off;
        }
    }
    if (order) {
        qsort(a->v, n, sizeof(*a->v), cmp_u64);
        if (order == 2) {
            for (size_t i = 0, j = n - 1; i < j; i++, j--) {
                uint64_t x = a->v[i];
                a->v[i] = a->v[j];
                a->v[j] = x;
            }
        }
    }
    a->shape = VF_SH_SAMPLER_FOOL;
    a->lenclass = 1;
    snprintf(a->desc, sizeof(a->desc), "large n=%zu", n);

    li->on = 1;
    li->tw = tw;
    li->k = k;
    li->phase = phase;
    li->invert = invert;
    li->order = order;
    li->npal = npal;
    li->pool = D;
    wi->wc = W_FOOL;
    snprintf(wi->note, sizeof(wi->note),
             "large n=%zu every %u-th(phase %u)=%s of %u, others=%s: %zu "
             "distinct %u-byte values %s, mul=%u, %s",
             n, k, phase, invert ? "pool" : "palette", npal,
             invert ? "palette" : "pool", D, tw, fromTop ? "from top" : "from "
             "bottom", (unsigned)t,
             order == 0 ? "unsorted" : order == 1 ? "ascending" : "descending");
}

/* Harness-side view of a large adaptive input, for the class counters only:
 * the true number of distinct values and the number an every-stride-th sample
 * of count/10 elements sees (the rule documented in varintAdaptiveCountUnique;
 * sorted input is counted exactly by the library). */
static size_t count_distinct_sorted(uint64_t *v, size_t n) {
    qsort(v, n, sizeof(*v), cmp_u64);
    size_t d = n ? 1 : 0;
    for (size_t i = 1; i < n; i++) {
        d += v[i] != v[i - 1];
    }
    return d;
}
static void large_measure(const vf_arr *a, largeinfo *li) {
    size_t n = a->n;
    uint64_t *tmp = (uint64_t *)malloc((n ? n : 1) * sizeof(uint64_t));
    if (!tmp) {
        abort();
    }
    size_t ss = n / 10 < 100 ? 100 : n / 10;
    size_t st = sampler_stride(n);
    if (ss > n) {
        ss = n;
    }
    for (size_t i = 0; i < ss; i++) {
        tmp[i] = a->v[(i * st) % (n ? n : 1)];
    }
    li->sampleSize = ss;
    li->sampleDistinct = count_distinct_sorted(tmp, ss);
    memcpy(tmp, a->v, n * sizeof(uint64_t));
    li->distinct = count_distinct_sorted(tmp, n);
    free(tmp);
}
/* class counters of a large adaptive case; `sel` is the encoding the library
 * reported, r / N the returned and the advertised length */
static void large_classes(const vf_arr *a, const largeinfo *li, unsigned sel,
                          size_t r, size_t N) {
    static const char *const seln[8] = {"DELTA",  "FOR",    "PFOR", "DICT",
                                        "BITMAP", "TAGGED", "GROUP", "?"};
    char b[96];
    size_t n = a->n;
    vf_class("adaptive.large");
    unsigned idx = li->distinct <= 256 ? 1 : li->distinct <= 65536 ? 2 : 3;
    snprintf(b, sizeof(b), "adaptive.large.idx%u", idx);
    vf_class(b);
    snprintf(b, sizeof(b), "adaptive.large.tag%u", li->tw);
    vf_class(b);
    vf_class(n <= 65536   ? "adaptive.large.n<=65536"
             : n <= 72818 ? "adaptive.large.n65537-72818"
                          : "adaptive.large.n>72818");
    vf_class(li->order == 0   ? "adaptive.large.unsorted"
             : li->order == 1 ? "adaptive.large.ascending"
                              : "adaptive.large.descending");
    if (li->invert) {
        vf_class("adaptive.large.poolOnKth");
    }
    if (li->k == sampler_stride(n) && li->phase == 0) {
        vf_class("adaptive.large.k=stride.phase0");
    } else {
        snprintf(b, sizeof(b), "adaptive.large.k%u", li->k);
        vf_class(b);
        vf_class(li->phase ? "adaptive.large.phase>0" : "adaptive.large.phase0");
    }
    /* the selector's dictionary rule is "fewer than 15 % unique" */
    int trueFew = li->distinct * 100 < n * 15;
    int sampFew = li->sampleDistinct * 100 < li->sampleSize * 15;
    const char *vis = "agree";
    if (li->order == 0) {
        vis = sampFew && !trueFew ? "under" : !sampFew && trueFew ? "over" : "agree";
    }
    snprintf(b, sizeof(b), "adaptive.large.%s", vis);
    vf_class(b);
    snprintf(b, sizeof(b), "adaptive.large.%s.idx%u", vis, idx);
    vf_class(b);
    snprintf(b, sizeof(b), "adaptive.large.%s.idx%u.tag%u", vis, idx, li->tw);
    vf_class(b);
    snprintf(b, sizeof(b), "adaptive.large.%s.sel.%s", vis, seln[sel & 7]);
    vf_class(b);
    if (r != SIZE_MAX && r * 10 >= N * 9) {
        vf_class("adaptive.large.result>=90%");
    }
}

/* lay a worst-case class over the generic array */
static void take_worst(vf_rd *r, unsigned wc, int fam, unsigned variant,
                       size_t maxlen, int bigOK, vf_arr *a, wcinfo *wi) {
    wi->wc = wc;
    wi->note[0] = 0;
    uint64_t seed = 0x243f6a8885a308d3ULL;
    switch (wc) {
    case W_MAXWIDTH: {
        unsigned kb = vf_u8(r) % 9;
        seed ^= vf_u32(r) | 1;
        for (size_t i = 0; i < a->n; i++) {
            a->v[i] = UINT64_MAX - (kb ? (vf_xs(&seed) & mask_bits(kb)) : 0);
        }
        snprintf(wi->note, sizeof(wi->note), "noisebits=%u", kb);
        break;
    }
    case W_DISTINCT9: {
        uint8_t s = vf_u8(r);
        uint64_t step = 1 + (s & 7);
        int fromTop = (s >> 3) & 1;
        int shuffle = (s >> 4) & 1;
        size_t n = a->n;
        uint64_t top = fromTop ? UINT64_MAX : TWO56 + (uint64_t)(n - 1) * step;
        for (size_t i = 0; i < n; i++) {
            /* optional fixed permutation (odd multiplier modulo n is only a
             * permutation for some n; adjacent-distinct is what matters) */
            size_t k = shuffle ? (i * 7919u) % n : i;
            a->v[i] = top - (uint64_t)k * step;
        }
        snprintf(wi->note, sizeof(wi->note), "step=%llu top=%s%s",
                 (unsigned long long)step, fromTop ? "2^64-1" : "2^56+",
                 shuffle ? " shuffled" : "");
        break;
    }
    case W_ALTERNATE: {
        static const uint64_t huge[6] = {1ULL << 63,       (1ULL << 63) - 1,
                                         1ULL << 62,       UINT64_MAX,
                                         (1ULL << 62) - 1, 0};
        uint8_t s = vf_u8(r);
        uint64_t hi = huge[s % 6];
        if (s % 6 == 5) {
            hi = vf_u64(r);
        }
        uint64_t lo = (s >> 4) & 1 ? vf_u8(r) : 0;
        if (fam == F_DELTA && (variant & 1) == 0) {
            /* signed: extremes of the representable-difference domain */
            hi = (1ULL << 62) - 1 - ((s >> 5) & 1);
            lo = (uint64_t)(-(int64_t)(1ULL << 62)) + ((s >> 6) & 1);
        }
        unsigned ph = (s >> 3) & 1;
        for (size_t i = 0; i < a->n; i++) {
            a->v[i] = ((i & 1) ^ ph) ? hi : lo;
        }
        snprintf(wi->note, sizeof(wi->note), "hi=%llu lo=%llu phase=%u",
                 (unsigned long long)hi, (unsigned long long)lo, ph);
        break;
    }
    case W_TAIL_OUTLIERS: {
        uint8_t s = vf_u8(r);
        uint8_t t = vf_u8(r);
        if (fam == F_PFOR) {
            /* make sure exception indices need 2 (3) tagged bytes */
            size_t want = (s & 1) ? 2289 + (t % 24) : 242 + (t % 24);
            if ((s & 2) == 0 && a->n < want && want <= maxlen) {
                arr_resize(a, want);
            }
        }
        if (fam == F_ADAPTIVE && (s & 2)) {
            /* the adaptive bound's own worst case: a selection whose cost is
             * close to 9 bytes per element plus a header.  A cluster spread
             * over 2^57 above a 9-byte minimum with k far outliers (fewer
             * than 5 % of the range-top) makes the selector take PFOR with
             * 8-byte offsets; 20k+1 elements is the shortest such input. */
            unsigned k = 1 + ((s >> 5) & 7);
            if (s & 1) {
                arr_resize(a, 20 * (size_t)k + 1);
            }
            size_t n = a->n;
            uint64_t base = TWO56 << (t & 7);
            uint64_t spread = 1ULL << 57;
            seed ^= vf_u32(r) | 1;
            for (size_t i = 0; i < n; i++) {
                a->v[i] = base + (vf_xs(&seed) & (spread - 1));
            }
            a->v[0] = base + spread - 1;
            if (n > 1) {
                a->v[1] = base;
            }
            for (unsigned j = 0; j < k && j + 2 < n; j++) {
                a->v[n - 1 - j] = base + spread + spread / 5 + j;
            }
            snprintf(wi->note, sizeof(wi->note),
                     "wideCluster base=2^%u spread=2^57 outliers=%u n=%zu",
                     56 + (t & 7), k, n);
            break;
        }
        size_t n = a->n;
        uint64_t base = (s & 4) ? vf_u64(r) : (uint64_t)(t >> 3);
        unsigned nb = (s >> 3) % 17;
        unsigned k = 1 + ((s >> 5) & 7);
        unsigned gap = 1 + (t & 3);
        seed ^= vf_u32(r) | 1;
        for (size_t i = 0; i < n; i++) {
            a->v[i] = base + (nb ? (vf_xs(&seed) & mask_bits(nb)) : 0);
        }
        for (unsigned j = 0; j < k; j++) {
            size_t back = (size_t)j * gap;
            if (back >= n) {
                break;
            }
            a->v[n - 1 - back] = (t & 4) ? UINT64_MAX - j : TWO56 + j;
        }
        snprintf(wi->note, sizeof(wi->note),
                 "base=%llu noisebits=%u outliers=%u gap=%u",
                 (unsigned long long)base, nb, k, gap);
        break;
    }
    case W_BLOCKS64: {
        static const uint16_t lens[10] = {1,   2,   127, 128, 129,
                                          130, 255, 256, 257, 385};
        uint8_t s = vf_u8(r);
        size_t want = lens[s % 10];
        if (fam == F_BP128 && want <= maxlen) {
            arr_resize(a, want);
        }
        size_t n = a->n;
        seed ^= vf_u32(r) | 1;
        int split = (s >> 4) & 1;
        for (size_t i = 0; i < n; i++) {
            if (split) {
                /* ascending with one 64-bit-wide step in the middle: first
                 * value needs 9 tagged bytes, one block needs width 64 */
                a->v[i] = i < (n + 1) / 2 ? TWO56 + i : UINT64_MAX - (n - 1 - i);
            } else {
                a->v[i] = (1ULL << 63) | vf_xs(&seed);
            }
        }
        snprintf(wi->note, sizeof(wi->note), "n=%zu %s", n,
                 split ? "split(2^56.., ..2^64-1)" : "bit63 set");
        break;
    }
    case W_FOOL: {
        static const uint32_t lens[6] = {10001, 10010, 12000,
                                         20000, 20001, 30000};
        uint8_t s = vf_u8(r);
        uint8_t t = vf_u8(r);
        if (fam == F_ADAPTIVE && bigOK) {
            /* fixed share of expensive cases, independent of the normal cap */
            arr_resize(a, lens[s % 6]);
        }
        size_t n = a->n;
        size_t stride = n > 10000 ? sampler_stride(n) : 10;
        unsigned npal = 1 + ((s >> 3) % 3);
        uint64_t pal[3];
        for (unsigned j = 0; j < 3; j++) {
            pal[j] = j < npal ? vf_u64(r) : 0;
        }
        /* width class of the distinct elements: 9, 8, 6 or 3 tagged bytes */
        static const unsigned topbit[4] = {63, 55, 40, 16};
        unsigned tb = topbit[(s >> 6) & 3];
        uint64_t mul = ((uint64_t)t << 1) | 1;
        for (size_t i = 0; i < n; i++) {
            if (i % stride == 0) {
                a->v[i] = pal[(i / stride) % npal];
            } else {
                a->v[i] = (1ULL << tb) | (((uint64_t)i * mul) & mask_bits(tb));
            }
        }
        snprintf(wi->note, sizeof(wi->note),
                 "n=%zu stride=%zu palette=%u distinctTopBit=%u", n, stride,
                 npal, tb);
        break;
    }
    case W_FIRST9: {
        uint8_t s = vf_u8(r);
        a->v[0] = (s & 1) ? UINT64_MAX - (s >> 1) : TWO56 + (s >> 1);
        snprintf(wi->note, sizeof(wi->note), "first=%llu",
                 (unsigned long long)a->v[0]);
        break;
    }
    default:
        wi->wc = W_NONE;
        break;
    }
}

/* --------------------------------------------------------- doubles (2.2) */
static double mk_double(uint64_t h, int expMode, unsigned expBase) {
    static const uint16_t expTab[9] = {0,    1,    2,    1022, 1023,
                                       1024, 2045, 2046, 2047};
    uint64_t sign = h & 1;
    unsigned ec = (unsigned)((h >> 1) % 10);
    unsigned mc = (unsigned)((h >> 8) % 8);
    uint64_t rnd = vf_mix(h, 0x5bd1e995);
    uint64_t e = ec < 9 ? expTab[ec] : (rnd >> 40) % 2048;
    switch (expMode) {
    case 1: /* special only: zero / subnormal / inf / NaN */
        e = (h >> 5) & 1 ? 2047 : 0;
        break;
    case 2: /* never special */
        if (e == 0) {
            e = 1;
        }
        if (e == 2047) {
            e = 2046;
        }
        break;
    case 3: /* one binade */
        e = 1 + expBase % 2046;
        break;
    case 4: /* spread <= 255 binades */
        e = 1 + (expBase % 1791) + (rnd >> 44) % 256;
        break;
    case 5: /* spread up to the whole normal range */
        e = 1 + (rnd >> 40) % 2046;
        break;
    default:
        break;
    }
    uint64_t m;
    const uint64_t all = (1ULL << 52) - 1;
    switch (mc) {
    case 0:
        m = 0;
        break;
    case 1:
        m = 1;
        break;
    case 2:
        m = all;
        break;
    case 3: /* top 4 bits set, then exactly half */
        m = (all & ~(all >> 4)) | (1ULL << (51 - 4));
        break;
    case 4:
        m = (all & ~(all >> 10)) | (1ULL << (51 - 10));
        break;
    case 5:
        m = (all & ~(all >> 23)) | (1ULL << (51 - 23));
        break;
    case 6: { /* top m bits set, random below (rounding carry) */
        static const unsigned mm[3] = {4, 10, 23};
        unsigned k = mm[(rnd >> 3) % 3];
        m = (all & ~(all >> k)) | (rnd & (all >> k));
        break;
    }
    default:
        m = rnd & all;
        break;
    }
    uint64_t bits = (sign << 63) | (e << 52) | m;
    double d;
    memcpy(&d, &bits, sizeof(d));
    return d;
}

/* ----------------------------------------------------------------- classes */
static void cls2(const char *a, const char *b) {
    char buf[96];
    snprintf(buf, sizeof(buf), "%s.%s", a, b);
    vf_class(buf);
}

typedef struct outcome {
    size_t N;
    size_t r;      /* SIZE_MAX after a violation */
    int worstData; /* data-dependent worst-case membership found here */
    unsigned sel;  /* adaptive: the encoding the library reported */
} outcome;

static void note_result(vf_report *rep, const char *site, outcome *o) {
    if (o->r == SIZE_MAX) {
        return;
    }
    cls2("site", site);
    if (o->r == o->N) {
        vf_class("result.tight");
    } else if (o->r >= o->N / 2) {
        vf_class("result.halfOrMore");
    }
    vf_desc(rep, " %s:N=%zu,r=%zu", site, o->N, o->r);
}

/* ------------------------------------------------------------------ family */
/* flags the generic generator must honour for (family, variant) */
static unsigned family_flags(int fam, unsigned variant) {
    switch (fam) {
    case F_DELTA:
        return (variant & 1) == 0 ? VF_ARR_SDELTA : 0;
    case F_ELIAS_GAMMA:
    case F_ELIAS_DELTA:
        return VF_ARR_GE1;
    case F_BP128:
        switch (variant & 3) {
        case 0:
            return VF_ARR_U32;
        case 2:
            return VF_ARR_U32 | VF_ARR_SORTED;
        case 3:
            return VF_ARR_SORTED;
        default:
            return 0;
        }
    default:
        return 0;
    }
}

/* runs the (family, variant) encoder(s) over the array; returns the outcome of
 * the principal call */
static outcome run_family(vf_report *rep, int fam, unsigned variant,
                          const vf_arr *a, unsigned fbyte, unsigned ebyte,
                          unsigned aux) {
    outcome o = {0, SIZE_MAX, 0, 7};
    ectx c;
    memset(&c, 0, sizeof(c));
    c.v = a->v;
    c.n = a->n;
    c.variant = variant;
    c.withMeta = (variant >> 2) & 1;
    size_t n = a->n;
    const char *site = "?";
    switch (fam) {
    case F_DELTA: {
        o.N = varintDeltaMaxEncodedSize(n);
        if ((variant & 1) == 0) {
            c.sv = (const int64_t *)a->v;
            site = "delta.signed";
            o.r = check_bound(rep, site, o.N, 0, e_delta_signed, &c,
                              "varintDeltaEncode vs varintDeltaMaxEncodedSize");
        } else {
            site = "delta.unsigned";
            o.r = check_bound(
                rep, site, o.N, 0, e_delta_unsigned, &c,
                "varintDeltaEncodeUnsigned vs varintDeltaMaxEncodedSize");
        }
        break;
    }
    case F_RLE: {
        switch (variant & 3) {
        case 0:
            site = "rle.plain";
            o.N = varintRLEMaxSize(n);
            o.r = check_bound(rep, site, o.N, 0, e_rle_plain, &c,
                              "varintRLEEncode vs varintRLEMaxSize");
            break;
        case 1:
        case 3:
            site = "rle.size";
            o.N = varintRLESize(a->v, n);
            o.r = check_bound(rep, site, o.N, 1, e_rle_plain, &c,
                              "varintRLEEncode vs varintRLESize");
            break;
        default:
            site = "rle.header";
            o.N = varintRLEMaxSize(n);
            o.r = check_bound(rep, site, o.N, 0, e_rle_header, &c,
                              "varintRLEEncodeWithHeader vs varintRLEMaxSize");
            break;
        }
        break;
    }
    case F_ELIAS_GAMMA:
        site = "elias.gamma";
        o.N = varintEliasGammaMaxBytes(n);
        o.r = check_bound(
            rep, site, o.N, 0, e_elias_gamma, &c,
            "varintEliasGammaEncodeArray vs varintEliasGammaMaxBytes");
        break;
    case F_ELIAS_DELTA:
        site = "elias.delta";
        o.N = varintEliasDeltaMaxBytes(n);
        o.r = check_bound(
            rep, site, o.N, 0, e_elias_delta, &c,
            "varintEliasDeltaEncodeArray vs varintEliasDeltaMaxBytes");
        break;
    case F_BP128: {
        static const char *const sites[4] = {"bp128.enc32", "bp128.enc64",
                                             "bp128.delta32", "bp128.delta64"};
        static const enc_fn fns[4] = {e_bp_32, e_bp_64, e_bp_d32, e_bp_d64};
        static const char *const what[4] = {
            "varintBP128Encode32 vs varintBP128MaxBytes",
            "varintBP128Encode64 vs varintBP128MaxBytes",
            "varintBP128DeltaEncode32 vs varintBP128MaxBytes",
            "varintBP128DeltaEncode64 vs varintBP128MaxBytes"};
        unsigned k = variant & 3;
        uint32_t *v32 = NULL;
        if (k == 0 || k == 2) {
            v32 = (uint32_t *)malloc((n ? n : 1) * sizeof(uint32_t));
            if (!v32) {
                abort();
            }
            for (size_t i = 0; i < n; i++) {
                v32[i] = (uint32_t)a->v[i];
            }
            c.v32 = v32;
        }
        site = sites[k];
        o.N = varintBP128MaxBytes(n);
        o.r = check_bound(rep, site, o.N, 0, fns[k], &c, what[k]);
        free(v32);
        if (n > VARINT_BP128_BLOCK_SIZE) {
            vf_class("bp128.blocks>=2");
        }
        break;
    }
    case F_ADAPTIVE: {
        static const char *const sel[8] = {"DELTA",  "FOR",    "PFOR", "DICT",
                                           "BITMAP", "TAGGED", "GROUP", "?"};
        site = "adaptive.auto";
        o.N = varintAdaptiveMaxSize(n);
        c.sel = VARINT_ADAPTIVE_TAGGED;
        o.r = check_bound(rep, site, o.N, 0, e_adaptive, &c,
                          "varintAdaptiveEncode vs varintAdaptiveMaxSize");
        o.sel = (unsigned)c.sel & 7;
        cls2("adaptive.sel", sel[(unsigned)c.sel & 7]);
        vf_desc(rep, " sel=%s", sel[(unsigned)c.sel & 7]);
        if (n > 10000) {
            vf_class("adaptive.count>10000");
            o.worstData = 1;
        }
        break;
    }
    case F_FLOAT: {
        double *dv = (double *)malloc((n ? n : 1) * sizeof(double));
        if (!dv) {
            abort();
        }
        int expMode = (int)((fbyte / 3) % 8);
        unsigned every = 2 + (ebyte >> 4);
        size_t special = 0;
        for (size_t i = 0; i < n; i++) {
            uint64_t h = vf_mix(a->v[i], i);
            int em = expMode;
            if (expMode == 6) { /* specials interleaved */
                em = (i % every == 0) ? 1 : 2;
            } else if (expMode == 7) {
                em = 0;
            }
            dv[i] = mk_double(h, em, (unsigned)(a->v[0] >> 3));
            special += varintFloatIsSpecial(dv[i]);
        }
        c.dv = dv;
        c.prec = (varintFloatPrecision)(variant & 3);
        c.fmode = (varintFloatEncodingMode)(fbyte % 3);
        if (n && special == n) {
            vf_class("float.allSpecial");
            o.worstData = 1;
        } else if (n && special == 0) {
            vf_class("float.noneSpecial");
            o.worstData = 1;
        } else {
            vf_class("float.mixed");
        }
        vf_desc(rep, " float{prec=%u mode=%u expMode=%d special=%zu}",
                (unsigned)c.prec, (unsigned)c.fmode, expMode, special);
        if ((ebyte & 8) == 0) {
            site = "float.encode";
            o.N = varintFloatMaxEncodedSize(n, c.prec);
            o.r = check_bound(rep, site, o.N, 0, e_float, &c,
                              "varintFloatEncode vs varintFloatMaxEncodedSize");
        } else {
            /* the precision is chosen by the encoder: a caller can only size
             * the buffer for the largest mode */
            static const double errs[8] = {0.0,    1e-12, 1e-10, 1e-7,
                                           4.9e-4, 5e-4,  0.03,  0.5};
            c.relerr = errs[ebyte & 7];
            site = "float.auto";
            o.N = varintFloatMaxEncodedSize(n, VARINT_FLOAT_PRECISION_FULL);
            o.r = check_bound(
                rep, site, o.N, 0, e_float_auto, &c,
                "varintFloatEncodeAuto vs varintFloatMaxEncodedSize(FULL)");
        }
        free(dv);
        break;
    }
    case F_FOR: {
        varintFORMeta meta;
        memset(&meta, 0, sizeof(meta));
        varintFORAnalyze(a->v, n, &meta);
        size_t viaSize = varintFORSize(&meta);
        if (viaSize != meta.encodedSize) {
            vf_fail(rep, "for.size", "predictor",
                    "varintFORSize = %zu but meta.encodedSize after "
                    "varintFORAnalyze = %zu (count=%zu)",
                    viaSize, meta.encodedSize, n);
            return o;
        }
        o.N = (variant & 2) ? meta.encodedSize : viaSize;
        /* metadata handed to the encoder: analysed, zeroed ("not analysed":
         * count != array length), or none */
        c.withMeta = (aux & 0x80) == 0;
        if ((variant & 4) == 0) {
            c.forMeta = meta;
        }
        vf_class(!c.withMeta       ? "for.metaNULL"
                 : (variant & 4)   ? "for.metaZeroed"
                                   : "for.metaAnalysed");
        if ((variant & 1) == 0) {
            site = "for.encode";
            o.r = check_bound(rep, site, o.N, 1, e_for, &c,
                              "varintFOREncode vs varintFORSize");
        } else {
            site = "for.batch";
            o.r = check_bound(rep, site, o.N, 1, e_for_batch, &c,
                              "varintFORBatchEncode vs varintFORSize");
        }
        if (varintTaggedLen(meta.minValue) == 9) {
            vf_class("for.min9bytes");
            o.worstData = 1;
        }
        if (meta.offsetWidth == 8) {
            vf_class("for.width8");
            o.worstData = 1;
        }
        break;
    }
    case F_PFOR: {
        static const uint32_t thr[3] = {VARINT_PFOR_THRESHOLD_95,
                                        VARINT_PFOR_THRESHOLD_90,
                                        VARINT_PFOR_THRESHOLD_99};
        c.thr = thr[(variant & 3) % 3];
        varintPFORMeta meta;
        memset(&meta, 0, sizeof(meta));
        varintPFORComputeThreshold(a->v, (uint32_t)n, c.thr, &meta);
        o.N = varintPFORSize(&meta);
        site = "pfor.encode";
        int exact = meta.exceptionCount == 0;
        o.r = check_bound(rep, site, o.N, exact, e_pfor, &c,
                          exact ? "varintPFOREncode vs varintPFORSize (no "
                                  "exceptions: exact)"
                                : "varintPFOREncode vs varintPFORSize");
        vf_desc(rep, " thr=%u exceptions=%u width=%u", c.thr,
                meta.exceptionCount, (unsigned)meta.width);
        if (exact) {
            vf_class("pfor.noExceptions");
        } else {
            vf_class("pfor.exceptions");
            /* harness-side view of where the exceptions sit */
            size_t last = 0;
            int nine = 0;
            for (size_t i = 0; i < n; i++) {
                if (a->v[i] > meta.thresholdValue) {
                    last = i;
                    nine |= a->v[i] >= TWO56;
                }
            }
            if (last > 240) {
                vf_class("pfor.excIndex>240");
                o.worstData = nine;
            }
            if (last > 2287) {
                vf_class("pfor.excIndex>2287");
            }
            if (nine) {
                vf_class("pfor.exc9bytes");
            }
        }
        break;
    }
    case F_GROUP:
        site = "group.encode";
        o.N = varintGroupSize(a->v, (uint8_t)n);
        o.r = check_bound(rep, site, o.N, 1, e_group, &c,
                          "varintGroupEncode vs varintGroupSize");
        if (n == VARINT_GROUP_MAX_FIELDS) {
            vf_class("group.64fields");
        }
        break;
    default: { /* F_DICT */
        if ((variant & 1) == 0) {
            site = "dict.encode";
            o.N = varintDictEncodedSize(a->v, n);
            o.r = check_bound(rep, site, o.N, 1, e_dict, &c,
                              "varintDictEncode vs varintDictEncodedSize");
        } else {
            site = "dict.withdict";
            varintDict *d = varintDictCreate();
            if (!d) {
                abort();
            }
            if (n == 0 || varintDictBuild(d, a->v, n) == 0) {
                c.dict = d;
                o.N = varintDictEncodedSizeWithDict(d, n);
                o.r = check_bound(rep, site, o.N, 1, e_dict_with, &c,
                                  "varintDictEncodeWithDict vs "
                                  "varintDictEncodedSizeWithDict");
                if (n && d->size == n) {
                    vf_class("dict.allDistinct");
                }
            } else {
                vf_discard("varintDictBuild failed");
                o.r = 0;
            }
            varintDictFree(d);
        }
        break;
    }
    }
    note_result(rep, site, &o);
    return o;
}

/* ------------------------------------------------------------------ driver */
/* families whose code handles count == 0 explicitly */
static int zero_ok(int fam) {
    switch (fam) {
    case F_DELTA:
    case F_RLE:
    case F_ELIAS_GAMMA:
    case F_ELIAS_DELTA:
    case F_BP128:
    case F_ADAPTIVE:
    case F_FLOAT:
    case F_DICT:
        return 1;
    default:
        return 0; /* FOR asserts count > 0, group rejects 0 fields, PFOR: the
                     header does not describe an empty frame */
    }
}

static size_t length_cap(int fam, unsigned sz, int *bigOK) {
    int large = (sz & 0x0f) == 0x0f;
    int huge = (sz & 0x3f) == 0x3f;
    int t = vf_tier();
    *bigOK = 0;
    switch (fam) {
    case F_GROUP:
        return VARINT_GROUP_MAX_FIELDS;
    case F_ADAPTIVE:
        /* uniqueness is an O(n^2) sort up to 10000 elements and an O((n/10)^2)
         * sort above: large inputs get a fixed share */
        *bigOK = (sz & 0x38) == 0x38 || t; /* 1/8 of the W_FOOL cases */
        if (huge) {
            return t ? 70000 : 25000;
        }
        return large ? 4200 : (t ? 600 : 300);
    case F_ELIAS_GAMMA:
    case F_ELIAS_DELTA:
    case F_BP128:
        /* bit-at-a-time writers */
        if (huge) {
            return t ? 70000 : 20000;
        }
        return large ? 4200 : 1300;
    case F_FLOAT:
        if (huge) {
            return t ? 70000 : 20000;
        }
        return large ? 4200 : 1300;
    default:
        if (huge) {
            return 70000;
        }
        return large ? (t ? 70000 : 20000) : 4200;
    }
}

/* the adaptive "large" sub-mode's fixed share of the sampler-fooling class:
 * about 1/15 of it on the quick tier (the extra mass of the byte 0xff
 * included), about 1/7 on the thorough tier */
static int large_share(unsigned sz) {
    /* development aid: VF_C03_NOLARGE=1 switches the sub-mode off (to measure
     * its share of the run time); such cases decode as before */
    static int off = -1;
    if (off < 0) {
        const char *e = getenv("VF_C03_NOLARGE");
        off = e && *e == '1';
    }
    if (off) {
        return 0;
    }
    return vf_tier() ? (sz & 0xE0) == 0xE0 : (sz & 0xF0) == 0xF0;
}

static int only_filter_skip(int fam) {
    /* development aid: VF_C03_ONLY=pfor,adaptive restricts a campaign to the
     * listed families (other cases are skipped, never re-interpreted, so a
     * saved case means the same with and without the variable) */
    static int init;
    static unsigned mask;
    if (!init) {
        init = 1;
        const char *e = getenv("VF_C03_ONLY");
        if (e && *e) {
            for (int f = 0; f < F_COUNT; f++) {
                const char *p = strstr(e, fam_name[f]);
                size_t l = strlen(fam_name[f]);
                while (p) {
                    int lb = p == e || p[-1] == ',';
                    int rb = p[l] == 0 || p[l] == ',';
                    if (lb && rb) {
                        mask |= 1u << f;
                        break;
                    }
                    p = strstr(p + 1, fam_name[f]);
                }
            }
        } else {
            mask = ~0u;
        }
    }
    return !(mask & (1u << fam));
}

void vf_run(vf_rd *r, vf_report *rep) {
    int fam = vf_u8(r) % F_COUNT;
    unsigned param = vf_u8(r);
    unsigned sz = vf_u8(r);
    unsigned variant = param & 7;
    /* 11/32 of the cases keep the generic array, 3/32 for each overlay */
    unsigned wcsel = param >> 3;
    unsigned wc = wcsel < 11 ? W_NONE : 1 + (wcsel - 11) / 3;
    if (only_filter_skip(fam)) {
        vf_class("filtered");
        return;
    }
    int bigOK;
    size_t maxlen = length_cap(fam, sz, &bigOK);
    unsigned flags = family_flags(fam, variant);
    vf_arr a;
    wcinfo wi;
    wi.wc = W_NONE;
    wi.note[0] = 0;
    largeinfo li;
    memset(&li, 0, sizeof(li));
    if (fam == F_ADAPTIVE && wc == W_FOOL && large_share(sz)) {
        memset(&a, 0, sizeof(a));
        take_large(r, &a, &wi, &li);
        large_measure(&a, &li);
    } else {
        vf_take_array(r, &a, maxlen, flags);
        if (wc != W_NONE) {
            take_worst(r, wc, fam, variant, maxlen, bigOK, &a, &wi);
            apply_domain(&a, flags);
        }
    }
    if (fam == F_DELTA && (variant & 1) == 0) {
        apply_domain(&a, VF_ARR_SDELTA); /* 2^62 itself -> 2^62-1 */
    }
    if (fam == F_GROUP && a.n > VARINT_GROUP_MAX_FIELDS) {
        arr_resize(&a, VARINT_GROUP_MAX_FIELDS);
    }
    unsigned fbyte = 0, ebyte = 0;
    if (fam == F_FLOAT) {
        fbyte = vf_u8(r);
        ebyte = vf_u8(r);
    }
    if (sz == 0x10 && zero_ok(fam)) {
        a.n = 0; /* storage stays allocated: pointers are non-NULL */
        vf_class("count0");
    }
    if (wi.wc == W_NONE) {
        vf_desc(rep, "family=%s variant=%u wc=none %s", fam_name[fam], variant,
                a.n ? a.desc : "n=0");
    } else {
        /* the overlay replaced the generic contents (and maybe the length) */
        vf_desc(rep, "family=%s variant=%u wc=%s{%s} n=%zu", fam_name[fam],
                variant, wc_name[wi.wc], wi.note, a.n);
        if (a.n) {
            vf_desc(rep, " [%llu", (unsigned long long)a.v[0]);
            for (size_t i = 1; i < a.n && i < 3; i++) {
                vf_desc(rep, ",%llu", (unsigned long long)a.v[i]);
            }
            if (a.n > 3) {
                vf_desc(rep, ",...,%llu", (unsigned long long)a.v[a.n - 1]);
            }
            vf_desc(rep, "]");
        }
    }
    cls2("fam", fam_name[fam]);
    cls2("wc", wc_name[wi.wc]);
    vf_arr_classes(&a, "arr");

    if (li.on) {
        vf_desc(rep, " distinct=%zu sampleDistinct=%zu/%zu", li.distinct,
                li.sampleDistinct, li.sampleSize);
    }
    outcome o = run_family(rep, fam, variant, &a, fbyte, ebyte, sz);
    if (li.on) {
        large_classes(&a, &li, o.sel, o.r, o.N);
    }

    if (!rep->violated && o.r != SIZE_MAX) {
        int nontrivial = wi.wc != W_NONE || o.worstData ||
                         (o.N > 0 && o.r >= (o.N + 1) / 2);
        if (nontrivial) {
            uint64_t h = vf_mix(vf_mix((uint64_t)fam, variant), vf_arr_hash(&a));
            h = vf_mix(h, a.n);
            if (fam == F_FLOAT) {
                h = vf_mix(h, (fbyte << 8) | ebyte);
            }
            vf_nontrivial(h);
        }
    }
    vf_arr_free(&a);
}

/* deterministic sweep: each encoder over the textbook worst cases of its bound
 * at the lengths where a header field changes width */
static void sweep_fill(vf_arr *a, size_t n, unsigned kind) {
    memset(a, 0, sizeof(*a));
    a->v = (uint64_t *)malloc((n ? n : 1) * sizeof(uint64_t));
    if (!a->v) {
        abort();
    }
    a->n = n;
    for (size_t i = 0; i < n; i++) {
        switch (kind) {
        case 0: /* all maximal */
            a->v[i] = UINT64_MAX;
            break;
        case 1: /* all-distinct 9-byte values */
            a->v[i] = UINT64_MAX - i;
            break;
        case 2: /* alternating huge / zero */
            a->v[i] = (i & 1) ? 0 : (1ULL << 63);
            break;
        case 3: /* ascending from 2^56 (9-byte minimum, narrow range) */
            a->v[i] = TWO56 + i;
            break;
        case 4: /* small cluster, 9-byte outliers at the last three indices */
            a->v[i] = i + 3 >= n ? UINT64_MAX - i : (i & 7);
            break;
        default: /* small values */
            a->v[i] = 1 + (i & 3);
            break;
        }
    }
    snprintf(a->desc, sizeof(a->desc), "sweep n=%zu kind=%u", n, kind);
}

void vf_sweep(vf_report *rep) {
    static const uint32_t lens[] = {1,   2,   21,  64,  127,  128,  129, 240,
                                    241, 242, 256, 257, 2287, 2288, 2289};
    uint64_t evals = 0;
    for (size_t li = 0; li < sizeof(lens) / sizeof(lens[0]); li++) {
        for (unsigned kind = 0; kind < 6 && !rep->violated; kind++) {
            for (int fam = 0; fam < F_COUNT && !rep->violated; fam++) {
                size_t n = lens[li];
                if (fam == F_GROUP && n > VARINT_GROUP_MAX_FIELDS) {
                    continue;
                }
                if (only_filter_skip(fam)) {
                    continue;
                }
                unsigned nvar = fam == F_BP128 ? 4
                                : fam == F_RLE ? 3
                                : fam == F_PFOR ? 3
                                : fam == F_FLOAT ? 4
                                : fam == F_ADAPTIVE || fam == F_GROUP ||
                                        fam == F_ELIAS_GAMMA ||
                                        fam == F_ELIAS_DELTA
                                    ? 1
                                    : 2;
                for (unsigned variant = 0; variant < nvar && !rep->violated;
                     variant++) {
                    vf_arr a;
                    sweep_fill(&a, n, kind);
                    unsigned flags = family_flags(fam, variant);
                    apply_domain(&a, flags);
                    rep->desclen = 0;
                    rep->desc[0] = 0;
                    vf_desc(rep, "sweep family=%s variant=%u kind=%u n=%zu",
                            fam_name[fam], variant, kind, n);
                    run_family(rep, fam, variant, &a, kind, variant << 3,
                               (kind & 1) << 7);
                    vf_arr_free(&a);
                    evals++;
                }
            }
        }
    }
    /* the documented adaptive worst case: 20000 values, every 10th equal */
    if (!rep->violated && !only_filter_skip(F_ADAPTIVE)) {
        vf_arr a;
        sweep_fill(&a, 20000, 1);
        for (size_t i = 0; i < a.n; i += 10) {
            a.v[i] = 7;
        }
        rep->desclen = 0;
        rep->desc[0] = 0;
        vf_desc(rep, "sweep family=adaptive n=20000 every 10th element = 7, "
                     "others distinct 9-byte values");
        run_family(rep, F_ADAPTIVE, 0, &a, 0, 0, 0);
        vf_arr_free(&a);
        evals++;
    }
    /* the adaptive bound's header-dominated worst case: 20k+1 elements, 9-byte
     * minimum, cluster spread over 2^57 (8-byte PFOR offsets), k far outliers */
    for (unsigned k = 1; k <= 3 && !rep->violated; k++) {
        if (only_filter_skip(F_ADAPTIVE)) {
            break;
        }
        vf_arr a;
        size_t n = 20 * (size_t)k + 1;
        sweep_fill(&a, n, 5);
        uint64_t spread = 1ULL << 57;
        for (size_t i = 0; i < n; i++) {
            a.v[i] = TWO56 + ((uint64_t)i * 0x9e3779b97f4a7c15ULL & (spread - 1));
        }
        a.v[0] = TWO56 + spread - 1;
        a.v[1] = TWO56;
        for (unsigned j = 0; j < k; j++) {
            a.v[n - 1 - j] = TWO56 + spread + spread / 5 + j;
        }
        rep->desclen = 0;
        rep->desc[0] = 0;
        vf_desc(rep, "sweep family=adaptive n=%zu wide cluster above 2^56, %u "
                     "far outliers", n, k);
        run_family(rep, F_ADAPTIVE, 0, &a, 0, 0, 0);
        vf_arr_free(&a);
        evals++;
    }
    /* representatives of the adaptive "large" sub-mode (same decoder as the
     * generated cases): every 10th element = 7, all others distinct values of
     * one tagged width class, so the sample sees one value and the dictionary
     * needs 3-byte indices: 7-, 8- and 9-byte values at 80000 elements (a
     * dictionary would not fit the bound), 6-byte values at 73000 (it fits) */
    static const uint8_t large[4][7] = {{3, 0, 0x10, 0, 1, 2, 7},
                                        {3, 0, 0x08, 0, 1, 2, 7},
                                        {3, 0, 0x00, 0, 1, 2, 7},
                                        {4, 0, 0x18, 0, 1, 2, 7}};
    for (unsigned j = 0; j < 4 && !rep->violated; j++) {
        if (only_filter_skip(F_ADAPTIVE)) {
            break;
        }
        vf_rd rd = {large[j], sizeof(large[j]), 0};
        vf_arr a;
        memset(&a, 0, sizeof(a));
        wcinfo wi;
        largeinfo li;
        memset(&li, 0, sizeof(li));
        take_large(&rd, &a, &wi, &li);
        large_measure(&a, &li);
        rep->desclen = 0;
        rep->desc[0] = 0;
        vf_desc(rep, "sweep family=adaptive %s distinct=%zu sampleDistinct=%zu/%zu",
                wi.note, li.distinct, li.sampleDistinct, li.sampleSize);
        outcome o = run_family(rep, F_ADAPTIVE, 0, &a, 0, 0, 0);
        large_classes(&a, &li, o.sel, o.r, o.N);
        vf_arr_free(&a);
        evals++;
    }
    vf_evals(evals);
    vf_class_n("sweep.evals", evals);
}
